"""C12 — a refused operation leaves the file exactly as it was (structural model, writer form)."""
import contextlib
import decimal
import fractions
import hashlib
import inspect
import io
import os
import random
import time
import uuid

import h5py
import numpy as np
import nixio
from nixio.exceptions import DuplicateName

from ..lib import core, storegen
from ..lib.core import Failure, Disagreement
from ..lib.storeimpl import Impl, BadOp, TRACKED
from . import c12_sweep as SW
from . import c12_vec as VEC
from . import c12_link as LNK
from . import c12_copy as CPY
from . import c12_prop as PRP
from . import c12_role as ROLE
from . import c12_attr as ATT
from . import c12_text as TXT
from ..extract import writeorder as _wo
from ..extract import mutorder as _mo
from ..extract import linkorder as _lo
from ..extract import copyorder as _co
from ..extract import propcreate as _pc
from ..extract import roleorder as _ro
from ..extract import attrorder as _ao
from ..extract import textorder as _to
from ..extract import frameshape as _fs         # C16's translator of data_frame.py: frame_write_refused_unchanged rests on it
from ..extract import datasetshape as _ds       # C01's compiler of data_set.py: append_refused_unchanged rests on it

PROP = "C12"
LEAN_MODULE = "NixModel.Props.C12"
THEOREMS = [
    "Nix.C12.writer_agrees",
    "Nix.C12.refused_unchanged",
    "Nix.C12.refused_unchanged_reachable",
    "Nix.C12.tidy_of_wf",
    "Nix.C12.no_partial_entity",
    "Nix.C12.no_attribute_change",
    "Nix.C12.links_kept_in_order",
    "Nix.C12.paths_kept",
    "Nix.C12.name_still_available",
    "Nix.C12.rejected_name_available",
    "Nix.C12.auto_array_refused_unchanged",
    "Nix.C12.extend_refused_unchanged",
    "Nix.C12.extend_loop_counterexample",
    "Nix.C12.auto_array_life_cycle",
    "Nix.C12.multi_tag_refused_unchanged",
    "Nix.C12.write_data_refused_unchanged",
    "Nix.C12.write_data_accepted",
    "Nix.C12.write_data_text_refused_unchanged",
    "Nix.C12.vector_setters_refused_unchanged",
    "Nix.C12.property_values_refused_unchanged",
    "Nix.C12.ticks_refused_unchanged",
    "Nix.C12.write_order_matters",
    "Nix.C12.mutators_validate_first",
    "Nix.C12.mutator_paths_refused_unchanged",
    "Nix.Order.safePath_refused_unchanged",
    "Nix.C12.link_steps_refused_unchanged",
    "Nix.C12.link_functions_safe",
    "Nix.C12.link_data_array_refused_unchanged",
    "Nix.C12.range_link_data_array_refused_unchanged",
    "Nix.C12.link_data_frame_refused_unchanged",
    "Nix.C12.range_link_data_frame_refused_unchanged",
    "Nix.C12.append_range_dimension_using_self_refused_unchanged",
    "Nix.C12.range_link_data_array_accepted",
    "Nix.C12.late_type_check_counterexample",
    "Nix.C12.entry_check_counterexample",
    "Nix.C12.guarded_refused_unchanged",
    "Nix.C12.copy_sound",
    "Nix.C12.copy_functions_safe",
    "Nix.C12.copy_refused_unchanged",
    "Nix.C12.late_name_check_counterexample",
    "Nix.C12.guarded_fn_refused_unchanged",
    "Nix.C12.create_property_pre_safe",
    "Nix.C12.create_property_refused_unchanged",
    "Nix.C12.create_property_accepted",
    "Nix.C12.cleanup_needs_duplicate_test",
    "Nix.C12.append_refused_unchanged",
    "Nix.C12.data_step_refused_unchanged",
    "Nix.C12.data_history_skips_refused",
    "Nix.C12.frame_write_refused_unchanged",
    "Nix.C12.frame_history_skips_refused",
    "Nix.C12.role_sound",
    "Nix.C12.role_setters_safe",
    "Nix.C12.role_setter_refused_unchanged",
    "Nix.C12.multi_tag_extents_refused_unchanged",
    "Nix.C12.multi_tag_positions_refused_unchanged",
    "Nix.C12.feature_data_refused_unchanged",
    "Nix.C12.section_link_refused_unchanged",
    "Nix.C12.metadata_refused_unchanged",
    "Nix.C12.multi_tag_extents_accepted",
    "Nix.C12.flattened_extents_counterexample",
    "Nix.C12.create_link_file_test_counterexample",
    "Nix.C12.dimension_link_functions_safe",
    "Nix.C12.dimension_link_object_refused_unchanged",
    "Nix.C12.dimension_link_object_accepted",
    "Nix.C12.dimension_link_object_before_fix_counterexample",
    "Nix.C12.link_file_test_counterexample",
    "Nix.C12.attr_sound",
    "Nix.C12.attr_setters_safe",
    "Nix.C12.attr_setter_refused_unchanged",
    "Nix.C12.set_attr_refused_unchanged",
    "Nix.C12.data_array_label_accepted",
    "Nix.C12.set_attr_text_check_counterexample",
    "Nix.C12.text_vector_sound",
    "Nix.C12.text_vector_setters_safe",
    "Nix.C12.text_vector_setter_refused_unchanged",
    "Nix.C12.text_vector_history_skips_refused",
    "Nix.C12.set_attr_vector_check_counterexample",
    "Nix.C12.write_data_text_check_counterexample",
    "Nix.Guarded.history_skips_refused",
    "Nix.C12.role_history_skips_refused",
    "Nix.C12.attr_history_skips_refused",
]
ASSUMPTIONS = [
    "uuid4 ids are drawn from an abstract fresh supply; no link of the file is named like an id not yet drawn "
    "(NamesNotFuture; part of C03's invariant WF of reachable states); '<name>-positions' / '<name>-extents' are not "
    "ids of the supply",
    "argument classes the structural model abstracts from (dtype, data, position, ticks, labels, unit, label ...) enter "
    "as a Fault = (stage of the Python function at which the argument makes it raise, error class); the mapping "
    "concrete argument -> (stage, class) is the harness table FAULTS, exercised by the correspondence",
    "dimension descriptors of an array are named 1..n (DimsDense; delete_dimensions removes all of them)",
    "HDF5 hides unlinked objects: a rolled-back entity is modelled as an unlinked node, which `Unch` allows",
    "the theorems quantify over every graph with C03's invariant (every state reachable when refused calls leave the "
    "graph literally unchanged); that the invariant also survives the unlinked leftovers of the writer semantics is "
    "not proved - the correspondence runs the model on the writer-reached graphs throughout",
    "array data and dataset extents are outside the structural model (leaf nodes); the vector-valued attributes "
    "(Tag.position / extent, DataArray.polynom_coefficients through H5Group.write_data, Property.values) have a model "
    "of their own (Pure/VecWrite.lean) whose step lists are rendered from the source; other data-level calls "
    "(DataSet.append, write_direct, DataFrame writes, dimension setters) are covered by the implementation-side oracle only",
    "VecWrite: elements of an offered value are abstract (typeOk / convOk / h5Ok); a NumPy conversion that succeeded makes "
    "the following h5py write of the converted contiguous array succeed; h5py refuses a resize to another rank without "
    "changing the dataset; resize of a one-dimensional dataset truncates or zero-pads",
    "LinkWrite: the index offered to link_data_array / append_range_dimension_using_self is abstract (what the container "
    "can do: len, iteration, count, membership in collections.abc.Sequence; per entry: plain number, == -1, < 0, "
    "comparable, storable); only validations and the set_attr of the index can raise, every other HDF5 write of "
    "DimensionLink.create_new succeeds; the harness probes the Python object to obtain the abstraction",
    "CopyWrite: the arguments of a copying call are abstract (name: truth value defined, usable as an h5py key, taken, "
    "storable as text; flags: bool() defined, value; source of the expected class); h5py's object copy succeeds when the "
    "name is free in the destination; copying the properties into the freshly copied section (children=False) is not "
    "refused; the container group opened with create=True stays invisible to readers while it is empty",
    "RoleWrite: the object offered to a role-link setter is abstract (its class as the `is None` / `isinstance` tests see "
    "it; where it lives: held by the owner's block - a section: anywhere in this file -, another block, another file, "
    "deleted again; for Section.link given no Section: whether find_sections finds the id); of the HDF5 writes of a "
    "setter only the hard link can refuse, and only for an object of another file; an object the block's container "
    "holds lives in this file; the harness reads class and place off the scene",
    "AttrWrite: the value offered to an attribute setter is abstract (None-ness, isinstance of the type named, whether the "
    "setter's normalisation raises and whether it yields None / text, whether the text can be stored, whether h5py has "
    "an HDF5 type for the value); h5py determines the HDF5 type of a value before it touches the attribute and removes "
    "the previous value before it writes the new one (a text it cannot store is found out after the removal); "
    "RangeDimension.label / unit are modelled for a dimension without link",
    "TextVecWrite: the value offered as units / labels is abstract (truth value defined, falsy, list-like, iterable, every "
    "element accepted by the validation loop, convertible to an array of texts with one entry per column, every text "
    "storable); resizing / creating the dataset cannot fail; h5py removes the previous value of the units attribute before "
    "it refuses a text",
    "PropCreate: name and values enter as classes (name usable as key / taken / accepted by check_entity_name; values "
    "accepted by the typing block / element type known / storable - harness table VALUES of c12_prop.py); the theorem "
    "assumes the duplicate test sees the section as it is (Consistent)",
]
TRUSTED_EXTRA = ["harness/lib/storeimpl.py + storegen.py (path addressing by iteration, HDF5-level dump with h5py)",
                 "harness/props/c12.py FAULTS table (concrete invalid argument -> stage and error class)",
                 "harness/extract/writeorder.py renders H5Group.write_data and the position / extent / polynom_coefficients / "
                 "Property.values setters statement by statement as step lists (any unrecognised statement is a broken tie)",
                 "harness/props/c12_vec.py ELEMS table (concrete element -> typeOk / convOk / h5Ok)",
                 "harness/extract/mutorder.py classifies the calls in the bodies of the public mutators (validation / "
                 "primitive write / refusable call / protected section) by name; the abstract execution of Pure/Order.lean "
                 "(only validations and refusable calls raise, a protected section restores the file) is a model of that "
                 "discipline, not of h5py",
                 "harness/extract/linkorder.py renders link_data_array / link_data_frame (Dimension and RangeDimension) and "
                 "append_range_dimension_using_self with their callees inlined (_check_link_dimensionality, _check_index, "
                 "remove_link, DimensionLink.create_new, the DimensionLink.index setter) statement by statement; any "
                 "statement it does not know is a broken tie",
                 "harness/props/c12_link.py probes of the offered index (len / iter / count / isinstance Sequence, per entry "
                 "isinstance / == -1 / < 0, NumPy's element type of the list)",
                 "harness/extract/roleorder.py renders the eleven role-link setters and H5Group.create_link statement by "
                 "statement, one path per class of the offered object (tests on the class are evaluated, every other "
                 "test must be one of the known membership / presence / link-type tests; unknown statement = broken tie)",
                 "harness/extract/textorder.py renders BaseTag.units, SetDimension.labels, DataFrame.units and the text branch of "
                 "write_data / the vector branch of set_attr; harness/props/c12_text.py probes of the offered value",
                 "harness/extract/attrorder.py finds every property setter of the anchored modules that calls set_attr and "
                 "renders it with H5Group.set_attr / H5DataSet.set_attr inlined (unknown statement = broken tie); "
                 "harness/props/c12_attr.py probes of the offered value",
                 "harness/extract/copyorder.py renders H5Group.copy and its callers statement by statement (unknown statement = "
                 "broken tie); harness/props/c12_copy.py probes of name and flags"]
READY = True
MANIFEST = {
    "level_text": "Kernel-checked theorems over two Lean models tied to the source. (1) nixio's creating/mutating API "
                  "written as *writers* (Store/ApiW.lean: primitive HDF5 writes in the code's order, returning the graph "
                  "reached together with the error): agreement with the Except-style API model used by C03-C05, and "
                  "refused_unchanged - for every operation, fault stage and error class, in every reachable state, the "
                  "graph reached by a refused call is observationally the graph before it (all attributes and ordered links "
                  "of every node kept; only links to new empty container groups may appear; rolled-back nodes are unlinked). "
                  "(2) the vector-valued attributes (Pure/VecWrite.lean): H5Group.write_data and the Tag.position / "
                  "Tag.extent / DataArray.polynom_coefficients / Property.values / RangeDimension.ticks setters are *step lists rendered from the "
                  "source statement by statement* (Generated/WriteOrder.lean: condition of the NumPy conversion, order of "
                  "conversion / resize-or-create / write / time stamp); for every spelling of the value (None, number, "
                  "list, tuple, ndarray of any element type, 0-d, n-d), every stored vector or none, a refused assignment "
                  "leaves dataset and updated_at (ticks: dataset and the dimension's link) unchanged, an accepted one stores "
                  "the converted values; moving the resize "
                  "before the conversion or narrowing the conversion's condition in the source breaks lake build on named "
                  "theorems (write_order_matters proves both variants wrong on the model). "
                  "(3) Generated/MutatorOrder.lean lists, for each of the ~115 public mutators of the anchored modules, the "
                  "events (validation, raise, primitive write, refusable call, protected section) along every path through "
                  "its body; mutators_validate_first proves by evaluation that all but 15 named ones never validate, raise "
                  "or call a refusable mutator after an unprotected write, and safePath_refused_unchanged that this "
                  "discipline implies refused => unchanged in the abstract execution, for every oracle of failures. "
                  "(4) dimension links (Pure/LinkWrite.lean): link_data_array / link_data_frame of Dimension and RangeDimension "
                  "and append_range_dimension_using_self are step lists rendered from the source with the callees inlined "
                  "(Generated/LinkOrder.lean: the pre-checks, remove_link, DimensionLink.create_new write by write, the late "
                  "validations of the DimensionLink.index setter); link_steps_refused_unchanged proves for every step list "
                  "that, if every statement able to raise after the first write asks only for what a guard passed before it "
                  "has established, a refused call returns the file it found - for every spelling of the index (container "
                  "capabilities x entries) and every previous state of the descriptor; link_functions_safe evaluates that "
                  "discipline on the generated lists, the five *_refused_unchanged theorems are the instances, "
                  "late_type_check_counterexample / entry_check_counterexample prove the earlier orders wrong. "
                  "(5) guarded_refused_unchanged is that discipline theorem for EVERY system of guards and writes "
                  "(Pure/Guarded.lean: writes that refuse only for what a guard could have asked, writes invisible to readers); "
                  "the copying functions (H5Group.copy inlined into create_data_array / data_frame / tag / multi_tag / block / "
                  "property with copy_from and the two copy_section, Generated/CopyOrder.lean) are shown to be such a system "
                  "(copy_sound) whose generated lists obey it (copy_functions_safe), hence copy_refused_unchanged; "
                  "late_name_check_counterexample proves the order before the repairs wrong; Section.create_property with "
                  "Property.create_new inlined is a function with a protected section (Generated/PropCreateOrder.lean: pre / try "
                  "body / except handler): create_property_refused_unchanged covers every refusal incl. the values refused "
                  "after the property was written (the handler's delete-by-name restores the section because the duplicate "
                  "test came first - cleanup_needs_duplicate_test shows it would not otherwise). "
                  "(5b) role links (Pure/RoleWrite.lean on Generated/RoleOrder.lean: the setters of MultiTag.positions / "
                  "extents, Feature.data, Section.link and the seven metadata setters with H5Group.create_link inlined, one "
                  "step list per class of the offered object): role_sound + role_setters_safe + "
                  "role_setter_refused_unchanged - for every setter, every offered object (class x held by the block / "
                  "other block / other file / deleted x id found or not) and every previous state of the owner a refused "
                  "assignment leaves the previous link, target_type and updated_at as they were; the discipline now knows "
                  "that a passed guard establishes others (membership in the block => same file); "
                  "flattened_extents_counterexample / create_link_file_test_counterexample prove the orders of seeded "
                  "change C12-7 and of nixio before 16b3ce3 wrong; the object handed to Dimension.link_data_array / "
                  "link_data_frame is rendered too (the same-file test of the two functions, then create_link inlined): "
                  "dimension_link_functions_safe + dimension_link_object_refused_unchanged - whatever object of whatever "
                  "file a dimension is asked to link, a refusal leaves the previous link in place and builds no link "
                  "group (the repaired finding C12-dimension-link-object-of-another-file; "
                  "dimension_link_object_before_fix_counterexample / link_file_test_counterexample prove the order "
                  "before the repair wrong). "
                  "(5c) single-valued attributes (Pure/AttrWrite.lean on Generated/AttrOrder.lean: the 21 setters that end in "
                  "set_attr, found in the source, set_attr inlined, one list for None and one for a value): attr_sound + "
                  "attr_setters_safe + attr_setter_refused_unchanged - every setter, every value, attribute present or "
                  "absent: refused => attribute and updated_at unchanged; history_skips_refused (generic: on a system whose readers "
                  "see the whole state a history of disciplined calls ends where the history of its accepted calls ends) "
                  "with the instances role_history_skips_refused / attr_history_skips_refused - refusals injected at any "
                  "point of any history of assignments; set_attr_text_check_counterexample proves the "
                  "set_attr of before nixio df56e57 wrong (h5py removes the previous value before it refuses a text). "
                  "(5d) vectors of texts (Pure/TextVecWrite.lean on Generated/TextVecOrder.lean: BaseTag.units, "
                  "SetDimension.labels with write_data(text dtype) inlined, DataFrame.units with the vector branch of set_attr "
                  "inlined): text_vector_sound + text_vector_setters_safe + text_vector_setter_refused_unchanged (+ history "
                  "form); set_attr_vector_check_counterexample / write_data_text_check_counterexample prove the callees of "
                  "before nixio a2e6437 / ac8fa14 wrong. "
                  "(6) DataSet.append / write_direct / __setitem__ / data_extent: append_refused_unchanged and "
                  "data_step_refused_unchanged restate, on the definitions C01 compiles from data_set.py, that a raised step "
                  "leaves extent, elements, element type and filter flag as they were (the roll-back of append); "
                  "frame_write_refused_unchanged does the same for every DataFrame write on C16's model of data_frame.py. "
                  "Tied to the code by differential execution: random histories with injected invalid calls (HDF5-level "
                  "dump after the refusal compared with the writer model's reached graph, then the same call with a valid "
                  "argument) and random vector assignments (dataset read back with h5py). An implementation-side oracle "
                  "states the property itself: strict HDF5 snapshot around every refused call of a catalogue, of random "
                  "histories, and of the argument-spelling sweep (about 175 value-taking public mutators x 350 spellings of "
                  "the value x short / long stored state, and every argument of 82 multi-argument calls varied in turn over "
                  "~180 respellings of its own valid value - the same content as tuple / ndarray / generator / duck-typed "
                  "container / NumPy scalar / enum text / entity id ...; quick tier: a stratified part, thorough: most of it).",
    "level_note": "Trusted: Lean kernel; standard axioms; the correspondence harness with its fault table and element table "
                  "and its probes of offered objects / values (class and place of an entity offered to a role link, what a value "
                  "offered to an attribute is); "
                  "the translators' reading of the statements; h5py/HDF5 link and resize semantics modelled, not "
                  "verified; the event classification of mutorder.py is by method name and the 15 mutators listed in "
                  "Props/C12.lean `writesFirst` are exempt from the order theorem (covered by the writer model or the oracle "
                  "only). Partial: refusals of Property.odml_type, label / unit of a LINKED range dimension (C05 models "
                  "the link) and File-level deletes have no C12 theorem: they are checked by the oracle (catalogue + spelling "
                  "sweep) on the implementation only. Tag.units / MultiTag.units / SetDimension.labels: only their common "
                  "write_data call with a text dtype has a theorem (write_data_text_refused_unchanged), their own validation "
                  "loops are not modelled; the copy model stops at the destination container (the copied subtree is one item); ticks_refused_unchanged assumes that a linked dimension holds no ticks dataset. In DataArray.append_range_dimension_using_self the object linked is the array itself "
                  "(step createSelfLink: no same-file question arises). create_multi_tag with positions/extents given as data has its own full theorem "
                  "(multi_tag_refused_unchanged, under C03's invariant WF and the assumption that '<name>-positions' / "
                  "'<name>-extents' are not ids of the supply). name_still_available is proved for "
                  "create_group/source/data_array/tag (not for multi tags).",
    "technique": "Lean 4 proof (writer semantics of the structural model: per-operation case analysis and invariants over "
                 "all graphs / histories; a step-list machine for the vector setters with induction over validation "
                 "prefixes; a guard-discipline theorem by induction over step lists for the dimension links) with differential "
                 "correspondence checking against nixio, six ast-based translators (+ C01's compiler of data_set.py, C16's of data_frame.py), and an "
                 "implementation-side property oracle (snapshot around refused calls: catalogue, histories, spelling sweep)",
}


def extract(repo):
    files = dict(_wo.extract(repo))
    files.update(_mo.extract(repo))
    files.update(_lo.extract(repo))
    files.update(_co.extract(repo))
    files.update(_pc.extract(repo))
    files.update(_ro.extract(repo))
    files.update(_ao.extract(repo))
    files.update(_to.extract(repo))
    files.update(_ds.extract(repo))
    files.update(_fs.extract(repo))
    return files


TRACKED12 = TRACKED + ("dimension_type",)

# concrete invalid arguments per (what, stage, error class, variant)  ---------------------------------
DA_FAULTS = {
    ("pre", "ValueError", "no-data-no-shape"): dict(),
    ("pre", "ValueError", "ragged-data"): dict(data=[[1, 2], [3]]),
    ("pre", "ValueError", "shape-mismatch"): dict(data=[1.0, 2.0], shape=(3,)),
    ("entity", "TypeError", "dtype-nonsense"): dict(dtype="nonsense", data=[1, 2]),
    ("entity", "TypeError", "dtype-nonsense-shape"): dict(dtype="nonsense", shape=(2,)),
    ("entity", "TypeError", "object-data"): dict(data="OBJ"),
    ("entity", "TypeError", "str-data-no-dtype"): dict(data=["a", "b"]),
    ("data", "TypeError", "float-data-string-dtype"): dict(data=[1.5], dtype=nixio.DataType.String),
    ("data", "TypeError", "str-data-float-dtype"): dict(data=["a"], dtype=nixio.DataType.Double),
    ("data", "TypeError", "label-int"): dict(data=[1.0], label=5),
    ("data", "AttributeError", "unit-int"): dict(data=[1.0], unit=5),
}
TAG_FAULTS = {       # H5Group.write_data converts to float before the dataset is created: stage `entity`
    ("entity", "ValueError", "position-scalar-str"): "abc",
    ("entity", "ValueError", "position-nonnumeric"): ["a"],
    ("entity", "TypeError", "position-object"): "OBJ",
}
ARR_FAULTS = {       # positions / extents of create_multi_tag given as data
    ("entity", "TypeError", "scalar-str"): "xx",
    ("entity", "TypeError", "object-data"): "OBJ",
    ("pre", "ValueError", "ragged-data"): [[1, 2], [3]],
}
DIM_FAULTS = {
    "set": {(True, "entity", "ValueError", "labels-int"): dict(labels=[1, 2]),
            (True, "entity", "ValueError", "labels-scalar"): dict(labels=5)},
    "sample": {(False, "entity", "TypeError", "interval-str"): dict(sampling_interval="x"),
               (False, "entity", "TypeError", "label-int"): dict(sampling_interval=1.0, label=5),
               (False, "entity", "TypeError", "unit-int"): dict(sampling_interval=1.0, unit=5),
               (False, "entity", "TypeError", "offset-str"): dict(sampling_interval=1.0, offset="x")},
    "range": {(True, "data", "ValueError", "ticks-unordered"): dict(ticks=[3, 2, 1]),
              (True, "entity", "ValueError", "ticks-nonnumeric"): dict(ticks=["a", "b"]),
              (True, "data", "TypeError", "label-int"): dict(ticks=[1, 2], label=5),
              (True, "data", "ValueError", "ticks-scalar"): dict(ticks=5),
              (False, "entity", "TypeError", "label-int"): dict(label=5)},
}


def _obj(v):
    """the JSON-able table writes "OBJ" for a list of Python objects"""
    return [object(), object()] if v == "OBJ" else v


def _fkey(f):
    return (f[0], f[1], f[2])


class Impl12(Impl):
    """storeimpl.Impl + the ops of Driver/C12.lean; with `strict`, an HDF5 snapshot is taken around every
    mutating op and a refusal that changed the file is recorded in `self.changed`"""

    MUTATORS = ("create_block", "create_section", "create", "create_property", "create_feature", "create_mtag",
                "append_dim", "del", "append", "extend", "set_role", "set_attr")

    def __init__(self, path, literal_uuid_names=(), strict=False):
        super().__init__(path, literal_uuid_names)
        self.strict = strict
        self.changed = []
        self.refused = 0
        self.crashed = None

    def run(self, op):
        if not (self.strict and op[0] in self.MUTATORS):
            return super().run(op)
        before = snapshot(self.f)
        out = super().run(op)
        if "err" in out:
            self.refused += 1
            after = snapshot(self.f)
            if after != before:
                self.changed.append((op, out["err"], snap_diff(before, after)))
        return out

    def _run(self, op):
        kind = op[0]
        if kind == "create" and len(op) == 7 and op[6] is not None:
            owner = self.nav(op[1])
            what, name, typ, fault = op[2], self.name_arg(op[3]), op[4], op[6]
            if what == "data_array":
                kw = {k: _obj(v) for k, v in DA_FAULTS[_fkey(fault)].items()}
                owner.create_data_array(name, typ, **kw)
            elif what == "tag":
                owner.create_tag(name, typ, _obj(TAG_FAULTS[_fkey(fault)]))
            else:
                raise BadOp("no fault for %s" % what)
            return None
        if kind == "create" and len(op) == 7:
            return super()._run(op[:6])
        if kind == "create_mtag":
            owner = self.nav(op[1])
            if not hasattr(owner, "create_multi_tag"):
                raise AttributeError("create_multi_tag")
            name, typ = self.name_arg(op[2]), op[3]
            args = []
            for spec in (op[4], op[5]):
                if spec is None:
                    args.append(None)
                elif "ref" in spec:
                    args.append(self.nav(spec["ref"]))
                elif spec["data"] is None:
                    args.append([1.0, 2.0])
                else:
                    args.append(_obj(ARR_FAULTS[_fkey(spec["data"])]))
            owner.create_multi_tag(name, typ, positions=args[0], extents=args[1])
            return None
        if kind == "append_dim":
            owner = self.nav(op[1])
            dk, wd, fault = op[2], bool(op[3]), op[4]
            meth = {"set": "append_set_dimension", "sample": "append_sampled_dimension",
                    "range": "append_range_dimension"}.get(dk)
            if meth is None or not hasattr(owner, meth):
                raise AttributeError(dk)
            if fault is None:
                kw = {"set": dict(labels=["a", "b"]) if wd else dict(),
                      "sample": dict(sampling_interval=1.0),
                      "range": dict(ticks=[1.0, 2.0, 3.0]) if wd else dict()}[dk]
            else:
                kw = DIM_FAULTS[dk][(wd, fault[0], fault[1], fault[2])]
            getattr(owner, meth)(**kw)
            return None
        if kind == "extend":
            cont = self.container(self.nav(op[1]), op[2])
            cont.extend([self.key_arg(k) for k in op[3]])
            return None
        if kind in ("dump12", "dump"):
            return self.dump12()
        return super()._run(op)

    def dump12(self):
        """Impl.dump with the dimension descriptors visible (same schema as Driver.C12.dump12)"""
        h5 = self.f._h5file
        h5.flush()
        seen, out = {}, {}

        def addr(obj):
            info = h5py.h5o.get_info(obj.id)
            tok = getattr(info, "token", None)
            return bytes(tok) if tok is not None else info.addr

        def empty_cont(obj):
            return isinstance(obj, h5py.Group) and len(obj) == 0 and not [a for a in obj.attrs if a in TRACKED12]

        def visit(obj):
            a = addr(obj)
            if a in seen:
                return seen[a]
            n = len(seen)
            seen[a] = n
            links = []
            if isinstance(obj, h5py.Group):
                for nm in link_names(obj):
                    child = obj[nm]
                    if empty_cont(child):
                        continue
                    links.append([nm, visit(child)])
            attrs = {}
            for k in TRACKED12:
                if k in obj.attrs and obj is not h5["/"]:
                    v = obj.attrs[k]
                    attrs[k] = v.decode() if isinstance(v, bytes) else str(v)
            out[n] = {"n": n, "kind": "group" if isinstance(obj, h5py.Group) else "dataset", "attrs": attrs,
                      "links": links}
            return n

        visit(h5["/"])
        return [out[k] for k in sorted(out)]


def link_names(grp):
    names = []
    grp.id.links.iterate(lambda nm: names.append(nm), idx_type=h5py.h5.INDEX_CRT_ORDER, order=h5py.h5.ITER_INC)
    return [nm.decode() if isinstance(nm, bytes) else nm for nm in names]


# ---------------------------------------------------------------------------------------------------
# strict snapshot of a file: every object reachable from '/', every attribute, every dataset's content


def snapshot(f):
    h5 = f._h5file
    h5.flush()
    seen, out = {}, []

    def addr(obj):
        info = h5py.h5o.get_info(obj.id)
        tok = getattr(info, "token", None)
        return bytes(tok) if tok is not None else info.addr

    def invisible(obj):
        return isinstance(obj, h5py.Group) and len(obj) == 0 and len(obj.attrs) == 0

    def visit(obj, path):
        a = addr(obj)
        if a in seen:
            return seen[a]
        n = len(seen)
        seen[a] = n
        attrs = []
        for k in sorted(obj.attrs):
            v = obj.attrs[k]
            attrs.append((k, repr(v.tolist()) if isinstance(v, np.ndarray) else repr(v)))
        rec = {"n": n, "path": path, "attrs": attrs}
        if isinstance(obj, h5py.Group):
            links = []
            for nm in link_names(obj):
                child = obj[nm]
                if invisible(child):
                    continue
                links.append((nm, visit(child, path + "/" + nm)))
            rec["links"] = links
        else:
            try:
                data = obj[()]
                content = hashlib.sha256(repr(data.tolist()).encode("utf-8", "replace")).hexdigest()[:16]
            except Exception as e:       # noqa
                content = "unreadable:" + type(e).__name__
            rec["data"] = (tuple(obj.shape), str(obj.dtype), content)
        out.append(rec)
        return n

    visit(h5["/"], "")
    return sorted(out, key=lambda r: r["n"])


def snap_diff(a, b):
    """readable difference of two snapshots (node numbers shift when a node appears: links are shown by name)"""
    pa = {r["path"]: r for r in a}
    pb = {r["path"]: r for r in b}
    d = []
    for p in sorted(set(pb) - set(pa)):
        d.append("appeared: %s" % (p or "/"))
    for p in sorted(set(pa) - set(pb)):
        d.append("vanished: %s" % (p or "/"))
    for p in sorted(set(pa) & set(pb)):
        x, y = pa[p], pb[p]
        if x["attrs"] != y["attrs"]:
            ax, ay = dict(x["attrs"]), dict(y["attrs"])
            for k in sorted(set(ax) | set(ay)):
                if ax.get(k) != ay.get(k):
                    d.append("attribute %s of %s: %s -> %s" % (k, p or "/", ax.get(k), ay.get(k)))
        lx, ly = [n for n, _ in x.get("links", [])], [n for n, _ in y.get("links", [])]
        if lx != ly:
            d.append("links of %s: %s -> %s" % (p or "/", lx, ly))
        if x.get("data") != y.get("data"):
            d.append("data of %s: %s -> %s" % (p or "/", x.get("data"), y.get("data")))
    if not d:
        d.append("link targets changed (same names)")
    return d[:8]


def walk(f):
    """canonical walk through the public API (names / ids / types of everything, link lists, role links)"""
    out = []

    def ent(e, path):
        rec = [path, type(e).__name__, getattr(e, "name", None), e.id, getattr(e, "type", None),
               getattr(e, "definition", None)]
        out.append(rec)

    def sources(o, path):
        for s in o.sources:
            ent(s, path + "/src:" + s.name)
            sources(s, path + "/src:" + s.name)

    def sections(o, path):
        for s in o.sections:
            p = path + "/s:" + s.name
            ent(s, p)
            for pr in s.props:
                out.append([p + "/p:" + pr.name, "Property", pr.id, str(pr.data_type), repr(list(pr.values)), pr.unit])
            sections(s, p)

    for b in f.blocks:
        bp = "b:" + b.name
        ent(b, bp)
        for da in b.data_arrays:
            p = bp + "/da:" + da.name
            ent(da, p)
            out.append([p, "shape", tuple(da.shape), str(da.dtype), da.unit, da.label, len(da.dimensions),
                        [d.dimension_type.value for d in da.dimensions], [s.id for s in da.sources]])
        for g in b.groups:
            ent(g, bp + "/g:" + g.name)
            out.append([bp + "/g:" + g.name, "links", [x.id for x in g.data_arrays], [x.id for x in g.tags],
                        [x.id for x in g.multi_tags], [x.id for x in g.sources]])
        for t in b.tags:
            p = bp + "/t:" + t.name
            ent(t, p)
            out.append([p, "tag", list(t.position), list(t.extent), [x.id for x in t.references],
                        [(x.id, x.link_type.value) for x in t.features]])
        for t in b.multi_tags:
            p = bp + "/mt:" + t.name
            ent(t, p)
            try:
                pos = t.positions.id
            except Exception:       # noqa
                pos = "dangling"
            out.append([p, "mtag", pos, t.extents.id if t.extents is not None else None,
                        [x.id for x in t.references], [(x.id, x.link_type.value) for x in t.features]])
        sources(b, bp)
    sections(f, "")
    return out


# ---------------------------------------------------------------------------------------------------
# generator: storegen histories with injected invalid calls


class Gen12(storegen.Gen):
    def around(self, op, retry=None, probe=None):
        """dump, the (probably refused) call, dump, the container, then the same call with a valid argument"""
        self.do(["dump12"])
        out = self.do(op)
        self.do(["dump12"])
        if probe:
            self.do(["list"] + probe)
        if retry is not None:
            self.do(retry)
            self.do(["dump12"])
            if probe:
                self.do(["list"] + probe)
        return out

    def fresh(self, sib):
        c = [n for n in storegen.NAMES_PLAIN if n not in sib and "/" not in n]
        return self.rng.choice(c) if c else "fresh-%d" % self.rng.randrange(10 ** 6)

    def inject(self):
        rng = self.rng
        ents = storegen.inventory(self.impl)
        blocks = [e for e in ents if e.kind == "block"]
        if not blocks:
            self.do(["create_block", "b0", "t"])
            return "setup"
        kind = rng.choice(["da_fault", "da_fault", "tag_fault", "mtag", "mtag", "dim", "dim", "name", "name",
                           "feature", "link", "extend", "extend", "role", "role", "index"])
        b = rng.choice(blocks)
        if kind in ("da_fault", "tag_fault"):
            what = "data_array" if kind == "da_fault" else "tag"
            cname = "data_arrays" if what == "data_array" else "tags"
            sib = self.siblings(ents, b.path, cname)
            name = self.fresh(sib) if rng.random() < 0.85 else self.name(sib)
            f = list(rng.choice(sorted((DA_FAULTS if what == "data_array" else TAG_FAULTS).keys())))
            typ = "t" if rng.random() < 0.95 else ""
            self.around(["create", b.path, what, name, typ, None, f],
                        ["create", b.path, what, name, typ or "t", None, None], [b.path, cname])
            return kind + ":" + f[2]
        if kind == "mtag":
            sib = self.siblings(ents, b.path, "multi_tags")
            name = self.fresh(sib + self.siblings(ents, b.path, "data_arrays"))

            def arr(allow_none):
                r = rng.random()
                if r < 0.3:
                    da = self.pick(ents, "data_array", block=b.block)
                    return {"ref": da.path} if da else {"data": None}
                if r < 0.4:
                    da = self.pick(ents, "data_array" if rng.random() < 0.6 else
                                   rng.choice(["block", "tag", "group", "source", "multi_tag"]),
                                   block=None if rng.random() < 0.7 else b.block)
                    return {"ref": da.path} if da else {"data": None}
                if r < 0.6:
                    return {"data": None}
                if r < 0.9 or not allow_none:
                    return {"data": list(rng.choice(sorted(ARR_FAULTS.keys())))}
                return None
            pos, ext = arr(True), arr(True)
            if rng.random() < 0.25:     # the auto-created array's name is taken
                self.do(["create", b.path, "data_array", name + rng.choice(["-positions", "-extents"]), "t", None])
            self.around(["create_mtag", b.path, name, "t", pos, ext],
                        ["create_mtag", b.path, name, "t", {"data": None}, None], [b.path, "multi_tags"])
            self.do(["list", b.path, "data_arrays"])
            return "mtag:%s/%s" % ("ref" if pos and "ref" in pos else "none" if pos is None else
                                   (pos["data"] or ["", "", "ok"])[2],
                                   "ref" if ext and "ref" in ext else "none" if ext is None else
                                   (ext["data"] or ["", "", "ok"])[2])
        if kind == "dim":
            da = self.pick(ents, "data_array" if rng.random() < 0.93 else None)
            if da is None:
                return "dim:none"
            dk = rng.choice(["set", "sample", "range"])
            key = rng.choice(sorted(DIM_FAULTS[dk].keys()))
            wd, f = key[0], list(key[1:])
            self.around(["append_dim", da.path, dk, wd, f], ["append_dim", da.path, dk, wd, None])
            return "dim:%s:%s" % (dk, f[2])
        if kind == "name":
            what = rng.choice(["group", "data_array", "tag", "multi_tag", "source", "section", "property", "block"])
            bad = rng.choice(["dup", "dup", "empty", "slash", "type"])
            if what == "block":
                sib = [x.name for x in blocks]
                owner, cname, mk = [], "data", lambda n, t: ["create_block", n, t]
            elif what == "section":
                par = self.pick(ents, "section") if rng.random() < 0.6 else None
                owner = par.path if par else []
                cname = "sections" if par else "metadata"
                sib = self.siblings(ents, owner, cname)
                mk = lambda n, t: ["create_section", owner, n, t]            # noqa
            elif what == "property":
                sec = self.pick(ents, "section")
                if sec is None:
                    return "name:nosection"
                owner, cname = sec.path, "properties"
                sib = self.siblings(ents, owner, cname)
                mk = lambda n, t: ["create_property", owner, n]             # noqa
                if bad == "type":
                    bad = "empty"
            else:
                par = (self.pick(ents, "source") if (what == "source" and rng.random() < 0.5) else None) or b
                owner = par.path
                cname = {"group": "groups", "data_array": "data_arrays", "tag": "tags", "multi_tag": "multi_tags",
                         "source": "sources"}[what]
                sib = self.siblings(ents, owner, cname)
                extra = None
                if what == "multi_tag":
                    da = self.pick(ents, "data_array", block=b.block)
                    if da is None:
                        return "name:noarray"
                    extra = da.path
                mk = lambda n, t: ["create", owner, what, n, t, extra]       # noqa
            sib = [x for x in sib if not storegen.real_uuid(x)]
            if bad == "dup" and not sib:
                bad = "empty"
            name = {"dup": rng.choice(sib) if sib else "", "empty": "", "slash": rng.choice(["a/b", "/", "x/"]),
                    "type": self.fresh(sib)}[bad]
            typ = "" if bad == "type" else "t"
            self.around(mk(name, typ), mk(self.fresh(sib), "t"), [owner, cname])
            return "name:%s:%s" % (what, bad)
        if kind == "feature":
            tg = self.pick(ents, rng.choice(["tag", "multi_tag"]))
            if tg is None:
                return "feature:notag"
            bad = rng.choice(["none", "foreign", "kind", "linktype"])
            good = self.pick(ents, "data_array", block=tg.block)
            if bad == "none":
                d, lt = None, "tagged"
            elif bad == "foreign":
                cand = [e for e in ents if e.kind == "data_array" and e.block != tg.block]
                d, lt = (rng.choice(cand).path if cand else None), "indexed"
            elif bad == "kind":
                d, lt = (self.pick(ents, rng.choice(["block", "tag", "group", "section"])) or b).path, "untagged"
            else:
                d, lt = (good.path if good else None), rng.choice(["nonsense", "", "Tagged "])
            self.around(["create_feature", tg.path, d, lt],
                        ["create_feature", tg.path, good.path, "tagged"] if good else None, [tg.path, "features"])
            return "feature:" + bad
        if kind == "link":
            owner = self.pick(ents, rng.choice(["group", "tag", "multi_tag"]))
            other = self.pick(ents)
            if owner is None:
                return "link:none"
            cn = rng.choice([c for c in storegen.CONTAINERS[owner.kind] if (owner.kind, c) in storegen.LINK_CONTS])
            key = rng.choice([{"o": other.path}, {"s": "nope"}, {"s": storegen.LIT_UUID}, {"p": 3}])
            self.around(["append", owner.path, cn, key], None, [owner.path, cn])
            return "link"
        if kind == "extend":
            owners = [e for e in ents if e.kind in ("group", "tag", "multi_tag", "data_array")]
            owner = rng.choice(owners) if owners else None
            if owner is None:
                return "extend:none"
            cn = rng.choice([c for c in storegen.CONTAINERS[owner.kind] if (owner.kind, c) in storegen.LINK_CONTS])
            ik = storegen.ITEM_KIND[cn]
            good = [e for e in ents if e.kind == ik and e.block == owner.block]
            keys = [{"o": rng.choice(good).path} for _ in range(rng.randrange(0, 3)) if good]
            bad = rng.choice(["foreign", "kind", "str", "int", "none"])
            if bad == "foreign":
                cand = [e for e in ents if e.kind == ik and e.block != owner.block]
                if cand:
                    keys.insert(rng.randrange(len(keys) + 1), {"o": rng.choice(cand).path})
            elif bad == "kind":
                cand = [e for e in ents if e.kind != ik and e.kind not in ("feature", "property")]
                if cand:
                    keys.insert(rng.randrange(len(keys) + 1), {"o": rng.choice(cand).path})
            elif bad == "str":
                keys.insert(rng.randrange(len(keys) + 1), {"s": rng.choice(["nope", storegen.LIT_UUID])})
            elif bad == "int":
                keys.insert(rng.randrange(len(keys) + 1), {"p": 3})
            self.around(["extend", owner.path, cn, keys], ["extend", owner.path, cn, [k for k in keys if "o" in k][:1]],
                        [owner.path, cn])
            return "extend:" + bad
        if kind == "role":
            # a refusable value for a role link, in most cases WHILE A PREVIOUS VALUE EXISTS (assigned just before)
            role = rng.choice(["extents", "extents", "positions", "data", "metadata", "link", "any"])
            if role == "any":
                e, other = self.pick(ents), self.pick(ents)
                self.around(["set_role", e.path, rng.choice(["metadata", "positions", "extents", "data", "link"]),
                             other.path if rng.random() < 0.85 else None])
                return "role:any"
            okind = {"extents": "multi_tag", "positions": "multi_tag", "data": "feature", "link": "section",
                     "metadata": rng.choice(["block", "group", "data_array", "tag", "multi_tag", "source"])}[role]
            owner = self.pick(ents, okind)
            if owner is None:
                return "role:noowner"
            vkind = "section" if role in ("metadata", "link") else "data_array"
            good = self.pick(ents, vkind, block=None if vkind == "section" else owner.block)
            if good is not None and rng.random() < 0.75:
                self.do(["set_role", owner.path, role, good.path])
            bad = rng.choice(["foreign", "foreign", "kind", "kind", "none"])
            if bad == "foreign" and vkind == "data_array":
                cand = [x for x in ents if x.kind == "data_array" and x.block != owner.block]
            elif bad == "none":
                cand = []
            else:
                cand = [x for x in ents if x.kind != vkind and x.kind not in ("feature", "property")]
            val = rng.choice(cand).path if cand else None
            self.around(["set_role", owner.path, role, val],
                        ["set_role", owner.path, role, good.path] if good is not None else None)
            self.do(["role", owner.path, role])
            return "role:%s:%s" % (role, bad if cand or bad == "none" else "none")
        e = self.pick(ents)
        owner_path, cname = e.path[:-2], e.path[-2]
        key = rng.choice([{"p": 99}, {"p": -99}, {"s": "nope"}, {"s": "0f" * 16}, {"o": self.pick(ents).path}])
        self.around(["del", owner_path, cname, key], None, [owner_path, cname])
        return "index"


def run_history(ctx, rng, steps, profile, tag, inject_prob, strict=False, replay_ops=None):
    path = ctx.tmpfile("c12-%s.nix" % tag)
    impl = Impl12(path, literal_uuid_names=(storegen.LIT_UUID,), strict=strict)
    gen = Gen12(rng, impl, profile)
    kinds = {}
    try:
        if replay_ops is not None:
            for op in replay_ops:
                if op[0] not in ("reset", "noop"):
                    gen.do(op)
        else:
            for _ in range(steps):
                try:
                    if rng.random() < inject_prob:
                        k = gen.inject()
                        kinds[k] = kinds.get(k, 0) + 1
                    else:
                        gen.step()
                except BadOp:
                    raise
                except Exception as e:      # noqa  the file can no longer be walked through the public API
                    impl.crashed = "%s: %s" % (type(e).__name__, e)
                    break
            if impl.crashed is None:
                gen.do(["dump12"])
    finally:
        impl.close()
        try:
            os.remove(path)
        except OSError:
            pass
    return gen.ops, gen.outs, kinds, impl


def _feature_object(op):
    keys = [op[3]] if op[0] == "append" else (op[3] if op[0] == "extend" else [])
    return any(isinstance(k, dict) and "o" in k and "features" in k["o"] for k in keys)


def compare(ops, impl_outs, model_outs):
    """storegen.compare; for a Feature object offered to a link list only refused/accepted is compared: `append` calls
    `str(item)` (util.is_uuid), and `Feature.__str__` raises RuntimeError when the feature's data link is dangling,
    before the kind check (TypeError) is reached"""
    return [d for d in storegen.compare(ops, impl_outs, model_outs)
            if not (_feature_object(d[1]) and "err" in d[2] and "err" in d[3])]


def correspondence(ctx):
    n_hist = ctx.budget(30, 300)
    steps = ctx.budget(40, 60)
    disagreements = []
    total = 0
    dist, errs, inj = {}, {}, {}
    seen = set()
    samples = []
    refused_mut = 0
    # corpus first: fixed histories (minimal reproductions of past defects)
    for ci, case in enumerate(core.load_corpus(PROP)):
        ops, outs, _, _ = run_history(ctx, random.Random(0), 0, "mixed", "corpus%d" % ci, 0, replay_ops=case["ops"])
        model = core.run_driver(PROP, [["reset"]] + ops)[1:]
        for k, op, m, i in compare(ops, outs, model):
            disagreements.append(Disagreement({"corpus": case.get("id"), "index": k, "op": op, "prefix": ops[:k + 1]}, m, i))
        total += len(ops)
    for h in range(n_hist):
        rng = random.Random("%s/%d/%d" % (PROP, ctx.seed, h))
        profile = ["mixed", "create_delete", "links"][h % 3]
        ops, outs, kinds, impl = run_history(ctx, rng, steps, profile, "h%d" % h, 0.35)
        model = core.run_driver(PROP, [["reset"]] + ops)[1:]
        if impl.crashed:
            disagreements.append(Disagreement({"history": h, "index": len(ops), "op": "walk of the file by the generator",
                                               "prefix": ops if len(ops) < 1500 else None},
                                              "file readable", "public API raised " + impl.crashed))
        for k, op, m, i in compare(ops, outs, model):
            disagreements.append(Disagreement({"history": h, "index": k, "op": op,
                                               "prefix": ops[:k + 1] if len(ops) < 1500 else None}, m, i))
        total += len(ops)
        for k, v in kinds.items():
            inj[k] = inj.get(k, 0) + v
        for op, o in zip(ops, outs):
            dist[op[0]] = dist.get(op[0], 0) + 1
            if "err" in o:
                errs[o["err"]] = errs.get(o["err"], 0) + 1
                if op[0] in Impl12.MUTATORS:
                    refused_mut += 1
            if op[0] not in ("noop", "dump", "dump12") and ("err" in o or o.get("ok") not in (None, [], 0, False)):
                seen.add(core.canon(op))
        if h < 2:
            samples.append({"history": h, "first_ops": ops[:8], "first_outputs": [str(o)[:200] for o in outs[:8]]})
    # the vector setters: model (step lists rendered from the source) vs. implementation, case by case
    n_vec = ctx.budget(500, 6000)
    vrng = random.Random("%s/vec/%d" % (PROP, ctx.seed))
    vcases = [VEC.gen_case(vrng) for _ in range(n_vec)]
    vmodel = core.run_driver(PROP, [VEC.model_op(c) for c in vcases])
    vdist = {"refused": 0, "accepted": 0}
    scene = VEC.Scene(ctx.tmpfile("c12-vec.nix"))
    try:
        with ticking_clock():
            for c, m in zip(vcases, vmodel):
                i = scene.run(c)
                vdist["refused" if i["refused"] else "accepted"] += 1
                k = "%s/%s" % (c["setter"], c["arg"]["shape"])
                vdist[k] = vdist.get(k, 0) + 1
                seen.add(core.canon(["vec", c["setter"], c["stored"], c["arg"]]))
                if VEC.canon_model(m) != VEC.canon_impl(i):
                    disagreements.append(Disagreement({"vector_case": c}, VEC.canon_model(m), dict(VEC.canon_impl(i), error=i["error"])))
    finally:
        scene.close()
    total += n_vec
    # the link-building functions: model (step lists rendered from the source, callees inlined) vs. implementation
    n_link = ctx.budget(300, 6000)
    lrng = random.Random("%s/link/%d" % (PROP, ctx.seed))
    lcases = []
    while len(lcases) < n_link:
        lc = LNK.gen_case(lrng)
        if LNK.applicable(lc):
            lcases.append(lc)
    lmodel = core.run_driver(PROP, [LNK.model_op(c) for c in lcases])
    ldist = {"refused": 0, "accepted": 0}
    lscene = LNK.Scene(ctx.tmpfile("c12-link.nix"))
    try:
        with ticking_clock():
            for c, m in zip(lcases, lmodel):
                i = lscene.run(c)
                ldist["refused" if i["refused"] else "accepted"] += 1
                k = "%s/%s" % (c["fn"], c.get("container", "column"))
                ldist[k] = ldist.get(k, 0) + 1
                if c.get("other_file"):
                    ldist["object of another file"] = ldist.get("object of another file", 0) + 1
                seen.add(core.canon(["link", c]))
                if LNK.canon_model(m, c) != LNK.canon_impl(i):
                    disagreements.append(Disagreement({"link_case": c}, LNK.canon_model(m, c),
                                                      dict(LNK.canon_impl(i), error=i["error"])))
    finally:
        lscene.close()
    total += n_link
    # the copying functions: model (step lists rendered from the source, H5Group.copy inlined) vs. implementation
    n_copy = ctx.budget(1500, 12000)
    crng = random.Random("%s/copy/%d" % (PROP, ctx.seed))
    ccases = [CPY.gen_case(crng) for _ in range(n_copy)]
    cscene = CPY.Scene(ctx.tmpfile("c12-copy.nix"))
    cdist = {"refused": 0, "accepted": 0}
    try:
        cmodel = core.run_driver(PROP, [cscene.model_op(c) for c in ccases])
        with ticking_clock():
            for c, m in zip(ccases, cmodel):
                i = cscene.run(c)
                cdist["refused" if i["refused"] else "accepted"] += 1
                cdist[c["fn"]] = cdist.get(c["fn"], 0) + 1
                seen.add(core.canon(["copy", c]))
                if CPY.canon_model(m) != CPY.canon_impl(i):
                    disagreements.append(Disagreement({"copy_case": c, "abstraction": cscene.abstract(c)}, CPY.canon_model(m),
                                                      dict(CPY.canon_impl(i), error=i["error"])))
    finally:
        cscene.close()
    total += n_copy
    # Section.create_property / Section[key] = values: model (function with a protected section) vs. implementation
    n_prop = ctx.budget(800, 8000)
    prng = random.Random("%s/prop/%d" % (PROP, ctx.seed))
    pscene = PRP.Scene(ctx.tmpfile("c12-prop.nix"))
    pdist = {"refused": 0, "accepted": 0}
    try:
        pcases = []
        while len(pcases) < n_prop:
            pc = PRP.gen_case(prng)
            if pscene.applicable(pc):
                pcases.append(pc)
        pmodel = core.run_driver(PROP, [["propcreate_run", pscene.abstract(c)] for c in pcases])
        with ticking_clock():
            for c, m in zip(pcases, pmodel):
                i = pscene.run(c)
                pdist["refused" if i["refused"] else "accepted"] += 1
                seen.add(core.canon(["prop", c]))
                if PRP.canon_model(m) != PRP.canon_impl(i):
                    disagreements.append(Disagreement({"property_case": c, "abstraction": pscene.abstract(c)}, PRP.canon_model(m),
                                                      dict(PRP.canon_impl(i), error=i["error"])))
    finally:
        pscene.close()
    total += n_prop
    # role links: the setters (and the object a dimension is asked to link) against Pure/RoleWrite.lean on
    # Generated/RoleOrder.lean - every setter x previous link or none x every class / place of the offered object
    rcases = ROLE.all_cases()
    rrng = random.Random("%s/role/%d" % (PROP, ctx.seed))
    if ctx.tier == "quick":
        rcases = rrng.sample(rcases, min(len(rcases), 160))
    rcases.sort(key=lambda c: (not c["linked"], c["setter"]))
    rdist = {"refused": 0, "accepted": 0}
    rpath = ctx.tmpfile("c12-role.nix")
    rf = rc = None
    try:
        with ticking_clock():
            ops, results = [], []
            for c in rcases:
                if rf is None:
                    rf, rc = _scene_file(ctx, rpath)
                ops.append(ROLE.abstract(rc, c))
                i, changed = _quiet(lambda: ROLE.run(rc, c))
                results.append(i)
                rdist["refused" if i["err"] else "accepted"] += 1
                rdist[c["setter"]] = rdist.get(c["setter"], 0) + 1
                seen.add(core.canon(["role", c]))
                if changed:
                    _close_scene(rf, rc, rpath)
                    rf = rc = None
        rmodel = core.run_driver(PROP, ops)
        for c, o, m, i in zip(rcases, ops, rmodel, results):
            if ROLE.canon_model(m, c) != ROLE.canon_impl(i):
                disagreements.append(Disagreement({"role_case": c, "abstraction": o}, ROLE.canon_model(m, c),
                                                  dict(ROLE.canon_impl(i), error=i["err"])))
    finally:
        if rf is not None:
            _close_scene(rf, rc, rpath)
    total += len(rcases)
    # single-valued attributes: the 21 setters that end in set_attr against Pure/AttrWrite.lean on Generated/AttrOrder.lean
    acases = ATT.all_cases()
    adist = {"refused": 0, "accepted": 0}
    apath = ctx.tmpfile("c12-attr.nix")
    af, ac = _scene_file(ctx, apath)
    try:
        with ticking_clock():
            aops = [ATT.abstract(c) for c in acases]
            ares = [_quiet(lambda c=c: ATT.run(ac, c)) for c in acases]
    finally:
        _close_scene(af, ac, apath)
    amodel = core.run_driver(PROP, aops)
    for c, o, m, i in zip(acases, aops, amodel, ares):
        adist["refused" if i["err"] else "accepted"] += 1
        seen.add(core.canon(["attr", c]))
        if ATT.canon_model(m, c, o) != ATT.canon_impl(i, o):
            disagreements.append(Disagreement({"attr_case": c, "abstraction": o}, ATT.canon_model(m, c, o),
                                              dict(ATT.canon_impl(i, o), error=i["err"])))
    total += len(acases)
    # vectors of texts: Tag.units / MultiTag.units / SetDimension.labels / DataFrame.units against Pure/TextVecWrite.lean
    tcases = TXT.all_cases()
    tdist = {"refused": 0, "accepted": 0}
    tpath = ctx.tmpfile("c12-text.nix")
    tf, tc = _scene_file(ctx, tpath)
    try:
        with ticking_clock():
            tops = [TXT.abstract(tc, c) for c in tcases]
            tres = [_quiet(lambda c=c: TXT.run(tc, c)) for c in tcases]
    finally:
        _close_scene(tf, tc, tpath)
    tmodel = core.run_driver(PROP, tops)
    for c, o, m, i in zip(tcases, tops, tmodel, tres):
        tdist["refused" if i["err"] else "accepted"] += 1
        seen.add(core.canon(["text", c]))
        if TXT.canon_model(m, c) != TXT.canon_impl(i):
            disagreements.append(Disagreement({"text_case": c, "abstraction": o}, TXT.canon_model(m, c),
                                              dict(TXT.canon_impl(i), error=i["err"])))
    total += len(tcases)
    return {"evaluations": total, "distinct_nontrivial": len(seen),
            "rule": "(000000) vectors of texts: Tag.units / MultiTag.units / SetDimension.labels (plain and linked) / "
                    "DataFrame.units x vector stored or not x 30 values (None, empty, lists / tuples / ndarrays / generators / "
                    "dicts / sets / duck-typed iterables of texts, wrong counts, elements None / int / bytes / nested, texts "
                    "with NUL or a lone surrogate, numbers, objects): refused or accepted, the stored vector afterwards "
                    "(absent / previous / other, read with h5py), updated_at moved - against Pure/TextVecWrite.lean run on "
                    "Generated/TextVecOrder.lean. (00000) single-valued attributes: each of the 21 setters that end in set_attr (Entity.type / definition, "
                    "DataArray.unit / label / expansion_origin, dimension label / unit / offset / sampling_interval, the "
                    "Property attributes, Section.reference / repository, Feature.link_type) x attribute present / absent x "
                    "32 values (None, text, empty / blank text, text with NUL / a lone surrogate, numpy.str_, str subclass, "
                    "bytes, Python / NumPy numbers, nan, complex, integers beyond 64 bit, Fraction, Decimal, arrays, lists, "
                    "objects, link types): refused or accepted (error class), the attribute afterwards (absent / previous "
                    "value / new value, read with h5py), updated_at moved - against Pure/AttrWrite.lean run on "
                    "Generated/AttrOrder.lean; the value is abstracted by probing it (isinstance, nixio's own sanitizer / "
                    "float / LinkType, check_text_storable, a scratch h5py attribute). (0000) role links: MultiTag.positions / extents, Feature.data (array, tagged / frame, untagged), "
                    "Section.link and the seven metadata setters on an owner that has the link or (where the link is "
                    "optional) has none, offered one of 29 objects (arrays / frames / sections held by the owner's block, "
                    "of the other block, of ANOTHER OPEN FILE, deleted again; None, numbers, text, entities of other "
                    "classes, ids of sections / arrays / of nothing, a list), and Dimension.link_data_array / "
                    "link_data_frame on a linked range dimension with an object of this block / the other block / another "
                    "file: refused or accepted (error class), the role link afterwards (none / previous target / new "
                    "target, HDF5 object addresses), target_type, updated_at moved - against Pure/RoleWrite.lean run on "
                    "Generated/RoleOrder.lean. (000) create_property / Section[key] = values with 13 names x 22 values (classes of the values: harness "
                    "table VALUES) - refused or accepted, properties of the section read with h5py, the existing property "
                    "untouched, name / id / stamps of a new one - against Pure/PropCreate.lean run on "
                    "Generated/PropCreateOrder.lean. (00) copies: create_data_array / create_tag / create_block / create_property with copy_from, "
                    "File.copy_section, Section.copy_section with the name as one of 19 values (text, empty, None, taken, "
                    "numpy.str_, str subclass, text with NUL / lone surrogate, bytes, numbers, lists, arrays, objects), the "
                    "keep-id and children flags as one of 12 values (bool, int, None, text, NumPy bool, arrays with 0 / 1 / 2 "
                    "elements), the source of the right or a wrong kind: refused or accepted, members of the destination "
                    "container read with h5py, name attribute written, id fresh or kept, properties copied - against "
                    "Pure/CopyWrite.lean run on the step lists of Generated/CopyOrder.lean. "
                    "(0) dimension links: link_data_array / link_data_frame on a set or range dimension (holding labels / "
                    "ticks or not, linked or not) and append_range_dimension_using_self, the index spelled as one of 24 "
                    "containers (list, tuple, ndarray, deque, array.array, Sequence class, duck-typed class, generator, set, "
                    "dict keys, bytes, str, range, None, scalars, 0-d array ...) over 34 kinds of entries (Python / NumPy "
                    "numbers, bool, Fraction, Decimal, text, None, complex, objects, integers beyond 64 bit, nan), the "
                    "column as 18 values: refused or accepted, the descriptor read back with h5py (ticks, link fresh / "
                    "previous, complete / half-built, stored index length / column), number of descriptors, updated_at "
                    "of the array - against Pure/LinkWrite.lean run on the step lists of Generated/LinkOrder.lean. "
                    "(1) vector setters: Tag.position / Tag.extent / DataArray.polynom_coefficients / Property.values / "
                    "RangeDimension.ticks (plain or linked dimension) with a random stored vector (or none) and a value spelled as None / number / object / list / tuple / "
                    "ndarray (float64, int64, str, object) / 0-d array / nested list / 2-D array / empty, elements numbers, "
                    "text, objects, integers outside int64: refused or accepted, the dataset read back with h5py, whether "
                    "updated_at moved - against Pure/VecWrite.lean run on the step lists of Generated/WriteOrder.lean. "
                    "(2) storegen histories (profiles mixed / create_delete / links) in which 35% of the steps are injected "
                    "invalid calls: create_data_array / create_tag with an argument of every fault class of the FAULTS "
                    "table, create_multi_tag with positions/extents as reference (same block / foreign / wrong kind), "
                    "valid data, invalid data or None (also with the auto-created array's name taken), "
                    "append_*_dimension with invalid labels / interval / ticks / label / unit / offset, every create_* "
                    "with a duplicate / empty / '/'-containing name or empty type, create_feature with None / foreign / "
                    "wrong-kind data or an invalid link type, link-list append of a wrong-kind / foreign / unknown item, "
                    "role-link assignment of a wrong-kind / foreign object, deletion by an out-of-range index / unknown "
                    "name. Each injected call is surrounded by HDF5-level dumps (dump12: the model dumps the graph its "
                    "*writer* has reached) and followed by the same call with a valid argument. non-trivial = distinct "
                    "op (canonical JSON) whose result is an error or a non-empty value",
            "samples": samples,
            "distribution": {"ops": dist, "impl_errors": errs, "injected": inj, "refused_mutating_calls": refused_mut,
                             "vector_cases": vdist, "link_cases": ldist, "copy_cases": cdist, "property_cases": pdist,
                             "role_cases": rdist, "attr_cases": adist, "text_vector_cases": tdist},
            "disagreements": disagreements, "exhaustive": False}


# ---------------------------------------------------------------------------------------------------
# oracle: the property on the implementation alone


@contextlib.contextmanager
def ticking_clock():
    """every timestamp nixio writes is one second later than the previous one, so a refused call that touches
    `updated_at` is visible in the snapshot whatever the wall clock does"""
    import nixio.util as pkg
    import nixio.util.util as mod
    state = {"t": 1700000000}

    def now_int():
        state["t"] += 1
        return state["t"]
    old = (pkg.now_int, mod.now_int)
    pkg.now_int = mod.now_int = now_int
    try:
        yield
    finally:
        pkg.now_int, mod.now_int = old


def _quiet(fn):
    with contextlib.redirect_stdout(io.StringIO()):
        return fn()


def _build(f, long=False):
    """the scene of the catalogue and of the spelling sweep; `long`: the stored vectors / tables hold 4-5 values
    instead of 1-2 (a premature resize shows whether it truncates or pads)"""
    b = f.create_block("b", "t")
    b2 = f.create_block("b2", "t")
    da = b.create_data_array("da", "t", data=[[1.0, 2.0], [3.0, 4.0]])
    d1 = b.create_data_array("d1", "t", data=[0.0, 1.0, 2.0, 3.0, 4.0] if long else [0.0, 1.0, 2.0])
    ds = b.create_data_array("ds", "t", dtype=nixio.DataType.String, data=["x", "y"])
    dx = b.create_data_array("dx", "t", data=[1.0, 2.0])
    da2 = b2.create_data_array("x", "t", data=[1.0])
    rows = [(1, "u"), (2, "v"), (3, "w"), (4, "x")]
    df = b.create_data_frame("df", "t", col_dict={"a": int, "s": str}, data=rows if long else rows[:2])
    df2 = b.create_data_frame("df2", "t", col_dict={"a": int, "s": str}, data=rows if long else rows[:2])
    t = b.create_tag("tg", "t", [0.0, 1.0, 2.0, 3.0] if long else [0.0])
    t.extent = [1.0, 1.0, 1.0, 1.0] if long else [1.0]
    t.units = ["mV", "s", "mV", "s"] if long else ["mV"]
    mt = b.create_multi_tag("mt", "t", positions=d1)
    mt.units = ["mV", "s", "mV", "s"] if long else ["mV"]
    g = b.create_group("g", "t")
    g.data_arrays.append(da)
    t.references.append(da)
    src = b.create_source("src", "t")
    src2 = src.create_source("deep", "t")
    da.sources.append(src2)
    s = f.create_section("s", "t")
    s2 = s.create_section("sub", "t")
    pr = s.create_property("p", [1, 2, 3, 4] if long else [1, 2])
    ps = s.create_property("ps", ["a", "b", "c"] if long else ["a"])
    pf = s.create_property("pf", [0.5, 1.5, 2.5] if long else [0.5])
    b.metadata = s
    ft = t.create_feature(da, "tagged")
    sd = da.append_set_dimension(["a", "b", "c", "d"] if long else ["a", "b"])
    rd = da.append_range_dimension([1.0, 2.0, 3.0, 4.0] if long else [1.0, 2.0])
    sm = d1.append_sampled_dimension(1.0)
    da.polynom_coefficients = [0.0, 1.0, 2.0, 3.0] if long else [0.0, 1.0]
    b.create_data_array("da-extents", "t", data=[1.0])
    fsrc = b2.create_source("zz", "t")
    # a 2-d array without descriptors of its own choice: a set dimension linked to a frame column, a range dimension
    # linked to an array (the states in which a refused re-link has something to lose)
    dy = b.create_data_array("dy", "t", data=[[1.0, 2.0, 3.0], [4.0, 5.0, 6.0]])
    sl = dy.append_set_dimension()
    sl.link_data_frame(df, 1)
    rl = dy.append_range_dimension()
    rl.link_data_array(d1, [-1])
    # entities whose role links / link-valued attributes all HAVE a value: a refused re-assignment has something to lose
    xf = b2.create_data_frame("xf", "t", col_dict={"a": int, "s": str}, data=rows[:2])
    mte = b.create_multi_tag("mte", "t", positions=d1, extents=dx)
    mte.create_feature(df, "untagged")
    sk = s.create_section("linked", "t")
    sk.link = s2
    for ent in (mte, t, d1, df, g, src):
        ent.metadata = s2
    # deleted again when the scene is opened (`_stale`)
    b.create_data_array("dead", "t", data=[1.0, 2.0, 3.0])
    b.create_data_frame("deadf", "t", col_dict={"a": int, "s": str}, data=rows[:2])
    s.create_section("deads", "t")
    return dict(xf=xf, mte=mte, fte=mte.features[0], sk=sk, dy=dy, sl=sl, rl=rl, fsrc=fsrc, f=f, b=b, b2=b2, da=da, d1=d1, ds=ds, dx=dx, da2=da2, df=df, df2=df2, t=t, mt=mt, g=g, src=src,
                src2=src2, s=s, s2=s2, pr=pr, ps=ps, pf=pf, ft=ft, sd=sd, rd=rd, sm=sm, long=long)


def _build_other(f):
    """a second file, open next to the scene: its entities are of the right kind but can never be linked"""
    b = f.create_block("b", "t")
    b.create_data_array("d1", "t", data=[0.0, 1.0, 2.0])
    b.create_data_frame("df", "t", col_dict={"a": int, "s": str}, data=[(1, "u"), (2, "v")])
    b.create_tag("tg", "t", [0.0])
    b.create_source("src", "t")
    f.create_section("s", "t").create_section("sub", "t")


def _fetch_other(f):
    b = f.blocks["b"]
    return dict(of=f, ofb=b, ofd=b.data_arrays["d1"], off=b.data_frames["df"], oft=b.tags["tg"], ofsrc=b.sources["src"],
                ofs=f.sections["s"], ofs2=f.sections["s"].sections["sub"])


def _stale(c):
    """handles of entities that are deleted again (before any snapshot is taken).  The template holds the entities;
    they are unlinked with h5py (what nixio's deletion does to an entity nothing else links to, without its walk
    through the whole file)"""
    b, s, h5 = c["b"], c["s"], c["f"]._h5file
    out = dict(dead_da=b.data_arrays["dead"], dead_df=b.data_frames["deadf"], dead_s=s.sections["deads"])
    del h5["data/b/data_arrays/dead"]
    del h5["data/b/data_frames/deadf"]
    del h5["metadata/s/sections/deads"]
    return out


def _fetch(f, long=False):
    """the dictionary `_build` returns, for a file that already holds the scene (a copy of the template)"""
    b, b2 = f.blocks["b"], f.blocks["b2"]
    da, d1, ds, dx, dy = (b.data_arrays[n] for n in ("da", "d1", "ds", "dx", "dy"))
    t, s = b.tags["tg"], f.sections["s"]
    src = b.sources["src"]
    mte = b.multi_tags["mte"]
    return dict(xf=b2.data_frames["xf"], mte=mte, fte=mte.features[0], sk=s.sections["linked"],dy=dy, sl=dy.dimensions[0], rl=dy.dimensions[1], fsrc=b2.sources["zz"], f=f, b=b, b2=b2, da=da, d1=d1, ds=ds,
                dx=dx, da2=b2.data_arrays["x"], df=b.data_frames["df"], df2=b.data_frames["df2"], t=t, mt=b.multi_tags["mt"],
                g=b.groups["g"], src=src, src2=src.sources["deep"], s=s, s2=s.sections["sub"], pr=s.props["p"],
                ps=s.props["ps"], pf=s.props["pf"], ft=t.features[0], sd=da.dimensions[0], rd=da.dimensions[1],
                sm=d1.dimensions[0], long=long)


_TEMPLATES = {}


def _scene_file(ctx, path, long=False):
    """(open file, scene dictionary): the scene of `_build` in a new file at `path`.  The scene is built once per
    process and kind (short / long) and copied byte for byte afterwards - building it takes five times as long as
    copying and re-opening."""
    if long not in _TEMPLATES:
        tpath = ctx.tmpfile("c12-template-%s.nix" % ("long" if long else "short"))
        tf = nixio.File.open(tpath, nixio.FileMode.Overwrite)
        try:
            _quiet(lambda: _build(tf, long))
        finally:
            tf.close()
        with open(tpath, "rb") as fh:
            _TEMPLATES[long] = fh.read()
        os.remove(tpath)
    if "other" not in _TEMPLATES:
        tpath = ctx.tmpfile("c12-template-other.nix")
        tf = nixio.File.open(tpath, nixio.FileMode.Overwrite)
        try:
            _quiet(lambda: _build_other(tf))
        finally:
            tf.close()
        with open(tpath, "rb") as fh:
            _TEMPLATES["other"] = fh.read()
        os.remove(tpath)
    with open(path, "wb") as fh:
        fh.write(_TEMPLATES[long])
    with open(path + ".other", "wb") as fh:
        fh.write(_TEMPLATES["other"])
    f = nixio.File.open(path, nixio.FileMode.ReadWrite)
    try:
        c = _fetch(f, long)
        c.update(_quiet(lambda: _stale(c)))
        c.update(_fetch_other(nixio.File.open(path + ".other", nixio.FileMode.ReadWrite)))
    except BaseException:
        f.close()
        raise
    return f, c


def _close_scene(f, c, path):
    """close the scene's file and its companion, remove both"""
    for fl in (f, (c or {}).get("of")):
        if fl is not None:
            try:
                fl.close()
            except Exception:       # noqa
                pass
    for p in (path, path + ".other"):
        try:
            os.remove(p)
        except OSError:
            pass


def _set(o, a, v):
    setattr(o, a, v)


def _catalogue():
    """(label, invalid call, valid retry or None). Every invalid call names its argument class."""
    O = lambda: [object(), object()]                # noqa
    C = []

    def add(label, call, retry=None, setup=None):
        if setup is not None:
            call.setup = setup              # valid calls made before the snapshot is taken
        C.append((label, call, retry))
    # --- the refused calls of DESIGN section 6, D10 / D17 (kept as regression cases) and their relatives
    for (st, er, var), kw in sorted(DA_FAULTS.items()):
        add("create_data_array:" + var,
            lambda c, kw=kw: c["b"].create_data_array("n1", "t", **{k: _obj(v) for k, v in kw.items()}),
            lambda c: c["b"].create_data_array("n1", "t", data=[1.0]))
    for (st, er, var), pos in sorted(TAG_FAULTS.items()):
        add("create_tag:" + var, lambda c, pos=pos: c["b"].create_tag("n2", "t", _obj(pos)),
            lambda c: c["b"].create_tag("n2", "t", [1.0]))
    for (st, er, var), v in sorted(ARR_FAULTS.items()):
        add("create_multi_tag:positions:" + var, lambda c, v=v: c["b"].create_multi_tag("n3", "t", positions=_obj(v)),
            lambda c: c["b"].create_multi_tag("n3", "t", positions=[1.0, 2.0]))
        add("create_multi_tag:extents:" + var,
            lambda c, v=v: c["b"].create_multi_tag("n4", "t", positions=[1.0, 2.0], extents=_obj(v)),
            lambda c: c["b"].create_multi_tag("n4", "t", positions=[1.0, 2.0], extents=[1.0, 1.0]))
        add("create_multi_tag:extents-on-ref-positions:" + var,
            lambda c, v=v: c["b"].create_multi_tag("n5", "t", positions=c["d1"], extents=_obj(v)),
            lambda c: c["b"].create_multi_tag("n5", "t", positions=c["d1"]))
    add("create_multi_tag:positions-none", lambda c: c["b"].create_multi_tag("n6", "t", positions=None))
    add("create_multi_tag:positions-foreign", lambda c: c["b"].create_multi_tag("n6", "t", positions=c["da2"]),
        lambda c: c["b"].create_multi_tag("n6", "t", positions=c["d1"]))
    add("create_multi_tag:extents-foreign", lambda c: c["b"].create_multi_tag("n7", "t", positions=c["d1"], extents=c["da2"]),
        lambda c: c["b"].create_multi_tag("n7", "t", positions=c["d1"], extents=c["d1"]))
    add("create_multi_tag:extents-foreign-auto-positions",
        lambda c: c["b"].create_multi_tag("n8", "t", positions=[1.0], extents=c["da2"]),
        lambda c: c["b"].create_multi_tag("n8", "t", positions=[1.0]))
    add("create_multi_tag:positions-wrong-kind", lambda c: c["b"].create_multi_tag("n9", "t", positions=c["t"]))
    add("create_multi_tag:auto-name-taken", lambda c: c["b"].create_multi_tag("da", "t", positions=[1.0], extents=[1.0]),
        lambda c: c["b"].create_multi_tag("da", "t", positions=c["d1"]))
    for tg in ("t", "mt"):
        add("create_feature:none:" + tg, lambda c, tg=tg: c[tg].create_feature(None, "tagged"),
            lambda c, tg=tg: c[tg].create_feature(c["da"], "tagged"))
        add("create_feature:foreign:" + tg, lambda c, tg=tg: c[tg].create_feature(c["da2"], "indexed"))
        add("create_feature:wrong-kind:" + tg, lambda c, tg=tg: c[tg].create_feature(c["b"], "untagged"))
        add("create_feature:link-type:" + tg, lambda c, tg=tg: c[tg].create_feature(c["da"], "nonsense"))
        add("create_feature:tagged-frame:" + tg, lambda c, tg=tg: c[tg].create_feature(c["df"], "tagged"),
            lambda c, tg=tg: c[tg].create_feature(c["df"], "untagged"))
    for dk, tab in sorted(DIM_FAULTS.items()):
        meth = {"set": "append_set_dimension", "sample": "append_sampled_dimension", "range": "append_range_dimension"}[dk]
        for key, kw in sorted(tab.items()):
            add("%s:%s" % (meth, key[3]), lambda c, meth=meth, kw=kw: getattr(c["d1"], meth)(**kw),
                lambda c, meth=meth, dk=dk: getattr(c["d1"], meth)(**({"sampling_interval": 2.0} if dk == "sample" else {})))
    add("append_range_dimension_using_self:index", lambda c: c["da"].append_range_dimension_using_self([0, 0]))
    add("append_range_dimension_using_self:rank", lambda c: c["da"].append_range_dimension_using_self([-1]))
    # --- data-level calls and setters
    add("DataSet.append:shape", lambda c: c["da"].append(np.ones((2, 3)), axis=0),
        lambda c: c["da"].append(np.ones((1, 2)), axis=0))
    add("DataSet.append:axis", lambda c: c["da"].append(np.ones((1, 2)), axis=5))
    add("DataSet.append:negative-axis", lambda c: c["da"].append(np.ones((1, 2)), axis=-1))
    add("DataSet.append:rank", lambda c: c["da"].append(np.ones((2,)), axis=0))
    add("DataSet.append:dtype", lambda c: c["da"].append(np.array([["a", "b"]]), axis=0))
    add("DataSet.append:object", lambda c: c["d1"].append(np.array(O()), axis=0))
    add("write_direct:dtype", lambda c: c["da"].write_direct(np.array([["a", "b"], ["c", "d"]])))
    add("setitem:index", lambda c: c["da"].__setitem__((5, 5), 1.0))
    add("setitem:dtype", lambda c: c["da"].__setitem__(0, "a"))
    add("data_extent:rank", lambda c: _set(c["da"], "data_extent", (1,)))
    add("Tag.position:nonnumeric", lambda c: _set(c["t"], "position", ["a"]))
    add("Tag.position:longer-with-object", lambda c: _set(c["t"], "position", [1, 2, object()]))
    add("Tag.extent:nonnumeric", lambda c: _set(c["t"], "extent", ["a", "b"]))
    # spellings of the offending value: an ndarray is not converted the way a list is (6514f20 and its relatives)
    add("Tag.position:ndarray-str-longer", lambda c: _set(c["t"], "position", np.array(["a", "b", "c"])))
    add("Tag.extent:ndarray-object-longer", lambda c: _set(c["t"], "extent", np.array([1.0, "k", None], dtype=object)))
    add("DataArray.polynom_coefficients:ndarray-bytes-shorter",
        lambda c: _set(c["da"], "polynom_coefficients", np.array([b"x"])))
    add("RangeDimension.ticks:complex-longer", lambda c: _set(c["rd"], "ticks", [1j, 2j, 3j]))
    add("RangeDimension.ticks:complex-on-linked", lambda c: _set(c["rd"], "ticks", [1j, 2j, 3j]),
        setup=lambda c: c["rd"].link_data_array(c["da"], [0, -1]))
    add("SetDimension.link_data_frame:index-array", lambda c: c["sd"].link_data_frame(c["df"], np.array([1.0], dtype=object)),
        lambda c: c["sd"].link_data_frame(c["df"], 1))
    add("RangeDimension.link_data_frame:index-array", lambda c: c["rd"].link_data_frame(c["df"], np.array([0.0], dtype=object)))
    add("create_source:type-generator", lambda c: c["b"].create_source("n10", (x for x in [1, 2])),
        lambda c: c["b"].create_source("n10", "t"))
    add("create_group:type-object", lambda c: c["b"].create_group("n11", [object()]),
        lambda c: c["b"].create_group("n11", "t"))
    add("create_block:type-generator", lambda c: c["f"].create_block("n12", (x for x in [1, 2])),
        lambda c: c["f"].create_block("n12", "t"))
    add("create_section:type-object", lambda c: c["s"].create_section("n13", [object()]),
        lambda c: c["s"].create_section("n13", "t"))
    add("create_data_frame:col-dtypes-datetime",
        lambda c: c["b"].create_data_frame("f3", "t", col_names=["a", "b"], col_dtypes=np.arange(2).astype("datetime64[s]")),
        lambda c: c["b"].create_data_frame("f3", "t", col_names=["a", "b"], col_dtypes=[int, float]))
    add("create_data_frame:col-dict-empty-mapping", lambda c: c["b"].create_data_frame("f4", "t", col_dict=c["s2"]),
        lambda c: c["b"].create_data_frame("f4", "t", col_dict={"a": int}))
    add("Tag.units:text-not-encodable-longer", lambda c: _set(c["t"], "units", ["s", "mV", "a\udc80b"]))
    add("SetDimension.labels:text-not-encodable-longer", lambda c: _set(c["sd"], "labels", ["x", "y", "a\udc80b"]))
    add("Entity.type:text-with-nul", lambda c: _set(c["b"], "type", "a\x00b"))
    add("Entity.type:text-not-encodable", lambda c: _set(c["t"], "type", "a\udc80b"))
    add("Entity.definition:text-with-nul", lambda c: (_set(c["da"], "definition", "a\x00b")),
        setup=lambda c: _set(c["da"], "definition", "something"))
    add("DataArray.unit:text-with-nul", lambda c: _set(c["da"], "unit", "m\x00V"), setup=lambda c: _set(c["da"], "unit", "mV"))
    add("Property.unit:text-not-encodable", lambda c: _set(c["pr"], "unit", "a\udc80b"), setup=lambda c: _set(c["pr"], "unit", "mV"))
    add("Property.values:text-not-encodable-longer", lambda c: _set(c["ps"], "values", ["x", "y", "a\udc80b"]))
    add("Property.extend_values:text-not-encodable", lambda c: c["ps"].extend_values(["x", "a\udc80b"]))
    add("Tag.units:text-with-nul-longer", lambda c: _set(c["t"], "units", ["s", "mV", "a\x00b"]))
    add("MultiTag.units:text-with-nul-longer", lambda c: _set(c["mt"], "units", ["s", "mV", "a\x00b"]))
    add("SetDimension.labels:text-with-nul-longer", lambda c: _set(c["sd"], "labels", ["x", "y", "a\x00b"]))
    add("Tag.units:int", lambda c: _set(c["t"], "units", ["mV", 5]))
    add("DataArray.unit:int", lambda c: _set(c["da"], "unit", 5))
    add("DataArray.label:int", lambda c: _set(c["da"], "label", 5))
    add("DataArray.expansion_origin:str", lambda c: _set(c["da"], "expansion_origin", "x"))
    add("DataArray.polynom_coefficients:nonnumeric", lambda c: _set(c["da"], "polynom_coefficients", ["a"]))
    add("DataArray.polynom_coefficients:longer-with-object",
        lambda c: _set(c["da"], "polynom_coefficients", [1, 2, 3, object()]))
    add("Entity.definition:int", lambda c: _set(c["da"], "definition", 5))
    add("Entity.type:none", lambda c: _set(c["b"], "type", None))
    add("Entity.type:int", lambda c: _set(c["t"], "type", 5))
    add("MultiTag.positions:none", lambda c: _set(c["mt"], "positions", None))
    add("MultiTag.positions:foreign", lambda c: _set(c["mt"], "positions", c["da2"]))
    add("MultiTag.positions:wrong-kind", lambda c: _set(c["mt"], "positions", c["b"]))
    add("MultiTag.extents:foreign", lambda c: _set(c["mt"], "extents", c["da2"]))
    add("MultiTag.extents:wrong-kind", lambda c: _set(c["mt"], "extents", c["t"]))
    add("Feature.data:none", lambda c: _set(c["ft"], "data", None))
    add("Feature.data:foreign", lambda c: _set(c["ft"], "data", c["da2"]))
    add("Feature.data:tagged-frame", lambda c: _set(c["ft"], "data", c["df"]))
    add("Feature.link_type:invalid", lambda c: _set(c["ft"], "link_type", "nonsense"))
    add("metadata:wrong-kind", lambda c: _set(c["b"], "metadata", c["da"]))
    add("Section.link:wrong-kind", lambda c: _set(c["s"], "link", c["da"]))
    add("Property.values:inconsistent", lambda c: _set(c["pr"], "values", [1, "a"]))
    add("Property.values:other-type", lambda c: _set(c["pr"], "values", ["a"]))
    add("Property.extend_values:other-type", lambda c: c["pr"].extend_values(["a"]))
    add("Property.extend_values:inconsistent", lambda c: c["pr"].extend_values([3, "a"]))
    add("Property.unit:int", lambda c: _set(c["pr"], "unit", 5))
    add("Property.uncertainty:str", lambda c: _set(c["pr"], "uncertainty", "x"))
    add("RangeDimension.ticks:unordered", lambda c: _set(c["rd"], "ticks", [3, 2, 1]))
    add("RangeDimension.ticks:nonnumeric", lambda c: _set(c["rd"], "ticks", ["a", "b"]))
    add("RangeDimension.label:int", lambda c: _set(c["rd"], "label", 5))
    add("RangeDimension.unit:int", lambda c: _set(c["rd"], "unit", 5))
    add("RangeDimension.link_data_array:index", lambda c: c["rd"].link_data_array(c["da"], [0, 0]))
    add("RangeDimension.link_data_array:rank", lambda c: c["rd"].link_data_array(c["da"], [-1]))
    add("SetDimension.labels:int", lambda c: _set(c["sd"], "labels", [1, 2]))
    add("SetDimension.labels:scalar", lambda c: _set(c["sd"], "labels", 5))
    add("SetDimension.link_data_frame:index", lambda c: c["sd"].link_data_frame(c["df"], 9))
    add("SampledDimension.sampling_interval:str", lambda c: _set(c["sm"], "sampling_interval", "x"))
    add("SampledDimension.offset:str", lambda c: _set(c["sm"], "offset", "x"))
    add("SampledDimension.unit:int", lambda c: _set(c["sm"], "unit", 5))
    # --- link lists, deletion
    add("LinkContainer.append:foreign", lambda c: c["g"].data_arrays.append(c["da2"]),
        lambda c: c["g"].data_arrays.append(c["d1"]))
    add("LinkContainer.append:wrong-kind", lambda c: c["g"].data_arrays.append(c["t"]))
    add("LinkContainer.append:int", lambda c: c["g"].data_arrays.append(5))
    add("LinkContainer.append:unknown-id", lambda c: c["g"].tags.append("0f" * 16))
    add("LinkContainer.extend:second-foreign", lambda c: c["g"].data_arrays.extend([c["ds"], c["da2"]]),
        lambda c: c["g"].data_arrays.extend([c["ds"]]))
    add("LinkContainer.extend:second-wrong-kind", lambda c: c["t"].references.extend([c["d1"], c["t"]]))
    add("LinkContainer.extend:not-iterable", lambda c: c["t"].references.extend(5))
    add("SourceLinkContainer.append:foreign-block-source", lambda c: c["da"].sources.append(c["fsrc"]),
        lambda c: c["da"].sources.append(c["src"]))
    add("SourceLinkContainer.extend:second-foreign", lambda c: c["d1"].sources.extend([c["src"], c["fsrc"]]),
        lambda c: c["d1"].sources.extend([c["src"], c["src2"]]))
    add("Container.delete:index", lambda c: c["b"].data_arrays.__delitem__(99))
    add("Container.delete:name", lambda c: c["b"].data_arrays.__delitem__("nope"))
    add("Container.delete:wrong-kind", lambda c: c["b"].data_arrays.__delitem__(c["t"]))
    add("LinkContainer.delete:not-linked", lambda c: c["g"].data_arrays.__delitem__(c["ds"]))
    add("create_data_frame:data-type", lambda c: c["b"].create_data_frame("f1", "t", col_dict={"a": int}, data=[("x",)]),
        lambda c: c["b"].create_data_frame("f1", "t", col_dict={"a": int}, data=[(1,)]))
    add("create_data_frame:no-columns", lambda c: c["b"].create_data_frame("f2", "t"))
    add("create_property:inconsistent", lambda c: c["s"].create_property("q1", [1, "a"]),
        lambda c: c["s"].create_property("q1", [1]))
    add("create_property:object", lambda c: c["s"].create_property("q2", object()))
    add("create_property:empty", lambda c: c["s"].create_property("q3", []))
    # well-formed arguments in an unusual spelling that passed the first check and were refused by a later one, after
    # the first write (found by the respelling sweep; ff6f3c3, efa0db2, d2055a6): accepted or refused, never half done
    add("create_property:name-numpy-str", lambda c: c["s"].create_property(np.str_("q4"), [1]))
    add("Section.setitem:key-str-subclass", lambda c: c["s"].__setitem__(type("S", (str,), {})("q5"), [1]))
    add("copy_section:name-numpy-str", lambda c: c["f"].copy_section(c["s2"], name=np.str_("cp1")))
    add("create_data_array:copy-name-numpy-str",
        lambda c: c["b2"].create_data_array(copy_from=c["d1"], name=np.str_("cp2"), keep_copy_id=False))
    add("create_section:oid-uuid-object",
        lambda c: c["f"].create_section("n14", "t", oid=uuid.UUID("4a6b1e0c-7d11-4c58-9f0e-3b5a2c1d0e9f")))
    add("create_property:oid-0-d-array",
        lambda c: c["s"].create_property("q6", [1], oid=np.array("4a6b1e0c-7d11-4c58-9f0e-3b5a2c1d0e9f")))
    add("RangeDimension.link_data_array:index-fraction",
        lambda c: c["rd"].link_data_array(c["d1"], [fractions.Fraction(-1)]),
        lambda c: c["rd"].link_data_array(c["d1"], [-1]))
    add("RangeDimension.link_data_array:index-decimal-on-linked",
        lambda c: c["rl"].link_data_array(c["da"], [decimal.Decimal(0), decimal.Decimal(-1)]),
        lambda c: c["rl"].link_data_array(c["da"], [0, -1]))
    add("append_range_dimension_using_self:index-fraction",
        lambda c: c["dx"].append_range_dimension_using_self([fractions.Fraction(-1)]),
        lambda c: c["dx"].append_range_dimension_using_self([-1]))
    add("create_property:name-with-nul", lambda c: c["s"].create_property("q\x00x", [1]),
        lambda c: c["s"].create_property("q", [1]))
    add("Section.setitem:key-with-nul", lambda c: c["s"].__setitem__("k\x00x", [1]))
    add("copy_section:name-with-nul", lambda c: c["f"].copy_section(c["s2"], name="c\x00p"),
        lambda c: c["f"].copy_section(c["s2"], name="c"))
    add("create_tag:copy-name-with-nul", lambda c: c["b2"].create_tag(copy_from=c["t"], name="c\x00p"),
        lambda c: c["b2"].create_tag(copy_from=c["t"], name="c"))
    add("RangeDimension.link_data_array:index-duck-typed-on-linked",
        lambda c: c["rl"].link_data_array(c["dx"], SW.RS._Duck([-1])),
        lambda c: c["rl"].link_data_array(c["dx"], [-1]))
    add("append_range_dimension_using_self:index-duck-typed",
        lambda c: c["dx"].append_range_dimension_using_self(SW.RS._Duck([-1])),
        lambda c: c["dx"].append_range_dimension_using_self([-1]))
    add("RangeDimension.link_data_array:index-no-common-type",
        lambda c: c["rd"].link_data_array(c["da"], [2 ** 70, -1]),
        lambda c: c["rd"].link_data_array(c["da"], [0, -1]))
    # --- role links / link-valued attributes that HAVE a value: the previous link survives every refusal
    # (the whole matrix setter x offered object is part of the sweep: c12_sweep.ROLE_TARGETS x ROLE_SPELLINGS)
    for lab, key, attr, back in SW.ROLE_SETTERS:
        retry = (lambda c, key=key, attr=attr, back=back: _set(c[key], attr, c[back]))
        is_sec = attr in ("metadata", "link")
        for vlab, vkey in ((("section-of-another-file", "ofs"), ("wrong-kind", "d1")) if is_sec else
                           (("foreign-block", "xf" if key == "fte" else "da2"),
                            ("of-another-file", "off" if key == "fte" else "ofd"),
                            ("deleted-again", "dead_df" if key == "fte" else "dead_da"))):
            add("%s:%s" % (lab, vlab), lambda c, key=key, attr=attr, vkey=vkey: _set(c[key], attr, c[vkey]), retry)
        if attr in ("positions", "data"):
            add("%s:none" % lab, lambda c, key=key, attr=attr: _set(c[key], attr, None), retry)
    # a vector of texts stored as an attribute (a2e6437): the units of a frame that HAS units
    has_units = lambda c: _set(c["df"], "units", ["mV", "s"])       # noqa
    add("DataFrame.units:text-with-nul (frame with units)", lambda c: _set(c["df"], "units", ["a\x00b", "s"]),
        lambda c: _set(c["df"], "units", ["kV", "ms"]), setup=has_units)
    add("DataFrame.units:text-not-encodable-ndarray (frame with units)",
        lambda c: _set(c["df"], "units", np.array(["a\udc80b", "s"], dtype=object)), setup=has_units)
    add("RangeDimension(linked to frame column).unit:text-with-nul",
        lambda c: _set(c["rd"], "unit", "a\x00b"), lambda c: _set(c["rd"], "unit", "kV"),
        setup=lambda c: (has_units(c), c["rd"].link_data_frame(c["df"], 0)))
    add("SetDimension(linked to frame column).link_data_frame:units kept", lambda c: c["sl"].link_data_frame(c["df"], 7),
        setup=has_units)
    # repaired finding C12-dimension-link-object-of-another-file: a dimension asked to link an object of another file
    # refused it (create_link, ValueError) after the previous link was removed and the new link group built
    add("Dimension.link:object-of-another-file:linked-range-array", lambda c: c["rl"].link_data_array(c["ofd"], [-1]),
        lambda c: c["rl"].link_data_array(c["dx"], [-1]))
    add("Dimension.link:object-of-another-file:ticks-range-array", lambda c: c["rd"].link_data_array(c["ofd"], [-1]),
        lambda c: c["rd"].link_data_array(c["dx"], [-1]))
    add("Dimension.link:object-of-another-file:linked-set-frame", lambda c: c["sl"].link_data_frame(c["off"], 0),
        lambda c: c["sl"].link_data_frame(c["df2"], 0))
    add("copy:name-taken", lambda c: c["b"].create_data_array(copy_from=c["da"]))
    add("copy:wrong-kind", lambda c: c["b"].create_data_array(copy_from=c["t"]))
    return C


# valid arguments of the create_* / append_* methods found by introspection: name/type mutations are derived from them
VALID_ARGS = {
    "create_block": lambda c, n: dict(name=n, type_="t"),
    "create_section": lambda c, n: dict(name=n, type_="t"),
    "create_group": lambda c, n: dict(name=n, type_="t"),
    "create_source": lambda c, n: dict(name=n, type_="t"),
    "create_tag": lambda c, n: dict(name=n, type_="t", position=[1.0]),
    "create_multi_tag": lambda c, n: dict(name=n, type_="t", positions=c["d1"]),
    "create_data_array": lambda c, n: dict(name=n, array_type="t", data=[1.0]),
    "create_data_frame": lambda c, n: dict(name=n, type_="t", col_dict={"a": int}),
    "create_property": lambda c, n: dict(name=n, values_or_dtype=[1]),
}


def _introspected(c):
    """(label, call, retry) for every public create_* method of every entity class in the file: duplicate, empty and
    '/'-containing name, empty type"""
    cases = []
    owners = {"File": c["f"], "Block": c["b"], "Section": c["s"], "Source": c["src"]}
    skipped = []
    for oname, o in sorted(owners.items()):
        for m in sorted(dir(type(o))):
            if not m.startswith("create_"):
                continue
            if m not in VALID_ARGS:
                skipped.append("%s.%s" % (oname, m))
                continue
            params = inspect.signature(getattr(o, m)).parameters
            namekey = "name"
            typekey = next((k for k in ("type_", "array_type") if k in params), None)
            existing = {"create_block": "b", "create_section": "s" if oname == "File" else "sub",
                        "create_group": "g", "create_source": "src" if oname == "Block" else "deep",
                        "create_tag": "tg", "create_multi_tag": "mt", "create_data_array": "da",
                        "create_data_frame": "df", "create_property": "p"}[m]
            for bad, val in (("duplicate", existing), ("empty", ""), ("slash", "a/b")):
                def call(c, o=o, m=m, val=val):
                    kw = VALID_ARGS[m](c, val)
                    getattr(o, m)(**kw)
                fresh = "i-%s-%s-%s" % (oname, m, bad)

                def retry(c, o=o, m=m, fresh=fresh):
                    getattr(o, m)(**VALID_ARGS[m](c, fresh))
                cases.append(("%s.%s:name-%s" % (oname, m, bad), call, retry))
            if typekey:
                def call(c, o=o, m=m, typekey=typekey):
                    kw = VALID_ARGS[m](c, "i-type-" + m)
                    kw[typekey] = ""
                    getattr(o, m)(**kw)

                def retry(c, o=o, m=m):
                    getattr(o, m)(**VALID_ARGS[m](c, "i-type-" + m))
                cases.append(("%s.%s:type-empty" % (oname, m), call, retry))
    return cases, skipped


def run_case(ctx, label, call, retry, tag="cat"):
    """one catalogue case on a freshly built file; returns (Failure | None, refused?)"""
    for light in (True, False):
        res = _run_case(ctx, label, call, retry, tag, light)
        if res is not None:
            return res
    return None, False


def _run_case(ctx, label, call, retry, tag, light):
    path = ctx.tmpfile("c12-oracle-%s.nix" % tag)
    f, c = _scene_file(ctx, path)
    try:
        return _check_call(f, c, label, call, retry, light=light)
    finally:
        _close_scene(f, c, path)


def _file_bytes(f):
    """digest of the flushed file's bytes (None when it cannot be taken)"""
    try:
        f._h5file.flush()
        with open(f._h5file.filename, "rb") as fh:
            return hashlib.sha1(fh.read()).digest()
    except Exception:       # noqa
        return None


def _check_call(f, c, label, call, retry, light=False):
    """`light`: no snapshot before the call - identical bytes of the flushed file after a refusal mean that nothing
    was written (the common case); when the bytes differ the answer is None and the caller repeats the case on a
    fresh file with the full snapshots"""
    if getattr(call, "setup", None) is not None:
        _quiet(lambda: call.setup(c))
    bbytes = _file_bytes(f) if light else None
    if light and bbytes is None:
        return None
    before, wbefore = (None, None) if light else (snapshot(f), walk(f))
    try:
        _quiet(lambda: call(c))
        return None, False          # accepted: not a refusal, the property says nothing
    except Exception as e:      # noqa
        err = type(e).__name__
    if light:
        if _file_bytes(f) != bbytes:
            return None
        if retry is not None:
            try:
                _quiet(lambda: retry(c))
            except Exception as e:      # noqa
                return Failure("after the refused call the same call with a valid argument is refused too",
                               {"kind": "catalogue", "label": label}, {"first": err, "retry": "%s: %s" % (type(e).__name__, e)},
                               "the valid call succeeds", label), True
        return None, True
    after = snapshot(f)
    try:
        wafter = walk(f)
    except Exception as e:      # noqa
        wafter = [["the public API can no longer walk the file", "%s: %s" % (type(e).__name__, e)]]
    if after != before or wafter != wbefore:
        d = snap_diff(before, after) or ["API walk differs: %s" % [x for x in wafter if x not in wbefore][:3]]
        return Failure("a refused call changed the file", {"kind": "catalogue", "label": label},
                       {"raised": err, "changes": d}, "file identical before and after the refused call", label), True
    if retry is not None:
        try:
            _quiet(lambda: retry(c))
        except Exception as e:      # noqa
            return Failure("after the refused call the same call with a valid argument is refused too",
                           {"kind": "catalogue", "label": label}, {"first": err, "retry": "%s: %s" % (type(e).__name__, e)},
                           "the valid call succeeds", label), True
    return None, True


# ---------------------------------------------------------------------------------------------------
# the argument-spelling sweep (c12_sweep.py): TARGETS x SPELLINGS x {short, long} on the implementation


class _Scene:
    """one file holding the scene of `_build`, rebuilt on demand"""

    def __init__(self, ctx, long, tag="sweep"):
        self.path = ctx.tmpfile("c12-%s.nix" % tag)
        self.ctx = ctx
        self.long = long
        self.f = None
        self.c = None
        self.builds = 0

    def build(self):
        self.close()
        self.f, self.c = _scene_file(self.ctx, self.path, self.long)
        self.builds += 1
        return self.c

    def bytes(self):
        """digest of the flushed file's bytes (None when it cannot be taken)"""
        try:
            self.f._h5file.flush()
            with open(self.path, "rb") as fh:
                return hashlib.sha1(fh.read()).digest()
        except Exception:       # noqa
            return None

    def close(self):
        _close_scene(self.f, self.c, self.path)
        self.f = self.c = None


class _CallTimeout(BaseException):
    """a call of the sweep that does not return (h5py's chunk guessing loops forever on a NaN / infinite shape):
    neither refused nor accepted - the property says nothing; the scene is rebuilt"""


@contextlib.contextmanager
def _time_limit(seconds):
    import signal
    import threading
    if threading.current_thread() is not threading.main_thread():
        yield
        return

    def handler(signum, frame):
        raise _CallTimeout()
    old = signal.signal(signal.SIGALRM, handler)
    signal.setitimer(signal.ITIMER_REAL, seconds)
    try:
        yield
    finally:
        signal.setitimer(signal.ITIMER_REAL, 0)
        signal.signal(signal.SIGALRM, old)


NOT_APPLICABLE = "n/a"
_OFFERED = {"value": None}      # the value of the last call of the sweep, for the failure report


def _sweep_call(scene, tlabel, slabel):
    """(refused?, error text) of one call of the product on the scene; (None, ...) when the call did not return;
    (NOT_APPLICABLE, None) when the spelling is a respelling that does not exist for the target's valid value"""
    _, call, _ = SW.TARGET_INDEX[tlabel]
    if slabel.startswith("re:"):
        if tlabel not in SW.VALID:
            return NOT_APPLICABLE, None
        try:
            v = SW.RS.respell(slabel, SW.VALID[tlabel](scene.c), scene.c)
        except Exception:       # noqa   NotApplicable, or the value cannot be built in that spelling
            return NOT_APPLICABLE, None
    else:
        v = SW.SPELLING_INDEX[slabel][1](scene.c)
    try:
        _OFFERED["value"] = "%s: %s" % (type(v).__name__, repr(v)[:160])
    except Exception:       # noqa
        _OFFERED["value"] = type(v).__name__
    try:
        with _time_limit(8.0):
            _quiet(lambda: call(scene.c, v))
        return False, None
    except _CallTimeout:
        return None, "no return within 8 s"
    except Exception as e:      # noqa   every exception class is a refusal
        return True, "%s: %s" % (type(e).__name__, str(e)[:160])


def _sweep_reset(scene, tlabel):
    """after an accepted call: the target's valid restoring call; False when the scene has to be rebuilt"""
    reset = SW.TARGET_INDEX[tlabel][2]
    if reset is None:
        return False
    try:
        _quiet(lambda: reset(scene.c))
        return True
    except Exception:       # noqa
        return False


def _sweep_failure(long, tlabel, slabel, history, err, diff):
    return Failure("a refused call changed the file",
                   {"kind": "sweep", "long": long, "target": tlabel, "spelling": slabel, "accepted_before": history},
                   {"raised": err, "offered": _OFFERED["value"], "changes": diff},
                   "file identical before and after the refused call", "sweep:" + tlabel)


def sweep(ctx, plan, deadline=None, stop_after=None):
    """plan: [(long, target label, [spelling labels])] (c12_sweep.plan); returns (failures, stats)"""
    failures = []
    stats = {"calls": 0, "refused": 0, "accepted": 0, "snapshots": 0, "replays": 0, "builds": 0, "targets": 0,
             "cut_short": False, "timeouts": [], "respelled": 0, "respelled_refused": 0}
    scenes = {False: _Scene(ctx, False, "sweep-short"), True: _Scene(ctx, True, "sweep-long")}
    try:
        for long, tlabel, spellings in plan:
            if deadline is not None and time.time() > deadline:
                stats["cut_short"] = True
                break
            if stop_after is not None and len(failures) >= stop_after:
                stats["stopped_after_failures"] = len(failures)
                break
            scene = scenes[bool(long)]
            stats["targets"] += 1
            scene.build()
            history = []
            found = 0
            # targets whose refusals come after a write that is rolled back change the file's bytes on every refusal:
            # for them the snapshot is taken right after an accepted call (a replay on a fresh scene costs six times
            # as much); the others learn it on the first such refusal
            eager = SW.is_rollback(tlabel)
            before, bbytes = (snapshot(scene.f) if eager else None), scene.bytes()
            for slabel in spellings:
                refused, err = _sweep_call(scene, tlabel, slabel)
                if refused == NOT_APPLICABLE:
                    continue
                stats["calls"] += 1
                stats["respelled"] += slabel.startswith("re:")
                if refused is None:
                    stats["timeouts"].append("%s <- %s" % (tlabel, slabel))
                    scene.build()
                    before, bbytes = snapshot(scene.f), scene.bytes()
                    history = []
                    continue
                if refused:
                    stats["refused"] += 1
                    stats["respelled_refused"] += slabel.startswith("re:")
                    # identical bytes of the flushed file: nothing was written (the common case); otherwise the
                    # strict snapshot decides (HDF5 may rewrite bytes without an observable change)
                    abytes = scene.bytes()
                    if abytes is not None and abytes == bbytes:
                        continue
                    stats["snapshots"] += 1
                    eager = True
                    if before is None:
                        # no snapshot was taken after the last accepted call: decide on a fresh scene, by replay
                        stats["replays"] += 1
                        fl = _replay_sweep(ctx, {"long": long, "target": tlabel, "spelling": slabel,
                                                 "accepted_before": list(history)})
                        after = None
                    else:
                        try:
                            after = snapshot(scene.f)
                        except Exception as e:      # noqa
                            after = [{"path": "", "attrs": [("the file can no longer be read", repr(e))]}]
                        fl = None if after == before else _sweep_failure(long, tlabel, slabel, list(history), err,
                                                                         snap_diff(before, after))
                    if fl is None:
                        before = after if after is not None else snapshot(scene.f)
                        bbytes = abytes
                    else:
                        # the shortest history that reproduces it: none at all, if possible
                        alone = _replay_sweep(ctx, dict(fl.input, accepted_before=[])) if history else None
                        failures.append(alone if alone is not None else fl)
                        found += 1
                        if found >= 3:
                            break
                        scene.build()
                        before, bbytes = snapshot(scene.f), scene.bytes()
                        history = []
                else:
                    stats["accepted"] += 1
                    history.append(slabel)
                    if not _sweep_reset(scene, tlabel):
                        scene.build()
                        history = []
                    before, bbytes = (snapshot(scene.f) if eager else None), scene.bytes()
    finally:
        stats["builds"] = sum(sc.builds for sc in scenes.values())
        for sc in scenes.values():
            sc.close()
    return failures, stats


def _replay_sweep(ctx, inp):
    scene = _Scene(ctx, bool(inp.get("long")), tag="sweep-replay")
    tlabel, slabel = inp.get("target"), inp.get("spelling")
    if tlabel not in SW.TARGET_INDEX or (slabel not in SW.SPELLING_INDEX and slabel not in SW.RS.RESPELL_INDEX):
        return None
    try:
        scene.build()
        for h in inp.get("accepted_before") or []:
            if h in SW.SPELLING_INDEX or h in SW.RS.RESPELL_INDEX:
                refused, _ = _sweep_call(scene, tlabel, h)
                if refused is None or refused == NOT_APPLICABLE or (not refused and not _sweep_reset(scene, tlabel)):
                    return None
        before = snapshot(scene.f)
        refused, err = _sweep_call(scene, tlabel, slabel)
        if refused is not True:
            return None
        after = snapshot(scene.f)
        if after == before:
            return None
        return _sweep_failure(bool(inp.get("long")), tlabel, slabel, list(inp.get("accepted_before") or []), err,
                              snap_diff(before, after))
    finally:
        scene.close()


# the scenes of the case-by-case correspondences (c12_vec / _link / _copy / _prop / _role / _attr) prepare a state, make
# one call and observe what the call can touch.  Independently of any model: if the call was refused, the observation
# must be the prepared state.


def _case_unchanged(kind, case, i):
    """None when the refused call of `case` left what the scene observes as it was, else what differs"""
    if kind == "link_case":
        fn = case["fn"]
        if i["ndims"] != 0:
            return "the array has %+d dimension descriptor(s)" % i["ndims"]
        if i["touched"]:
            return "updated_at of the array moved"
        if fn.startswith("DataArray"):
            return None
        ticks, linked = case["state"]
        dim = i["dim"] or {}
        if fn.startswith("RangeDimension") and dim.get("ticks") != i["ticks_before"]:
            return "ticks: %s -> %s" % (i["ticks_before"], dim.get("ticks"))
        link = dim.get("link")
        if linked and (link is None or link["fresh"] or not link["complete"]):
            return "the previous link is gone or replaced: %s" % (link,)
        if not linked and link is not None:
            return "a link group appeared: %s" % (link,)
        return None
    if kind == "copy_case":
        return None if i["items"] == 1 and i["last"] is None else "the destination container holds %d new item(s): %s" % (
            i["items"] - 1, i["last"])
    if kind == "property_case":
        return None if i["last"] is None and i["old_kept"] else "the section's properties changed: new %s, old kept %s" % (
            i["last"], i["old_kept"])
    if kind == "vector_case":
        stored = case.get("stored")
        want = None if not stored else [1, [VEC._frac_str(fractions.Fraction(x)) for x in stored]]
        if case.get("setter") == "Property.values" and not stored:
            want = i["ds"] if i["ds"] is not None and not i["ds"][1] else [1, []]     # a property without values
        if i["touched"]:
            return "updated_at moved"
        if i["ds"] != want:
            return "stored vector: %s -> %s" % (want, i["ds"])
        if "link" in i and bool(i["link"]) != bool(case.get("linked")):
            return "link of the dimension: %s -> %s" % (bool(case.get("linked")), i["link"])
        return None
    if kind in ("role_case", "attr_case", "text_case"):
        return "what the owner shows changed: %s" % (i,) if i.get("changed") else None
    return None


def _run_cases(ctx, kind, cases, tag):
    """[(case, observation)] of the cases on a scene of their kind"""
    out = []
    if kind in ("role_case", "attr_case", "text_case"):
        path = ctx.tmpfile("c12-case-%s.nix" % tag)
        f = c = None
        try:
            for case in cases:
                if f is None:
                    f, c = _scene_file(ctx, path)
                if kind == "role_case":
                    i, dirty = _quiet(lambda: ROLE.run(c, case))
                elif kind == "text_case":
                    i, dirty = _quiet(lambda: TXT.run(c, case)), False
                else:
                    i, dirty = _quiet(lambda: ATT.run(c, case)), False
                out.append((case, i))
                if dirty:
                    _close_scene(f, c, path)
                    f = c = None
        finally:
            if f is not None:
                _close_scene(f, c, path)
        return out
    mk = {"link_case": LNK.Scene, "copy_case": CPY.Scene, "property_case": PRP.Scene, "vector_case": VEC.Scene}[kind]
    scene = mk(ctx.tmpfile("c12-case-%s.nix" % tag))
    try:
        for case in cases:
            out.append((case, _quiet(lambda: scene.run(case))))
    finally:
        scene.close()
    return out


CASE_KINDS = ("link_case", "copy_case", "property_case", "vector_case", "role_case", "attr_case", "text_case")


def _case_failures(ctx, kind, cases, tag):
    """(failures, refused) of the cases on the implementation alone"""
    fails, refused = [], 0
    for case, i in _run_cases(ctx, kind, cases, tag):
        if not (i.get("refused") if "refused" in i else i.get("err") is not None):
            continue
        refused += 1
        diff = _case_unchanged(kind, case, i)
        if diff is not None:
            fn = case.get("fn") or case.get("setter") or case.get("owner") or case.get("via") or ""
            fails.append(Failure("a refused call changed the file", {"kind": "case", "which": kind, "case": case},
                                 {"raised": i.get("error") or i.get("err"), "changes": [diff]},
                                 "what the call can touch is as it was before the refused call", "%s:%s" % (kind, fn)))
    return fails, refused


def oracle(ctx, broken, hints):
    with ticking_clock():
        return _oracle(ctx, broken, hints)


def _oracle(ctx, broken, hints):
    failures = []
    evals = 0
    refused = 0
    # (a) catalogue + introspected name/type cases, each on a freshly built file
    cat = _catalogue()
    # introspected cases re-bind their owner objects to the file they run on
    accepted = []
    for label, call, retry in cat:
        fl, ref = run_case(ctx, label, call, retry)
        evals += 1
        refused += ref
        if not ref:
            accepted.append(label)
        if fl is not None:
            failures.append(fl)
    # every introspected case on a file of its own (the closures are bound to the objects of that file)
    n_intro, skipped, i, redo = None, [], 0, False
    while n_intro is None or i < n_intro:
        path = ctx.tmpfile("c12-oracle-intro.nix")
        f1, c1 = _scene_file(ctx, path)
        try:
            intro, skipped = _introspected(c1)
            n_intro = len(intro)
            if i >= n_intro:
                break
            label, call, retry = intro[i]
            res = _check_call(f1, c1, label, call, retry, light=not redo)
            if res is None:
                redo = True             # bytes changed: the same case again on a fresh file, with full snapshots
                continue
            redo = False
            fl, ref = res
            evals += 1
            refused += ref
            if not ref:
                accepted.append(label)
            if fl is not None:
                fl.input = {"kind": "introspected", "label": label}
                failures.append(fl)
        finally:
            _close_scene(f1, c1, path)
        i += 1
    intro = list(range(n_intro or 0))
    # (b) hints: the disagreeing histories of the correspondence, replayed with strict snapshots
    for hi, h in enumerate(hints[:6]):
        if h.get("prefix"):
            ops, outs, _, impl = run_history(ctx, random.Random(0), 0, "mixed", "hint%d" % hi, 0, strict=True,
                                             replay_ops=h["prefix"])
            evals += len(ops)
            failures += _strict_failures(impl, ops, "hint", ctx)
    # (b2) the disagreeing cases of the case-by-case correspondences, and a stream of link-building calls of the
    # oracle's own: refused => what the scene observes is the state it prepared (no model involved)
    for kind in CASE_KINDS:
        hc = [h[kind] for h in hints if isinstance(h, dict) and kind in h][:20]
        if hc:
            fl, ref = _case_failures(ctx, kind, hc, "hint")
            failures += fl[:3]
            evals += len(hc)
            refused += ref
    lrng = random.Random("C12-oracle-link/%d" % ctx.seed)
    lcases = []
    while len(lcases) < ctx.budget(80, 3000) * (6 if broken and not failures else 1):
        lc = LNK.gen_case(lrng)
        if LNK.applicable(lc):
            lcases.append(lc)
    fl, ref = _case_failures(ctx, "link_case", lcases, "own")
    failures += fl[:3]
    evals += len(lcases)
    refused += ref
    # (c) seeded histories with injected invalid calls, strict snapshot around every refused mutating call
    # the large budget of a broken obligation is for finding a failing input: not needed once there is one
    broken = broken and not failures
    n = ctx.budget(10, 100) * (4 if broken else 1)
    steps = ctx.budget(35, 60)
    for k in range(n):
        rng = random.Random("C12-oracle/%d/%d" % (ctx.seed, k))
        ops, outs, _, impl = run_history(ctx, rng, steps, ["mixed", "links", "create_delete"][k % 3], "o%d" % k, 0.45,
                                         strict=True)
        evals += len(ops)
        refused += impl.refused
        failures += _strict_failures(impl, ops, "history %d" % k, ctx)
        if len(failures) > 12:
            break
    # (d) the argument-spelling sweep: value-taking mutators x spellings of the value x {short, long} scene
    sweep_rng = random.Random("C12-sweep/%s/%d" % (ctx.tier, ctx.seed))
    splan = SW.plan(ctx.tier, ctx.seed, sweep_rng, broken)
    if broken:
        # a broken obligation: the multi-argument calls first (late validations live there), and the search ends with
        # the third failing input - the large budget is for finding one
        pri = lambda p: 0 if p[1] in SW.ROLE_TARGETS else 1 if p[1] in SW.VALID else 2       # noqa
        splan = sorted(splan, key=pri)
    sfail, sstats = sweep(ctx, splan, deadline=time.time() + ctx.budget(150, 900) * (2 if broken else 1),
                          stop_after=3 if broken else None)
    failures += sfail
    evals += sstats["calls"]
    refused += sstats["refused"]
    best = {}
    for fl in failures:
        key = (fl.what, fl.site)
        if key not in best or len(core.canon(fl.input)) < len(core.canon(best[key].input)):
            best[key] = fl
    return {"evaluations": evals, "failures": list(best.values()), "refused_calls_checked": refused,
            "catalogue_cases": len(cat), "introspected_cases": len(intro), "introspection_skipped": skipped,
            "accepted_not_refused": accepted, "histories": n, "sweep": sstats,
            "sweep_product": {"targets": len(SW.TARGETS), "spellings": len(SW.SPELLINGS), "scenes": 2}}


def _still_fails(ctx, muts):
    """does the last op of `muts` still get refused and change the file when the history is replayed?"""
    try:
        ops, outs, _, impl = run_history(ctx, random.Random(0), 0, "mixed", "min", 0, strict=True, replay_ops=muts)
    except Exception:       # noqa
        return False
    return any(op == muts[-1] for op, _, _ in impl.changed)


def _minimise(ctx, muts, budget=40):
    """delta debugging over the mutating calls that precede the refused one"""
    head, last = list(muts[:-1]), muts[-1]
    n = 2
    while len(head) >= 1 and budget > 0:
        size = max(1, len(head) // n)
        shrunk = False
        for i in range(0, len(head), size):
            cand = head[:i] + head[i + size:]
            budget -= 1
            if _still_fails(ctx, cand + [last]):
                head, n, shrunk = cand, max(n - 1, 2), True
                break
            if budget <= 0:
                break
        if not shrunk:
            if size == 1:
                break
            n = min(len(head), n * 2)
    return head + [last]


def _strict_failures(impl, ops, where, ctx=None):
    out = []
    for op, err, diff in impl.changed[:3]:
        idx = ops.index(op)
        muts = [o for o in ops[:idx + 1] if o[0] in Impl12.MUTATORS]
        if ctx is not None and len(muts) > 3:
            try:
                muts = _minimise(ctx, muts)
            except Exception:       # noqa
                pass
        out.append(Failure("a refused call changed the file",
                           {"kind": "history", "ops": muts if len(muts) < 200 else muts[-200:], "where": where},
                           {"raised": err, "changes": diff}, "file identical before and after the refused call",
                           "%s:%s" % (op[0], (op[6] or ["", "", ""])[2] if op[0] == "create" and len(op) == 7 and op[6] else
                                      (op[4] or ["", "", ""])[2] if op[0] == "append_dim" and op[4] else op[0])))
    return out


def matches_known(entry, failure):
    cls = entry.get("class")
    if not cls or not isinstance(failure.site, str):
        return False
    return failure.site == cls


OPEN_CLASSES = ()       # classes of open findings whose catalogue labels carry a suffix (none at present)


def reproduces(ctx, entry):
    label = entry.get("class")
    with ticking_clock():
        for lab, call, retry in _catalogue():
            if lab == label or (label in OPEN_CLASSES and lab.startswith(label + ":")):
                fl, _ = run_case(ctx, lab, call, retry, tag="known")
                return fl is not None
    return True


def replay_failure(ctx, fj):
    with ticking_clock():
        return _replay_failure(ctx, fj)


def _replay_failure(ctx, fj):
    inp = fj.get("input") or {}
    if inp.get("kind") == "catalogue":
        for lab, call, retry in _catalogue():
            if lab == inp.get("label"):
                fl, _ = run_case(ctx, lab, call, retry, tag="replay")
                return fl
        return None
    if inp.get("kind") == "introspected":
        path = ctx.tmpfile("c12-replay-intro.nix")
        f1, c1 = _scene_file(ctx, path)
        try:
            for lab, call, retry in _introspected(c1)[0]:
                if lab == inp.get("label"):
                    fl, _ = _check_call(f1, c1, lab, call, retry)
                    if fl is not None:
                        fl.input = inp
                    return fl
        finally:
            _close_scene(f1, c1, path)
        return None
    if inp.get("kind") == "sweep":
        return _replay_sweep(ctx, inp)
    if inp.get("kind") == "case" and inp.get("which") in CASE_KINDS:
        fl, _ = _case_failures(ctx, inp["which"], [inp["case"]], "replay")
        return fl[0] if fl else None
    if inp.get("kind") == "history":
        ops, outs, _, impl = run_history(ctx, random.Random(0), 0, "mixed", "replay", 0, strict=True,
                                         replay_ops=inp["ops"])
        fls = _strict_failures(impl, ops, "replay")
        return fls[0] if fls else None
    res = oracle(ctx, True, [])
    for fl in res["failures"]:
        if fl.what == fj.get("what") and fl.site == fj.get("site"):
            return fl
    return None
