"""C17 child process: run a seeded generated history on a real NIX file, record the canonical walk at every
flush point, end with flush()/close()/`with`-exit (or nothing: negative control), write the record to a
side file and SIGKILL itself.

Run as   /venv/bin/python -m harness.props.c17_child <spec.json>      (cwd = the verif directory)

spec = {"file": path, "mode": "w"|"a"|"r", "seed": int, "phases": [n_ops, ...], "end": END, "out": path,
        "profiles": [PROFILE per phase] (optional; default all "mixed"),
        "fapl": [low, high] (optional; names of h5py.h5f.LIBVER_*: nixio.file.make_fapl is replaced by one that sets
                 these bounds - the harness's probe of what libhdf5 does with them, never used on the checked path),
        "big": bool, "kill": true|false, "compression": "No"|"DeflateNormal"|"Auto"|null (File-level argument;
        null = argument omitted),
        "multi": {"mode2": "a"|"r", "open2": k, "via": ["first"|"second" per phase], "flush_via": [... per flush point],
                  "end_via": "first"|"second", "close2_at": j (optional)}   (optional) a SECOND File object on the same
                 path in this process, opened before phase k (k = number of phases: after the writes); the operations
                 of a phase go through the named object, the flush after a phase / the end call is issued on the named
                 object; close2_at = j: the flush point after phase j is close() of the second object while the first
                 stays open.  The promise applies to whichever flush()/close() returned last,
        "fsize": {"slack": bytes}   (optional) the last phase and the end call run under RLIMIT_FSIZE = size of the file
                 at the previous flush point + slack with SIGXFSZ ignored (a file that cannot grow: full disk / quota).
                 An end call that raises is recorded as end_error (no promise made); one that returns has promised}
END  = "flush" | "close" | "exit" | "exit_exc" | "none" | "flush_flush" | "late" (flush(), then "late_ops" more
       operations of profile "late_profile", their walk recorded as "late_walk", and the kill WITHOUT a further
       flush: informational only - the property promises nothing about writes after the last flush)
out  = {"flush_points": [flatten(walk) per flush point], "final_walk": full walk at the last flush point,
        "ops": [executed op log], "mode": ..., "end": ..., "pre_walk_equal_post": bool|None}

PROFILE = "mixed" (all operations) | "overwrite" (overwrites of stored samples, timestamp touches: nothing that
          needs new file space) | "small_append" (a few samples appended, preferably to arrays that were appended
          to before, i.e. inside an allocated chunk) | "delete_only" | "append_only" | "attrs_only" - a phase of one kind
          of write between two flush points; creation fall-backs are disabled in such a phase.

Nothing touches the NIX file between the final flush()/close() and the SIGKILL: the side file is an ordinary
file written with the json module.
"""
import json
import os
import random
import signal
import sys

import numpy as np


UNITS = ["mV", "s", "ms", "Hz", "kHz", "uA", "nS", "m", "K", "mol"]
NAMES_EXTRA = ["späße", "数据", "a b", "x/y"[:1] + "_y", "0", "UPPER", "with.dot"]
DTYPES = ["f8", "f4", "i4", "i8", "u2", "i2", "bool", "str"]


class Gen:
    """generates and executes operations against the actual state of the open file"""

    def __init__(self, nix, f, rng, big):
        self.nix = nix
        self.f = f
        self.rng = rng
        self.big = big
        self.log = []
        self.counter = 0
        self.keep = []      # live handles (open HDF5 ids) at the time of flush()/close()
        self.profile = "mixed"
        self.warm = set()   # (block, array) names that received a small append
        self.raw_keep = True    # also keep raw dataset ids (through the private wrapper) alive

    @property
    def strict(self):
        """a single-kind phase: operations that find nothing to work on do nothing (no creation instead)"""
        return self.profile != "mixed"

    # ---------------------------------------------------------------- helpers
    def name(self, prefix):
        self.counter += 1
        r = self.rng.random()
        base = "%s%d_%d" % (prefix, self.counter, self.rng.randrange(10 ** 6))
        if r < 0.12:
            base += self.rng.choice(NAMES_EXTRA)
        return base

    def pick(self, seq):
        seq = list(seq)
        return self.rng.choice(seq) if seq else None

    def block(self):
        return self.pick(self.f.blocks)

    def arrays(self, blk):
        return list(blk.data_arrays) if blk is not None else []

    def all_sections(self, limit=40):
        out = []
        stack = list(self.f.sections)
        while stack and len(out) < limit:
            s = stack.pop(0)
            out.append(s)
            stack.extend(list(s.sections))
        return out

    def all_sources(self, blk, limit=30):
        out = []
        stack = list(blk.sources)
        while stack and len(out) < limit:
            s = stack.pop(0)
            out.append(s)
            stack.extend(list(s.sources))
        return out

    def mkdata(self, dt, shape):
        rng = self.rng
        n = int(np.prod(shape)) if len(shape) else 1
        nprng = np.random.RandomState(rng.randrange(2 ** 31))
        if dt == "str":
            a = np.array(["s%d" % nprng.randint(0, 1000) for _ in range(n)], dtype=object).reshape(shape)
            return a
        if dt == "bool":
            return (nprng.randint(0, 2, size=shape) > 0)
        if dt in ("f8", "f4"):
            kind = rng.random()
            if kind < 0.3:
                a = nprng.standard_normal(size=shape)
            elif kind < 0.6:
                a = np.arange(n, dtype="f8").reshape(shape) * 0.25  # compressible
            else:
                a = nprng.randint(-5, 5, size=shape).astype("f8")
            return a.astype(dt)
        info = np.iinfo(dt)
        lo, hi = max(info.min, -10 ** 6), min(info.max, 10 ** 6)
        return nprng.randint(lo, hi, size=shape).astype(dt)

    def shape(self):
        rng = self.rng
        rank = rng.choice([1, 1, 1, 2, 2, 3])
        if rank == 1:
            if self.big and rng.random() < 0.25:
                return (rng.randrange(150000, 400000),)      # > 1 MiB: beyond the raw-data chunk cache
            return (rng.choice([0, 1, 2, 7, 100, 1000, 5000, 20000]),)
        if rank == 2:
            return (rng.choice([1, 3, 50, 400]), rng.choice([1, 2, 5, 60]))
        return (rng.choice([1, 2, 10]), rng.choice([1, 3, 8]), rng.choice([2, 4, 9]))

    def compression(self):
        C = self.nix.Compression
        return self.rng.choice([C.No, C.DeflateNormal, C.Auto])

    # ---------------------------------------------------------------- operations
    def op_create_block(self):
        if self.strict:
            return ["noop", "create_block"]
        n = self.name("blk")
        c = self.compression()
        self.f.create_block(n, self.rng.choice(["recording", "t", "nix.session"]), compression=c)
        return ["create_block", n, c.value]

    def op_create_section(self):
        if self.strict:
            return ["noop", "create_section"]
        secs = self.all_sections()
        parent = self.pick(secs) if secs and self.rng.random() < 0.6 else None
        n = self.name("sec")
        if parent is None:
            self.f.create_section(n, "meta")
            return ["create_section", "/", n]
        parent.create_section(n, "meta.sub")
        return ["create_section", parent.name, n]

    def op_create_property(self):
        if self.strict:
            return ["noop", "create_property"]
        sec = self.pick(self.all_sections())
        if sec is None:
            return self.op_create_section()
        rng = self.rng
        kind = rng.choice(["int", "float", "str", "bool", "empty_dtype"])
        k = rng.randrange(1, 6)
        if kind == "int":
            vals = [rng.randrange(-1000, 1000) for _ in range(k)]
        elif kind == "float":
            vals = [rng.randrange(-1000, 1000) / 8.0 for _ in range(k)]
        elif kind == "str":
            vals = [rng.choice(["alpha", "β", "", "gamma delta", "x" * 50]) for _ in range(k)]
        elif kind == "bool":
            vals = [rng.random() < 0.5 for _ in range(k)]
        else:
            vals = self.nix.DataType.Double
        n = self.name("prop")
        p = sec.create_property(n, vals)
        if rng.random() < 0.4:
            p.unit = rng.choice(UNITS)
        if rng.random() < 0.3:
            p.definition = "def of " + n
        if rng.random() < 0.2 and kind == "float":
            p.uncertainty = 0.125
        return ["create_property", sec.name, n, kind]

    def op_mod_property(self):
        sec = self.pick([s for s in self.all_sections() if len(s.props)])
        if sec is None:
            return self.op_create_property()
        p = self.pick(sec.props)
        rng = self.rng
        what = rng.choice(["values", "extend", "unit", "definition", "reference", "delete_values"])
        if what == "values":
            vs = p.values
            if len(vs) and isinstance(vs[0], str):
                p.values = ["new", "values"]
            elif len(vs) and isinstance(vs[0], (bool, np.bool_)):
                p.values = [True]
            elif len(vs) and isinstance(vs[0], (float, np.floating)):
                p.values = [1.5, 2.5, -3.25]
            else:
                p.values = [rng.randrange(100) for _ in range(rng.randrange(1, 8))]
        elif what == "extend":
            vs = p.values
            if len(vs) and isinstance(vs[0], str):
                p.extend_values(["more"])
            elif len(vs) and isinstance(vs[0], (bool, np.bool_)):
                p.extend_values([False, True])
            elif len(vs) and isinstance(vs[0], (float, np.floating)):
                p.extend_values([0.5])
            else:
                p.extend_values([7, 8])
        elif what == "unit":
            p.unit = rng.choice(UNITS + [None])
        elif what == "definition":
            p.definition = rng.choice(["d1", "другое", None])
        elif what == "reference":
            p.reference = rng.choice(["ref", None])
        else:
            p.delete_values()
        return ["mod_property", sec.name, p.name, what]

    def op_mod_section(self):
        sec = self.pick(self.all_sections())
        if sec is None:
            return self.op_create_section()
        rng = self.rng
        what = rng.choice(["repository", "reference", "definition", "type", "link"])
        if what == "repository":
            sec.repository = rng.choice(["http://repo", None])
        elif what == "reference":
            sec.reference = rng.choice(["r", None])
        elif what == "definition":
            sec.definition = rng.choice(["section def", None])
        elif what == "type":
            sec.type = rng.choice(["meta2", "other.type"])
        else:
            other = self.pick(self.all_sections())
            sec.link = other if rng.random() < 0.8 else None
        return ["mod_section", sec.name, what]

    def op_create_array(self):
        if self.strict:
            return ["noop", "create_array"]
        blk = self.block()
        if blk is None:
            return self.op_create_block()
        rng = self.rng
        dt = rng.choice(DTYPES)
        shape = self.shape()
        if dt == "str" and int(np.prod(shape)) > 2000:
            shape = (17,)
        n = self.name("da")
        c = self.compression()
        if rng.random() < 0.2 and dt != "str":
            da = blk.create_data_array(n, "signal", dtype=np.dtype(dt), shape=shape, compression=c)
            how = "shape_only"
        else:
            data = self.mkdata(dt, shape)
            kw = {}
            if dt == "str":
                kw["dtype"] = self.nix.DataType.String
            da = blk.create_data_array(n, "signal", data=data, compression=c, **kw)
            how = "data"
        if rng.random() < 0.5:
            da.label = rng.choice(["voltage", "время", "x"])
        if rng.random() < 0.5:
            da.unit = rng.choice(UNITS)
        if rng.random() < 0.2:
            da.expansion_origin = rng.randrange(-8, 8) / 4.0
        if rng.random() < 0.2:
            da.polynom_coefficients = [rng.randrange(-8, 8) / 4.0 for _ in range(rng.randrange(1, 4))]
        return ["create_data_array", blk.name, n, dt, list(shape), c.value, how]

    def op_append(self):
        blk = self.block()
        das = [d for d in self.arrays(blk) if d.dtype.kind in "fiub" and len(d.shape) >= 1]
        if not das:
            return self.op_create_array()
        da = self.pick(das)
        rng = self.rng
        rounds = rng.choice([1, 1, 2, 5, 12])
        axis = rng.randrange(len(da.shape)) if rng.random() < 0.3 else 0
        total = 0
        for _ in range(rounds):
            shp = list(da.shape)
            k = rng.choice([1, 2, 10, 100, 3000])
            if int(np.prod(shp[:axis] + shp[axis + 1:]) if len(shp) > 1 else 1) * k > 200000:
                k = 1
            shp[axis] = k
            da.append(self.mkdata(da.dtype.str.lstrip("<|=") if da.dtype.kind != "b" else "bool", tuple(shp)),
                      axis=axis)
            total += k
        return ["append", blk.name, da.name, axis, rounds, total]

    def op_write_slice(self):
        blk = self.block()
        das = [d for d in self.arrays(blk) if d.dtype.kind in "fiu" and len(d.shape) >= 1 and d.shape[0] > 0
               and int(np.prod(d.shape)) > 0]
        if not das:
            return self.op_create_array()
        da = self.pick(das)
        n0 = da.shape[0]
        lo = self.rng.randrange(n0)
        hi = min(n0, lo + self.rng.choice([1, 3, 50, 1000]))
        shp = (hi - lo,) + tuple(da.shape[1:])
        da[lo:hi] = self.mkdata(da.dtype.str.lstrip("<|="), shp)
        return ["write_slice", blk.name, da.name, lo, hi]

    def op_resize(self):
        blk = self.block()
        das = [d for d in self.arrays(blk) if len(d.shape) >= 1]
        if not das:
            return self.op_create_array()
        da = self.pick(das)
        shp = list(da.shape)
        ax = self.rng.randrange(len(shp))
        shp[ax] = max(0, shp[ax] + self.rng.choice([-3, -1, 1, 5, 40]))
        da.data_extent = tuple(shp)
        return ["resize", blk.name, da.name, shp]

    def op_dimension(self):
        blk = self.block()
        das = self.arrays(blk)
        if not das:
            return self.op_create_array()
        da = self.pick(das)
        rng = self.rng
        what = rng.choice(["set", "sampled", "range", "range_link", "alias", "delete", "set_labels", "mod"])
        if what == "set":
            da.append_set_dimension(labels=rng.choice([None, ["a", "b", "ç"], ["only"]]))
        elif what == "sampled":
            da.append_sampled_dimension(rng.choice([0.5, 1.0, 0.001]), label=rng.choice([None, "time"]),
                                        unit=rng.choice([None, "s", "ms"]), offset=rng.choice([None, 0.25, -1.0]))
        elif what == "range":
            k = rng.randrange(1, 30)
            da.append_range_dimension(ticks=[i * 0.5 for i in range(k)], label=rng.choice([None, "pos"]),
                                      unit=rng.choice([None, "mV"]))
        elif what == "range_link":
            tgt = self.pick([d for d in das if d.dtype.kind in "fiu" and len(d.shape) >= 1])
            if tgt is None:
                return ["dimension", blk.name, da.name, "range_link", "no target"]
            dim = da.append_range_dimension()
            idx = [0] * len(tgt.shape)
            idx[rng.randrange(len(idx))] = -1
            dim.link_data_array(tgt, idx)
        elif what == "alias":
            da.append_range_dimension_using_self()
        elif what == "delete":
            da.delete_dimensions()
        elif what == "set_labels":
            dims = [d for d in da.dimensions if d.dimension_type.value == "set"]
            if dims:
                self.pick(dims).labels = ["l%d" % i for i in range(rng.randrange(0, 5))]
        else:
            dims = list(da.dimensions)
            if dims:
                d = self.pick(dims)
                if d.dimension_type.value == "sample":
                    d.sampling_interval = 2.0
                    d.offset = rng.choice([0.0, 3.5])
                    d.label = "resampled"
                elif d.dimension_type.value == "range" and not d.is_alias and not d.has_link:
                    d.ticks = [1.0, 2.0, 4.0]
                    d.unit = "s"
        return ["dimension", blk.name, da.name, what]

    def op_create_frame(self):
        if self.strict:
            return ["noop", "create_frame"]
        blk = self.block()
        if blk is None:
            return self.op_create_block()
        from collections import OrderedDict
        rng = self.rng
        n = self.name("df")
        cols = OrderedDict([("name", str), ("id", np.int64), ("time", float), ("flag", bool)])
        rows = rng.randrange(0, 6)
        data = [("n%d" % i, i, i * 0.5, i % 2 == 0) for i in range(rows)] or None
        df = blk.create_data_frame(n, "table", col_dict=cols, data=data,
                                   compression=rng.choice([self.nix.Compression.No,
                                                           self.nix.Compression.DeflateNormal]))
        if rng.random() < 0.5:
            df.units = [None, None, "s", None]
        return ["create_data_frame", blk.name, n, rows]

    def op_frame_rows(self):
        blk = self.block()
        dfs = list(blk.data_frames) if blk is not None else []
        if not dfs:
            return self.op_create_frame()
        df = self.pick(dfs)
        k = self.rng.randrange(1, 5)
        df.append_rows([("r%d" % i, 100 + i, i * 1.5, False) for i in range(k)])
        return ["frame_rows", blk.name, df.name, k]

    def op_create_group(self):
        if self.strict:
            return ["noop", "create_group"]
        blk = self.block()
        if blk is None:
            return self.op_create_block()
        n = self.name("grp")
        g = blk.create_group(n, "group")
        for da in self.arrays(blk)[:3]:
            if self.rng.random() < 0.6:
                g.data_arrays.append(da)
        return ["create_group", blk.name, n]

    def op_group_links(self):
        blk = self.block()
        grps = list(blk.groups) if blk is not None else []
        if not grps:
            return self.op_create_group()
        g = self.pick(grps)
        rng = self.rng
        what = rng.choice(["da", "tag", "mtag", "source", "df", "remove"])
        if what == "da":
            c = [d for d in blk.data_arrays if d not in g.data_arrays]
            if c:
                g.data_arrays.append(self.pick(c))
        elif what == "tag":
            c = [t for t in blk.tags if t not in g.tags]
            if c:
                g.tags.append(self.pick(c))
        elif what == "mtag":
            c = [t for t in blk.multi_tags if t not in g.multi_tags]
            if c:
                g.multi_tags.append(self.pick(c))
        elif what == "source":
            c = [s for s in blk.sources if s not in g.sources]
            if c:
                g.sources.append(self.pick(c))
        elif what == "df":
            c = [d for d in blk.data_frames if d not in g.data_frames]
            if c:
                g.data_frames.append(self.pick(c))
        else:
            if len(g.data_arrays):
                del g.data_arrays[self.pick(g.data_arrays).name]
        return ["group_links", blk.name, g.name, what]

    def op_create_tag(self):
        if self.strict:
            return ["noop", "create_tag"]
        blk = self.block()
        if blk is None:
            return self.op_create_block()
        rng = self.rng
        n = self.name("tag")
        k = rng.randrange(1, 4)
        t = blk.create_tag(n, "event", [rng.randrange(0, 50) / 2.0 for _ in range(k)])
        if rng.random() < 0.6:
            t.extent = [rng.randrange(0, 20) / 4.0 for _ in range(k)]
        if rng.random() < 0.5:
            t.units = [rng.choice(["ms", "s", "mV"]) for _ in range(k)]
        for da in self.arrays(blk):
            if rng.random() < 0.3:
                t.references.append(da)
        return ["create_tag", blk.name, n, k]

    def op_create_mtag(self):
        if self.strict:
            return ["noop", "create_mtag"]
        blk = self.block()
        if blk is None:
            return self.op_create_block()
        rng = self.rng
        n = self.name("mtag")
        npos, rank = rng.randrange(1, 6), rng.randrange(1, 3)
        pos = np.array([[rng.randrange(0, 40) / 2.0 for _ in range(rank)] for _ in range(npos)])
        if rng.random() < 0.5:
            mt = blk.create_multi_tag(n, "events", pos, extents=np.ones_like(pos) * 0.5)
        else:
            pda = blk.create_data_array(n + "_pos", "positions", data=pos)
            mt = blk.create_multi_tag(n, "events", pda)
        if rng.random() < 0.4:
            mt.units = [rng.choice(["ms", "s"]) for _ in range(rank)]
        for da in self.arrays(blk):
            if rng.random() < 0.2:
                mt.references.append(da)
        return ["create_multi_tag", blk.name, n, npos, rank]

    def op_feature(self):
        blk = self.block()
        if blk is None:
            return self.op_create_block()
        tags = list(blk.tags) + list(blk.multi_tags)
        das = self.arrays(blk)
        if not tags or not das:
            return self.op_create_tag()
        t = self.pick(tags)
        LT = self.nix.LinkType
        lt = self.rng.choice([LT.Tagged, LT.Untagged, LT.Indexed])
        t.create_feature(self.pick(das), lt)
        return ["create_feature", blk.name, t.name, lt.value]

    def op_create_source(self):
        if self.strict:
            return ["noop", "create_source"]
        blk = self.block()
        if blk is None:
            return self.op_create_block()
        srcs = self.all_sources(blk)
        n = self.name("src")
        if srcs and self.rng.random() < 0.5:
            p = self.pick(srcs)
            p.create_source(n, "cell")
            return ["create_source", blk.name, p.name, n]
        blk.create_source(n, "subject")
        return ["create_source", blk.name, "/", n]

    def op_link_source(self):
        blk = self.block()
        if blk is None:
            return self.op_create_block()
        srcs = self.all_sources(blk)
        ents = self.arrays(blk) + list(blk.tags) + list(blk.multi_tags)
        if not srcs or not ents:
            return self.op_create_source()
        e, s = self.pick(ents), self.pick(srcs)
        if s not in e.sources:
            e.sources.append(s)
        return ["link_source", blk.name, e.name, s.name]

    def op_metadata(self):
        blk = self.block()
        secs = self.all_sections()
        if blk is None or not secs:
            return self.op_create_section()
        ents = [blk] + self.arrays(blk) + list(blk.tags) + list(blk.multi_tags) + list(blk.groups) + \
            self.all_sources(blk) + list(blk.data_frames)
        e = self.pick(ents)
        if e.metadata is not None and self.rng.random() < 0.4:
            del e.metadata
            return ["metadata", blk.name, e.name, None]
        s = self.pick(secs)
        e.metadata = s
        return ["metadata", blk.name, e.name, s.name]

    def op_attrs(self):
        blk = self.block()
        if blk is None:
            return self.op_create_block()
        ents = [blk] + self.arrays(blk) + list(blk.tags) + list(blk.multi_tags) + list(blk.groups) + \
            self.all_sources(blk)
        e = self.pick(ents)
        rng = self.rng
        what = rng.choice(["definition", "type", "force_updated"])
        if what == "definition":
            e.definition = rng.choice(["some definition", "ünï", None])
        elif what == "type":
            e.type = rng.choice(["t.changed", "x"])
        else:
            e.force_updated_at(rng.randrange(10 ** 9, 2 * 10 ** 9))
        return ["attrs", blk.name, e.name, what]

    def op_delete(self):
        rng = self.rng
        blk = self.block()
        what = rng.choice(["array", "array", "tag", "mtag", "group", "source", "section", "property", "block",
                           "frame", "feature"])
        if what == "section":
            secs = self.all_sections()
            if not secs:
                return ["delete", "section", None]
            s = self.pick(secs)
            p = s.parent
            nm = s.name
            if p is None:
                del self.f.sections[nm]
            else:
                del p.sections[nm]
            return ["delete", "section", nm]
        if what == "property":
            secs = [s for s in self.all_sections() if len(s.props)]
            if not secs:
                return ["delete", "property", None]
            s = self.pick(secs)
            nm = self.pick(s.props).name
            del s.props[nm]
            return ["delete", "property", s.name, nm]
        if blk is None:
            return ["delete", what, None]
        if what == "block":
            if len(self.f.blocks) < 2 or rng.random() < 0.5:
                return ["delete", "block", None]
            nm = blk.name
            del self.f.blocks[nm]
            return ["delete", "block", nm]
        cont = {"array": blk.data_arrays, "tag": blk.tags, "mtag": blk.multi_tags, "group": blk.groups,
                "source": blk.sources, "frame": blk.data_frames}.get(what)
        if what == "feature":
            tags = [t for t in list(blk.tags) + list(blk.multi_tags) if len(t.features)]
            if not tags:
                return ["delete", "feature", None]
            t = self.pick(tags)
            del t.features[0]
            return ["delete", "feature", blk.name, t.name]
        if not len(cont):
            return ["delete", what, None]
        nm = self.pick(cont).name
        del cont[nm]
        return ["delete", what, blk.name, nm]

    def op_overwrite(self):
        """overwrite a few stored samples (no new file space)"""
        blk = self.block()
        das = [d for d in self.arrays(blk) if d.dtype.kind in "fiu" and len(d.shape) >= 1 and d.shape[0] > 0
               and int(np.prod(d.shape)) > 0]
        if not das:
            return ["noop", "overwrite"]
        da = self.pick(das)
        n0 = da.shape[0]
        lo = self.rng.randrange(n0)
        hi = min(n0, lo + self.rng.choice([1, 2, 5, 40]))
        shp = (hi - lo,) + tuple(da.shape[1:])
        da[lo:hi] = self.mkdata(da.dtype.str.lstrip("<|="), shp) + 1
        return ["overwrite", blk.name, da.name, lo, hi]

    def op_small_append(self):
        """append a few samples (usually inside the chunk that is already allocated)"""
        blk = self.block()
        das = [d for d in self.arrays(blk) if d.dtype.kind in "fiu" and len(d.shape) == 1 and d.shape[0] > 0]
        if not das:
            return ["noop", "small_append"]
        # prefer an array that was appended to before (in an earlier phase too): its last chunk is allocated
        # and partly filled, so these samples need no new file space
        warm = [d for d in das if (blk.name, d.name) in self.warm]
        da = self.pick(warm) if warm and self.rng.random() < 0.8 else self.pick(das)
        self.warm.add((blk.name, da.name))
        k = self.rng.choice([1, 1, 2, 3])
        da.append(self.mkdata(da.dtype.str.lstrip("<|="), (k,)))
        return ["small_append", blk.name, da.name, k]

    def op_touch(self):
        """rewrite a fixed-width attribute (timestamp) of some entity"""
        blk = self.block()
        if blk is None:
            return ["noop", "touch"]
        ents = [blk] + self.arrays(blk) + list(blk.tags) + list(blk.multi_tags) + list(blk.groups) + \
            self.all_sources(blk) + self.all_sections(10)
        e = self.pick(ents)
        e.force_updated_at(self.rng.randrange(10 ** 9, 2 * 10 ** 9))
        return ["touch", blk.name, e.name]

    PROFILES = {
        "overwrite": [("overwrite", 5), ("touch", 3), ("write_slice", 2)],
        "small_append": [("small_append", 1)],
        "delete_only": [("delete", 1)],
        "append_only": [("append", 3), ("small_append", 2), ("frame_rows", 1)],
        "attrs_only": [("attrs", 4), ("mod_section", 2), ("mod_property", 3), ("touch", 2), ("metadata", 1)],
    }

    def remember(self):
        """keep a handle on some entity alive (its HDF5 ids stay open until the process dies)"""
        blk = self.block()
        if blk is None:
            return
        cands = [blk] + self.arrays(blk)[:4] + list(blk.tags)[:2] + self.all_sections(6)
        self.keep.append(self.pick(cands))
        for da in self.arrays(blk)[:2]:
            if self.raw_keep and self.rng.random() < 0.3:
                self.keep.append(da._h5group.get_dataset("data"))   # an open dataset id
        if len(self.keep) > 40:
            del self.keep[:10]

    OPS = [("create_block", 4), ("create_section", 5), ("create_property", 7), ("mod_property", 5),
           ("mod_section", 3), ("create_array", 12), ("append", 14), ("write_slice", 5), ("resize", 2),
           ("dimension", 8), ("create_frame", 2), ("frame_rows", 2), ("create_group", 3), ("group_links", 4),
           ("create_tag", 5), ("create_mtag", 4), ("feature", 4), ("create_source", 4), ("link_source", 3),
           ("metadata", 4), ("attrs", 5), ("delete", 7)]

    def step(self):
        ops = self.OPS if self.profile == "mixed" else self.PROFILES[self.profile]
        names = [n for n, _ in ops]
        weights = [w for _, w in ops]
        if not len(self.f.blocks) and not self.strict:
            op = "create_block"
        else:
            op = self.rng.choices(names, weights)[0]
        state = self.rng.getstate()
        try:
            entry = getattr(self, "op_" + op)()
            self.log.append(entry)
            if self.rng.random() < 0.3:
                self.remember()
        except Exception as e:  # refused or failing call: recorded; the file is whatever the call left
            self.log.append(["refused", op, type(e).__name__, str(e)[:80]])
            # keep the random stream independent of where the exception happened
            self.rng.setstate(state)
            self.rng.random()


_KEEP = []     # module-level: survives until the kill


def _walks(f):
    from harness.lib import walk as W
    full = W.walk(f)
    return full, W.flatten(full)


def run(spec):
    import nixio as nix
    rng = random.Random("c17child/%s" % spec["seed"])
    out = {"flush_points": [], "ops": [], "mode": spec["mode"], "end": spec["end"], "final_walk": None,
           "transparent": None}
    end = spec["end"]
    phases = list(spec["phases"])
    profiles = list(spec.get("profiles") or [])
    if spec.get("fapl"):
        # probe of libhdf5 (never the checked path): the property list nixio hands to h5f.create / h5f.open gets
        # the given library-version bounds
        import h5py
        import nixio.file as _nf
        _lo, _hi = [getattr(h5py.h5f, "LIBVER_" + x.upper()) for x in spec["fapl"]]

        def _probe_fapl(*_a, **_k):
            fapl = h5py.h5p.create(h5py.h5p.FILE_ACCESS)
            fapl.set_libver_bounds(_lo, _hi)
            return fapl
        _nf.make_fapl = _probe_fapl

    holder = {}
    multi = spec.get("multi") or None
    fs = spec.get("fsize") or None
    handles = {}
    limit_state = {}
    _KEEP.append(handles)

    def set_limit():
        # a file that cannot grow any more (full disk / quota): RLIMIT_FSIZE = current size + slack, SIGXFSZ ignored,
        # so that a write beyond the limit fails with EFBIG instead of ending the process
        import resource
        signal.signal(signal.SIGXFSZ, signal.SIG_IGN)
        soft, hard = resource.getrlimit(resource.RLIMIT_FSIZE)
        limit_state["old"] = (soft, hard)
        size = os.path.getsize(path)
        lim = size + int(fs.get("slack", 512))
        if hard != resource.RLIM_INFINITY:
            lim = min(lim, hard)
        resource.setrlimit(resource.RLIMIT_FSIZE, (lim, hard))
        out["fsize_limit"] = [size, lim]

    def lift_limit():
        if "old" in limit_state:
            import resource
            resource.setrlimit(resource.RLIMIT_FSIZE, limit_state.pop("old"))

    def open_second():
        # a second File object on the same path while the first is open (same process)
        try:
            handles["second"] = nix.File.open(path, multi["mode2"])
            out["second_opened"] = multi["mode2"]
        except Exception as e:       # refused: the history goes on with the first object alone
            out["open2_error"] = type(e).__name__
            handles["second"] = None

    def active(which):
        h = handles.get(which)
        return h if h is not None else handles["first"]

    def body(f):
        g = Gen(nix, f, rng, bool(spec.get("big", True)))
        holder["g"] = g
        handles["first"] = f
        if multi:
            g.raw_keep = False       # only handles the public API hands out are kept alive
        for i, n in enumerate(phases):
            last = i == len(phases) - 1
            if multi and multi.get("open2") == i and "second" not in handles:
                open_second()
            if multi:
                via = (multi.get("via") or [])
                g.f = active(via[i] if i < len(via) else "first")
            if fs and last:
                set_limit()
            g.profile = profiles[i] if i < len(profiles) and profiles[i] else "mixed"
            if g.profile != "mixed" and g.profile not in Gen.PROFILES:
                raise SystemExit("unknown profile %r" % g.profile)
            for _ in range(n):
                g.step()
            try:
                full, flat = _walks(g.f)    # reads only; everything a getter creates lazily exists now
                full2, flat2 = _walks(g.f)  # a second walk must see the same state (walk is read-only)
            except Exception as e:
                if not (fs and last):
                    raise
                # writes refused under the size limit left something the walk cannot read: no recorded state,
                # hence no claim about this generation
                out["walk_error"] = type(e).__name__
                out["ops"] = g.log
                return
            out["flush_points"].append(flat2)
            out["ops"] = g.log
            out["live_handles"] = len(g.keep)
            _KEEP.append(g.keep)
            if not last:
                if multi and multi.get("close2_at") == i and handles.get("second") is not None:
                    # close() of one File object while the other stays open: a flush point like any close()
                    handles["second"].close()
                    handles["second"] = None
                    out.setdefault("mid", []).append([i, "close-second"])
                    g.f = handles["first"]
                else:
                    fv = (multi.get("flush_via") or []) if multi else []
                    active(fv[i] if i < len(fv) else "first").flush()
                # flush is transparent: the in-process view is unchanged by it
                _, flat3 = _walks(g.f)
                if flat3 != flat2:
                    out["transparent"] = {"phase": i, "before": flat2, "after": flat3}
            else:
                out["final_walk"] = full2
                out["stable_walk"] = (flat == flat2)
        if multi and multi.get("open2") == len(phases) and "second" not in handles:
            open_second()            # opened after the writes

    path = spec["file"]

    def finish():
        tmp = spec["out"] + ".tmp"
        with open(tmp, "w") as fh:
            json.dump(out, fh)
        os.replace(tmp, spec["out"])

    def open_file():
        # a failing open (a file damaged by an earlier generation): recorded, no history, no kill
        comp = None
        if spec.get("compression") is not None and spec["compression"] not in ("No", "DeflateNormal", "Auto"):
            raise SystemExit("bad compression %r" % spec["compression"])
        try:
            if spec.get("compression") is None:
                return nix.File.open(path, spec["mode"])          # the default argument itself
            comp = {"No": nix.Compression.No, "DeflateNormal": nix.Compression.DeflateNormal,
                    "Auto": nix.Compression.Auto}[spec["compression"]]
            return nix.File.open(path, spec["mode"], compression=comp)
        except Exception as e:
            out["open_error"] = type(e).__name__
            finish()
            os._exit(3)

    if end in ("exit", "exit_exc"):
        class _Leave(Exception):
            pass
        try:
            with open_file() as f:
                out["enter_is_file"] = isinstance(f, nix.File)
                body(f)
                if end == "exit_exc":
                    raise _Leave()
        except _Leave:
            pass
        except Exception as e:
            if out["final_walk"] is None:
                raise                # the history itself failed: infrastructure, not the property
            out["end_error"] = type(e).__name__
    else:
        f = open_file()
        body(f)
        target = active(multi.get("end_via", "first")) if multi else f
        try:
            if out["final_walk"] is None:
                pass                 # no recorded state (walk refused under the size limit): nothing is claimed
            elif end == "flush":
                target.flush()
            elif end == "flush_flush":
                target.flush()
                target.flush()
            elif end == "close":
                target.close()       # the other File object (if any) stays open until the kill
            elif end == "none":
                pass
            elif end == "late":
                f.flush()
                g = holder["g"]
                g.profile = spec.get("late_profile") or "mixed"
                n0 = len(g.log)
                for _ in range(int(spec.get("late_ops", 4))):
                    g.step()
                out["late_log"] = g.log[n0:]
                out["late_walk"] = _walks(f)[1]
            else:
                raise SystemExit("unknown end %r" % end)
        except Exception as e:       # a flush()/close() that raises: recorded, the kill still happens
            out["end_error"] = type(e).__name__
        finally:
            lift_limit()
    finish()
    if spec.get("kill", True):
        os.kill(os.getpid(), signal.SIGKILL)
    # kill=false: fall off the end without closing (interpreter teardown); used by nothing in the check
    os._exit(0)


def _observe_one(spec, m):
    import nixio as nix
    from harness.lib import walk as W
    try:
        f = nix.File.open(spec["file"], m)
    except BaseException as e:
        return {"open_error": type(e).__name__}
    res = {}
    try:
        res["walk"] = W.walk_or_error(f)
    finally:
        try:
            f.close()
        except Exception as e:
            res["close_error"] = type(e).__name__
    return res


def observe(spec):
    """reopen read-only, then read-write — each in a process of its own (forked after the imports, so an
    observer whose close() does not close cannot disturb the next open): canonical walk of each, or the error
    class of the open"""
    import nixio  # noqa: F401  (import before forking)
    from harness.lib import walk  # noqa: F401
    res = {}
    for m in spec.get("modes", ["r", "a"]):
        part = "%s.%s.part" % (spec["out"], m)
        pid = os.fork()
        if pid == 0:
            code = 0
            try:
                r = _observe_one(spec, m)
                with open(part, "w") as fh:
                    json.dump(r, fh)
            except BaseException:
                code = 4
            os._exit(code)
        _, status = os.waitpid(pid, 0)
        try:
            with open(part) as fh:
                res[m] = json.load(fh)
            os.unlink(part)
        except (OSError, ValueError):
            res[m] = {"open_error": "observer-crashed status=%d" % status}
    tmp = spec["out"] + ".tmp"
    with open(tmp, "w") as fh:
        json.dump(res, fh)
    os.replace(tmp, spec["out"])


if __name__ == "__main__":
    _spec = json.load(open(sys.argv[1]))
    if _spec.get("observe"):
        observe(_spec)
    else:
        run(_spec)
