"""C07 — dimension descriptors map positions to sample indices by order, exactly (nixio/dimensions.py).

Case format (shared by the model driver, the implementation runner, the corpus and the oracle):
  ["sampled_index_of", off|null, si, pos, mode]              ["sampled_range_indices", off|null, si, s, e, smode]
  ["sampled_position_at", off|null, si, index]               ["sampled_axis", off|null, si, count, start|null, startpos|null]
  ["range_index_of", [tick…], pos, mode]                     ["range_range_indices", [tick…], s, e, smode]
  ["range_tick_at", [tick…], index]                          ["range_axis", [tick…], count, start]
  ["set_index_of", n, pos, mode]                             ["set_range_indices", n, s, e, smode]
numbers that are floats in Python travel as the exact rational "num/den" of the double.
An optional trailing dict (e.g. {"via": "link"}) selects how the implementation stores the ticks / labels; the model
driver never sees it.
"""
import math
import os
from fractions import Fraction

from ..lib import core
from ..lib.core import Failure, Disagreement
from ..extract import dims as _ex

PROP = "C07"
LEAN_MODULE = "NixModel.Props.C07"
THEOREMS = [
    "Nix.C07.range_index",
    "Nix.C07.range_index_iff",
    "Nix.C07.sampled_index",
    "Nix.C07.sampled_index_iff",
    "Nix.C07.set_index",
    "Nix.C07.set_index_iff",
    "Nix.C07.guard_on_raw_position_counterexample",
    "Nix.C07.separated_of_neighbours",
    "Nix.C07.separated_sampled_of_neighbours",
    "Nix.C07.separated_set_of_neighbours",
    "Nix.C07.band_width",
    "Nix.C07.band_limit_generated",
    "Nix.C07.sampled_index_full_counterexample",
    "Nix.C07.set_index_full_counterexample",
    "Nix.C07.range_indices_range",
    "Nix.C07.range_indices_sampled",
    "Nix.C07.range_indices_set",
    "Nix.C07.roundtrip_sampled",
    "Nix.C07.roundtrip_range",
    "Nix.C07.axis_sampled",
    "Nix.C07.axis_range",
    "Nix.C07.generated_tables",
    # sessions (Pure/DimSession.lean): histories of changes and questions through several descriptor objects
    "Nix.C07.session_answer",
    "Nix.C07.session_run_answer",
    "Nix.C07.session_handle_stable",
    "Nix.C07.session_change_visible",
    "Nix.C07.session_change_elsewhere",
    "Nix.C07.session_ticks_ascending",
    "Nix.C07.session_range_index",
    "Nix.C07.session_range_indices",
    "Nix.C07.session_linked_index",
    "Nix.C07.link_values",
    "Nix.C07.session_sampled_index",
    "Nix.C07.session_set_index",
    # the hand-written model computes what the decision trees read from the source compute (Generated/DimShape.lean)
    "Nix.C07.sampled_index_shape",
    "Nix.C07.range_index_shape",
    "Nix.C07.set_index_shape",
    # sampling_interval <= 0, stated exactly
    "Nix.C07.negative_interval_mirror",
    "Nix.C07.negative_interval_meets",
    "Nix.C07.zero_interval",
    "Nix.C07.nonzero_interval",
]
ASSUMPTIONS = [
    "floats are modelled as exact rationals (DESIGN section 5): on inputs whose float path is exact the implementation "
    "must agree exactly; on arbitrary doubles it must agree unless a decision margin is below 2^-40 relative "
    "(marginal cases are counted in the evidence, never dropped silently); NaN / inf positions are outside the model",
    "np.isclose(a, b, rtol, atol) is modelled as |a-b| <= atol + rtol*|b|, np.round as round-half-even, np.where as a "
    "left-to-right scan; the tolerances are the exact rationals of the doubles passed in the source (regenerated)",
    "SampledDimension / SetDimension theorems carry the hypothesis `Separated`: the position is on a sample or farther "
    "than atol + rtol*|i| from sample i (the tolerance band is a designed-in deviation from the exact statement; "
    "recorded as open known finding C07-tolerance-band); sampling_interval <= 0 is outside the property (the "
    "validator rejects it) but inside the model: negative_interval_mirror / zero_interval state what the code does",
    "sessions: a descriptor object is modelled as the position of its dimension and nothing else (nixio keeps no "
    "conversion state on it); links into arrays of rank <= 2 and numeric frame columns; delete_dimensions and the "
    "pre-1.5 alias layout are not modelled",
    "round trip index_of(position_at(i)) = i is a theorem in exact arithmetic; on the implementation the oracle "
    "checks it for |offset|/interval + i <= 2^22, where float noise stays below the tolerance band",
]
TRUSTED_EXTRA = ["harness/extract/dims.py renders the np.isclose tolerances (numpy defaults when absent), the guard "
                 "argument, the rounding functions, the IndexMode/SliceMode members, the end_mode choices and the "
                 "decision trees of the three index_of bodies (Generated/DimShape.lean; anything it does not recognise "
                 "is a broken tie)"]

MODES = ["Less", "LessOrEqual", "GreaterOrEqual", "LEQ", "GEQ"]
CANON_MODE = {"Less": "less", "LessOrEqual": "leq", "LEQ": "leq", "GreaterOrEqual": "geq", "GEQ": "geq"}
SMODES = ["Exclusive", "Inclusive"]
EPS = Fraction(1, 2 ** 40)
# reference band of the open known finding (the values of the repair 6411d29); a failure is "known" only inside it
REF_RTOL = Fraction(1e-12)
REF_ATOL = Fraction(1e-8)


def extract(repo):
    return _ex.extract(repo)


# ---------------------------------------------------------------------------------------
# numbers


def fs(x):
    fr = Fraction(x)
    return "%d/%d" % (fr.numerator, fr.denominator)


def F(s):
    if s is None:
        return Fraction(0)
    if isinstance(s, int):
        return Fraction(s)
    n, d = s.split("/")
    return Fraction(int(n), int(d))


def fl(s):
    """the double a case number denotes (case numbers are produced from doubles, so this is exact)"""
    fr = F(s)
    return fr.numerator / fr.denominator


def is_double(fr):
    try:
        return Fraction(fr.numerator / fr.denominator) == fr
    except OverflowError:
        return False


def ffloor(fr):
    return fr.numerator // fr.denominator


def fceil(fr):
    return -((-fr.numerator) // fr.denominator)


def round_half_even(fr):
    f = ffloor(fr)
    d = fr - f
    if d < Fraction(1, 2):
        return f
    if d > Fraction(1, 2):
        return f + 1
    return f if f % 2 == 0 else f + 1


_TOL = {}


def tolerances():
    """tolerances the code passes (read by the translator from the tree under test), as exact Fractions"""
    if not _TOL:
        try:
            info = _ex.read(core.REPO)
            for k in ("sampledZeroTol", "sampledHitTol", "setHitTol"):
                _TOL[k] = (Fraction(info[k][0]), Fraction(info[k][1]))
            _TOL["sampledZeroOnScaled"] = info["sampledZeroOnScaled"]
        except (_ex.ExtractError, OSError, SyntaxError):
            # the translator no longer reads the source (already reported as a broken tie by the check):
            # classify margins with the reference tolerances so that the comparison still runs
            for k in ("sampledZeroTol", "sampledHitTol", "setHitTol"):
                _TOL[k] = (REF_RTOL, REF_ATOL)
            _TOL["sampledZeroOnScaled"] = True
    return _TOL


def band(tol, b):
    return tol[1] + tol[0] * abs(b)


# ---------------------------------------------------------------------------------------
# implementation runner: real nixio objects in a real HDF5 file


class Impl:
    def __init__(self, ctx, tag="impl"):
        import numpy as np
        import nixio
        self.np = np
        self.nix = nixio
        self.ctx = ctx
        self.path = ctx.tmpfile("c07-%s-%d.nix" % (tag, os.getpid()))
        self.f = nixio.File.open(self.path, nixio.FileMode.Overwrite)
        self.blk = self.f.create_block("b", "t")
        self.da = self.blk.create_data_array("d", "t", data=np.zeros(3))
        self.da.append_sampled_dimension(1.0)                      # 1: sampled, never has an offset attribute
        d = self.da.append_sampled_dimension(1.0)                  # 2: sampled with offset
        d.offset = 1.0
        self.da.append_range_dimension([0.0])                      # 3: ticks stored in the dimension
        self.da.append_range_dimension()                           # 4: no ticks at all
        self.da.append_range_dimension()                           # 5: ticks through a DimensionLink
        self.setda = self.blk.create_data_array("sets", "t", data=np.zeros(3))
        self.setidx = {}
        self.cur_ticks = None
        self.cur_link = None
        self.cur_self = None
        self.self_arr = None
        self.self_name = None
        self.nlink = 0
        self.calls = 0
        self.reopens = 0

    def close(self):
        try:
            self.f.close()
        except Exception:
            pass

    def reopen(self):
        """close and reopen the file: the conversions must work from what is stored"""
        self.f.close()
        self.f = self.nix.File.open(self.path, self.nix.FileMode.ReadWrite)
        self.blk = self.f.blocks["b"]
        self.da = self.blk.data_arrays["d"]
        self.setda = self.blk.data_arrays["sets"]
        if self.self_name is not None:
            self.self_arr = self.blk.data_arrays[self.self_name]
        self.reopens += 1

    def tick(self):
        self.calls += 1
        if self.calls % 1500 == 0:
            self.reopen()

    def sampled(self, off, si):
        if off is None:
            d = self.da.dimensions[0]
        else:
            d = self.da.dimensions[1]
            d.offset = fl(off)
        d.sampling_interval = fl(si)
        return d

    def range_(self, ticks, via):
        key = tuple(ticks)
        if not ticks and via != "link":
            return self.da.dimensions[3]
        if via == "link":
            d = self.da.dimensions[4]
            if self.cur_link != key:
                self.nlink += 1
                src = self.blk.create_data_array("ticks%d" % self.nlink, "t",
                                                 data=self.np.array([fl(t) for t in ticks], dtype=float))
                d.link_data_array(src, [-1])
                self.cur_link = key
            return d
        if via == "self":
            # a 1-D array described by its own values (append_range_dimension_using_self)
            if self.cur_self != key:
                self.nlink += 1
                arr = self.blk.create_data_array("self%d" % self.nlink, "t",
                                                 data=self.np.array([fl(t) for t in ticks], dtype=float))
                arr.append_range_dimension_using_self()
                self.cur_self = key
                self.self_arr = arr
                self.self_name = "self%d" % self.nlink
            return self.self_arr.dimensions[0]
        d = self.da.dimensions[2]
        if self.cur_ticks != key:
            d.ticks = [fl(t) for t in ticks]
            self.cur_ticks = key
        return d

    def set_(self, n, via):
        key = (n, via if (n == 0 or via == "link") else "")
        if key not in self.setidx:
            if n > 0 and via == "link":
                # labels through a DimensionLink to a 1-D array of n values
                src = self.blk.create_data_array("labels%d" % n, "t", data=self.np.arange(n, dtype=float))
                d = self.setda.append_set_dimension()
                d.link_data_array(src, [-1])
            elif n == 0 and via == "empty":
                self.setda.append_set_dimension([])
            elif n == 0:
                self.setda.append_set_dimension()
            else:
                self.setda.append_set_dimension(["l%d" % i for i in range(n)])
            self.setidx[key] = len(self.setidx)
        return self.setda.dimensions[self.setidx[key]]

    def mode(self, name):
        # an unknown mode is an Enum member of another class (the error messages use `mode.name`)
        return getattr(self.nix.IndexMode, name) if name in self.nix.IndexMode.__members__ \
            else self.nix.SliceMode.Inclusive

    def smode(self, name):
        return getattr(self.nix.SliceMode, name) if name in self.nix.SliceMode.__members__ else name

    def run(self, case):
        self.tick()
        opts = case[-1] if isinstance(case[-1], dict) else {}
        via = opts.get("via", "")
        op = case[0]
        try:
            if op == "sampled_index_of":
                return {"ok": int(self.sampled(case[1], case[2]).index_of(fl(case[3]), self.mode(case[4])))}
            if op == "sampled_range_indices":
                r = self.sampled(case[1], case[2]).range_indices(fl(case[3]), fl(case[4]), self.smode(case[5]))
                return {"ok": None if r is None else [int(r[0]), int(r[1])]}
            if op == "sampled_position_at":
                return {"ok": fs(float(self.sampled(case[1], case[2]).position_at(case[3])))}
            if op == "sampled_axis":
                sp = None if case[5] is None else fl(case[5])
                r = self.sampled(case[1], case[2]).axis(case[3], case[4], sp)
                return {"ok": [fs(float(x)) for x in r]}
            if op == "range_index_of":
                return {"ok": int(self.range_(case[1], via).index_of(fl(case[2]), self.mode(case[3])))}
            if op == "range_range_indices":
                r = self.range_(case[1], via).range_indices(fl(case[2]), fl(case[3]), self.smode(case[4]))
                return {"ok": None if r is None else [int(r[0]), int(r[1])]}
            if op == "range_tick_at":
                return {"ok": fs(float(self.range_(case[1], via).tick_at(case[2])))}
            if op == "range_axis":
                r = self.range_(case[1], via).axis(case[2], case[3])
                return {"ok": [fs(float(x)) for x in r]}
            if op == "set_index_of":
                return {"ok": int(self.set_(case[1], via).index_of(fl(case[2]), self.mode(case[3])))}
            if op == "set_range_indices":
                r = self.set_(case[1], via).range_indices(fl(case[2]), fl(case[3]), self.smode(case[4]))
                return {"ok": None if r is None else [int(r[0]), int(r[1])]}
            if op == "to_index_mode":
                r = getattr(self.nix.SliceMode, case[1]).to_index_mode()
                return {"ok": None if r is None else r.value}
        except Exception as e:
            for cls, nm in ((IndexError, "IndexError"), (ValueError, "ValueError"), (TypeError, "TypeError"),
                            (KeyError, "KeyError"), (OverflowError, "OverflowError"),
                            (ArithmeticError, "ArithmeticError")):
                if isinstance(e, cls):
                    return {"err": nm}
            return {"err": type(e).__name__}
        return {"bad": "unknown op"}


def strip(case):
    return case[:-1] if isinstance(case[-1], dict) else case


# ---------------------------------------------------------------------------------------
# classification of a case: exact float path / separated / marginal (DESIGN section 5)


def _sampled_path(off, si, pos):
    """(exact scaled position, float path exact?)"""
    O, S, P = F(off), F(si), F(pos)
    X = (P - O) / S
    o, s, p = fl(off), fl(si), fl(pos)
    d = p - o
    exact = Fraction(d) == P - O and s != 0 and Fraction(d / s) == X
    return X, exact


def classify_sampled_index(off, si, pos, mode):
    T = tolerances()
    if F(si) == 0:
        return "exact"          # -inf / nan / +inf: no rounding involved in which of the three it is
    X, exact = _sampled_path(off, si, pos)
    if X < 0:
        return "exact" if exact else "separated"     # the sign of a float difference/quotient is always right
    scale = 0 if exact else max(Fraction(1), abs(X))
    m = CANON_MODE.get(mode)
    if m == "less":
        if T["sampledZeroOnScaled"]:
            b = band(T["sampledZeroTol"], 0)
            if abs(abs(X) - b) <= EPS * (b + scale):
                return "marginal"
        else:
            b = band(T["sampledZeroTol"], 0)
            if abs(abs(F(pos)) - b) <= EPS * b:
                return "marginal"
    if not exact and abs((X - ffloor(X)) - Fraction(1, 2)) <= EPS * scale:
        # float rounding may pick the other neighbour as `index`; harmless when neither neighbour is "close"
        # (band below a quarter sample): the answer is then floor-based whichever index was rounded to
        if band(T["sampledHitTol"], ffloor(X) + 1) >= Fraction(1, 4):
            return "marginal"
        return "separated"
    idx = round_half_even(X)
    b = band(T["sampledHitTol"], idx)
    if abs(abs(X - idx) - b) <= EPS * (b + scale):
        return "marginal"
    return "exact" if exact else "separated"


def classify_set_index(n, pos):
    T = tolerances()
    P = F(pos)
    if P < 0:
        return "exact"
    idx = ffloor(P)
    b = band(T["setHitTol"], idx)
    if abs(abs(P - idx) - b) <= EPS * b:
        return "marginal"
    return "exact"


def classify(case):
    c = strip(case)
    op = c[0]
    if op == "sampled_index_of":
        return classify_sampled_index(c[1], c[2], c[3], c[4])
    if op == "sampled_range_indices":
        a = classify_sampled_index(c[1], c[2], c[3], "GEQ")
        b = classify_sampled_index(c[1], c[2], c[4], "Less" if c[5] == "Exclusive" else "LEQ")
        if "marginal" in (a, b):
            return "marginal"
        return "exact" if a == b == "exact" else "separated"
    if op == "set_index_of":
        return classify_set_index(c[1], c[2])
    if op == "set_range_indices":
        a, b = classify_set_index(c[1], c[2]), classify_set_index(c[1], c[3])
        return "marginal" if "marginal" in (a, b) else "exact"
    if op in ("sampled_position_at", "sampled_axis"):
        return "float-result"
    return "exact"


def same(case, model, impl):
    """model output vs implementation output"""
    c = strip(case)
    op = c[0]
    if op in ("sampled_position_at", "sampled_axis") and "ok" in model and "ok" in impl:
        O, S = F(c[1]), F(c[2])
        mv = model["ok"] if isinstance(model["ok"], list) else [model["ok"]]
        iv = impl["ok"] if isinstance(impl["ok"], list) else [impl["ok"]]
        if len(mv) != len(iv):
            return False
        if op == "sampled_position_at":
            mags = [abs(c[3] * S) + abs(O)]
        else:
            st = c[4]
            base = abs(st * S) + abs(O) if st is not None else (abs(F(c[5])) if c[5] is not None else abs(O))
            mags = [abs(k * S) + base for k in range(len(mv))]
        for a, b, mag in zip(mv, iv, mags):
            a, b = F(a), F(b)
            # stated bound: each of the (at most 4) float operations rounds by <= 2^-53 of its result's magnitude
            if a != b and abs(a - b) > Fraction(4, 2 ** 52) * (mag + abs(a)):
                return False
        return True
    return model == impl


# ---------------------------------------------------------------------------------------
# generators (every random choice from ctx.rng)

DELTAS_EXACT = [Fraction(0), Fraction(0), Fraction(1, 2), Fraction(-1, 2), Fraction(1, 4), Fraction(-1, 4),
                Fraction(3, 4), Fraction(1, 2 ** 10), Fraction(-1, 2 ** 10), Fraction(1, 2 ** 30),
                Fraction(-1, 2 ** 30), Fraction(1, 2 ** 45), Fraction(-1, 2 ** 45), Fraction(1, 2 ** 20),
                Fraction(3, 8), Fraction(-3, 8)]
SI_EXACT = [Fraction(1), Fraction(1, 2), Fraction(2), Fraction(1, 4), Fraction(1, 1024), Fraction(8),
            Fraction(1, 2 ** 15), Fraction(3, 4), Fraction(5, 2), Fraction(3), Fraction(1, 8)]
OFF_EXACT = [None, Fraction(0), Fraction(-5), Fraction(3), Fraction(-1, 2), Fraction(1, 4), Fraction(4101, 4),
             Fraction(-2 ** 20), Fraction(7, 8), Fraction(-3, 1024), Fraction(100)]
IDX_EXACT = [0, 0, 1, 1, 2, 3, 4, 7, 10, 100, 1023, 49999, 50000, 50001, 100000, 10 ** 6, 2 ** 31, 10 ** 9 + 7]


def _off_s(o):
    return None if o is None else fs(o)


def gen_sampled_point(rng, stream):
    """(off, si, pos) as case strings"""
    if stream == "exact":
        for _ in range(20):
            si = rng.choice(SI_EXACT)
            off = rng.choice(OFF_EXACT)
            if rng.random() < 0.2:
                off = Fraction(rng.randint(-4096, 4096), 2 ** rng.randint(0, 6))
            O = off or Fraction(0)
            kind = rng.random()
            if kind < 0.15:
                r = -rng.choice([Fraction(1, 4), Fraction(1), Fraction(1, 2 ** 30), Fraction(7, 2), Fraction(1, 2 ** 45)])
            else:
                r = rng.choice(IDX_EXACT) + rng.choice(DELTAS_EXACT)
                if rng.random() < 0.3:
                    r = rng.randint(0, 40) + rng.choice(DELTAS_EXACT)
            pos = O + si * r
            if is_double(pos):
                return _off_s(off), fs(si), fs(pos)
        return None, "1/1", "0/1"
    # arbitrary doubles
    si = rng.choice([0.1, 0.001, 1 / 30000.0, 0.25, 3.3, 1e-6, 7.0, 1.0, rng.uniform(0.01, 10),
                     10 ** rng.uniform(-5, 3)])
    off = rng.choice([None, 0.0, -5.0, 3600.0, 0.1, rng.uniform(-100, 100),
                      rng.uniform(-1, 1) * 10 ** rng.randint(0, 5)])
    o = off or 0.0
    k = rng.random()
    if k < 0.1:
        pos = o - si * rng.choice([0.25, 1.0, 1e-9, 3.5, rng.uniform(0, 5)])
    elif k < 0.2:
        pos = o + si * rng.uniform(0, 50)
    else:
        i = rng.choice([0, 1, 2, 5, 10, rng.randint(0, 1000), rng.randint(0, 10 ** 6), 50000, 10 ** 5,
                        rng.randint(10 ** 5, 10 ** 9)])
        d = rng.choice([0, 0, 0, 0.5, -0.5, 0.4, -0.4, 0.3, 1e-3, -1e-3, 1e-6, -1e-6, 1e-9, -1e-9, 1e-11, 1e-13,
                        rng.uniform(-0.5, 0.5)])
        pos = o + si * (i + d)
    return (None if off is None else fs(off)), fs(si), fs(pos)


def gen_ticks(rng, big=False):
    n = rng.choice([1, 1, 2, 2, 3, 4, 5, 6, 8, 12]) if not big else rng.randint(50, 300)
    t = rng.choice([0.0, -3.0, 1.5, rng.uniform(-10, 10), -0.1, 100.0])
    out = []
    for _ in range(n):
        out.append(t)
        t = t + rng.choice([0.0, 0.0, 1.0, 0.5, 0.25, 3.0, 0.1, rng.uniform(0, 2), 1e-9])
    return out


def tick_positions(rng, ticks):
    """on / between / before / after / a hair beside the ticks"""
    ps = []
    if not ticks:
        return [0.0, -1.0, 2.5]
    for _ in range(3):
        k = rng.randrange(len(ticks))
        t = ticks[k]
        ps.append(rng.choice([t, t, math.nextafter(t, math.inf), math.nextafter(t, -math.inf), t + 0.05, t - 0.05]))
        if k + 1 < len(ticks):
            ps.append((t + ticks[k + 1]) / 2)
    ps += [ticks[0], ticks[-1], ticks[0] - rng.choice([1.0, 1e-9]), ticks[-1] + rng.choice([1.0, 1e-9]),
           rng.uniform(ticks[0] - 1, ticks[-1] + 1)]
    return ps


def set_positions(rng, n):
    top = n if n else rng.choice([3, 10, 100000])
    k = rng.choice([0, 0, 1, max(top - 1, 0), top, rng.randint(0, top)])
    return rng.choice([float(k), float(k), k + 0.5, k + 0.25, k - 0.25, k + 1e-9, k - 1e-9, k + 1e-6, k - 1e-6,
                       k + 0.4, k + 0.6, -0.5, -1e-12, 0.0, float(top - 1), top - 1 + 1e-9, top + 0.5,
                       math.nextafter(float(k), math.inf), math.nextafter(float(k), -math.inf)])


def gen_cases(ctx):
    rng = ctx.rng
    cases = []
    tags = []

    def add(tag, c):
        cases.append(c)
        tags.append(tag)

    n_s = ctx.budget(2500, 30000)
    for stream in ("exact", "double"):
        for _ in range(n_s):
            off, si, pos = gen_sampled_point(rng, stream)
            add("sampled.index_of." + stream, ["sampled_index_of", off, si, pos, rng.choice(MODES)])
        for _ in range(n_s // 2):
            off, si, pos = gen_sampled_point(rng, stream)
            S = F(si)
            span = rng.choice([Fraction(0), Fraction(1), Fraction(1, 2), Fraction(5, 2), Fraction(-1), Fraction(10),
                               Fraction(1, 2 ** 30), Fraction(rng.randint(0, 64), 8)])
            e = F(pos) + S * span
            if stream == "double":
                e = Fraction(fl(pos) + fl(si) * float(span))
            if not is_double(e):
                e = Fraction(float(e))
            add("sampled.range_indices." + stream, ["sampled_range_indices", off, si, pos, fs(e), rng.choice(SMODES)])
    for _ in range(ctx.budget(400, 4000)):
        stream = rng.choice(["exact", "double"])
        off, si, _ = gen_sampled_point(rng, stream)
        idx = rng.choice([0, 1, 2, 7, -1, -3, rng.randint(0, 10 ** 6), rng.randint(-100, 100)])
        add("sampled.position_at", ["sampled_position_at", off, si, idx])
        count = rng.choice([0, 1, 2, 3, 5, -1])
        start = rng.choice([None, None, 0, 1, 5, -1, rng.randint(0, 1000)])
        sp = None
        if rng.random() < 0.4:
            O = F(off)
            sp = fs(float(O + F(si) * rng.choice([Fraction(0), Fraction(2), Fraction(-1), Fraction(7, 2)])))
        add("sampled.axis", ["sampled_axis", off, si, count, start, sp])
    # negative intervals / unknown modes: outside the property, the model still follows the code
    for _ in range(ctx.budget(150, 1500)):
        off, si, pos = gen_sampled_point(rng, "exact")
        add("sampled.negative_interval", ["sampled_index_of", off, fs(-F(si)), pos, rng.choice(MODES)])
        add("sampled.unknown_mode", ["sampled_index_of", off, si, pos, rng.choice(["nearest", "x"])])
        add("sampled.unknown_slice_mode", ["sampled_range_indices", off, si, pos, pos, "Both"])

    for _ in range(ctx.budget(700, 8000)):
        r = rng.random()
        ticks = [] if r < 0.03 else gen_ticks(rng, big=(r > 0.97))
        tj = [fs(t) for t in ticks]
        via = {"via": rng.choice(["link", "self"])} if (ticks and rng.random() < 0.08) else None
        for p in tick_positions(rng, ticks):
            c = ["range_index_of", tj, fs(p), rng.choice(MODES)]
            add("range.index_of", c + [via] if via else c)
        for _ in range(3):
            ps = tick_positions(rng, ticks)
            s, e = rng.choice(ps), rng.choice(ps)
            if rng.random() < 0.7 and s > e:
                s, e = e, s
            c = ["range_range_indices", tj, fs(s), fs(e), rng.choice(SMODES)]
            add("range.range_indices", c + [via] if via else c)
        n = len(ticks)
        add("range.tick_at", ["range_tick_at", tj, rng.choice([0, n - 1, n, -1, -n, -n - 1, rng.randint(-n - 2, n + 2)])])
        add("range.axis", ["range_axis", tj, rng.choice([0, 1, 2, n, n + 1, -1]),
                           rng.choice([0, 0, 1, n - 1, n, -1, -2, rng.randint(-n - 1, n + 1)])])
        if rng.random() < 0.1:
            add("range.unknown_mode", ["range_index_of", tj, fs(rng.choice(tick_positions(rng, ticks))), "x"])
    # unsorted ticks (only reachable through a link: the ticks setter refuses them) — the model scans like np.where
    for _ in range(ctx.budget(40, 400)):
        ticks = [rng.choice([0.0, 1.0, 2.0, 3.0, 2.5, -1.0]) for _ in range(rng.randint(2, 6))]
        tj = [fs(t) for t in ticks]
        p = rng.choice(ticks + [0.5, 1.5, 2.25, -2.0, 4.0])
        add("range.unsorted_link", ["range_index_of", tj, fs(p), rng.choice(MODES), {"via": "link"}])

    for sm in SMODES:
        add("to_index_mode", ["to_index_mode", sm])

    for _ in range(ctx.budget(2500, 25000)):
        n = rng.choice([0, 0, 1, 2, 3, 5, 12])
        via = {"via": rng.choice(["none", "empty"])} if n == 0 else ({"via": "link"} if rng.random() < 0.1 else None)
        c = ["set_index_of", n, fs(set_positions(rng, n)), rng.choice(MODES)]
        add("set.index_of", c + [via] if via else c)
        if rng.random() < 0.5:
            s, e = set_positions(rng, n), set_positions(rng, n)
            if rng.random() < 0.7 and s > e:
                s, e = e, s
            c = ["set_range_indices", n, fs(s), fs(e), rng.choice(SMODES)]
            add("set.range_indices", c + [via] if via else c)
        if rng.random() < 0.03:
            add("set.unknown_mode", ["set_index_of", n, fs(set_positions(rng, n)), "x"])
    return cases, tags


def nontrivial(case, out):
    if "err" in out:
        return True
    v = out.get("ok")
    if v is None:
        return True
    if isinstance(v, int):
        return v != 0
    return bool(v)


def correspondence(ctx):
    gen, tags = gen_cases(ctx)
    corpus = core.load_corpus(PROP)
    cases = corpus + gen
    tags = ["corpus"] * len(corpus) + tags
    model = core.run_driver(PROP, [strip(c) for c in cases])
    impl = Impl(ctx, "corr")
    disagreements = []
    seen = set()
    dist = {"ops": {}, "class": {}, "class_by_op": {}, "impl_outcome": {}, "modes": {}}
    marginal_differ = 0
    compared = 0
    try:
        for c, t, m in zip(cases, tags, model):
            i = impl.run(c)
            cl = classify(c)
            dist["ops"][t] = dist["ops"].get(t, 0) + 1
            dist["class"][cl] = dist["class"].get(cl, 0) + 1
            if t.startswith("sampled.") or t.startswith("set."):
                k = t + ":" + cl
                dist["class_by_op"][k] = dist["class_by_op"].get(k, 0) + 1
            oc = "err:" + i["err"] if "err" in i else ("none" if i.get("ok") is None else "ok")
            dist["impl_outcome"][oc] = dist["impl_outcome"].get(oc, 0) + 1
            sc = strip(c)
            if sc[0].endswith("index_of"):
                dist["modes"][sc[-1]] = dist["modes"].get(sc[-1], 0) + 1
            if cl == "marginal":
                if not same(c, m, i):
                    marginal_differ += 1
                continue
            compared += 1
            if not same(c, m, i):
                disagreements.append(Disagreement(c, m, i))
            if nontrivial(c, i):
                seen.add(core.canon(c))
    finally:
        impl.close()
    dist["marginal_skipped"] = dist["class"].get("marginal", 0)
    dist["marginal_that_differ"] = marginal_differ
    dist["file_reopens"] = impl.reopens
    disagreements.sort(key=lambda d: len(core.canon(d.case)))
    # histories: configuration changed between the questions, through other descriptor objects (c07_session.py)
    s_cmp, s_n, s_dis, s_dist = _sess.run_correspondence(ctx, ctx.budget(250, 3000))
    compared += s_cmp
    dist["sessions"] = s_dist
    s_dis.sort(key=lambda d: len(core.canon(d.case)))
    disagreements = s_dis[:20] + disagreements
    for k in range(s_n - len(s_dis)):
        seen.add("session#%d" % k)
    samples = [{"case": cases[k], "model": model[k]} for k in
               sorted(ctx.rng.sample(range(len(cases)), min(6, len(cases))))]
    return {"evaluations": compared, "distinct_nontrivial": len(seen),
            "rule": "corpus (fixed defects D4/D5) + seeded cases per dimension kind: sampled on an exact dyadic stream "
                    "(offset + interval*r with every float operation exact: must agree exactly) and on arbitrary "
                    "doubles (classified separated / marginal by exact decision margins, 2^-40 relative; marginal "
                    "cases counted and skipped); range with ascending ticks incl. repeats, single, none, 50-300 ticks, "
                    "stored / linked to an array / the array's own values / unsorted-through-link; set with 0 (none / empty) to 12 labels (stored or linked); positions on, "
                    "between, a hair beside, before, after the samples; all IndexMode members and aliases, both "
                    "SliceModes, unknown modes, negative intervals; position_at / tick_at / axis incl. negative "
                    "indices. Implementation = real nixio dimensions in one real HDF5 file, reopened every 1500 calls. "
                    "non-trivial = error, None, non-zero index or non-empty list; distinct by canonical JSON. "
                    "Sessions (c07_session.py): histories of 8-32 operations on the 1-3 dimensions of a fresh array - "
                    "offset / interval / ticks / labels / link / unit / label changes and rewrites of the linked source "
                    "through one descriptor object, questions through other descriptor objects that were created (and "
                    "used) before the change; every answer compared with the model's run of the same history",
            "samples": samples, "distribution": dist, "disagreements": disagreements, "exhaustive": False}


# ---------------------------------------------------------------------------------------
# property oracle on the implementation: the order-theoretic definitions, in Fractions, by scan


def _is_sample(mode, coord, n, P, i):
    """is `i` the sample the mode asks for?  coord non-decreasing, domain 0..n-1 (n None: unbounded)"""
    if i < 0 or (n is not None and i >= n):
        return False
    has_next = n is None or i + 1 < n
    if mode == "leq":
        return coord(i) <= P and (not has_next or coord(i + 1) > P)
    if mode == "less":
        return coord(i) < P and (not has_next or coord(i + 1) >= P)
    return coord(i) >= P and (i == 0 or coord(i - 1) < P)


def _no_sample(mode, coord, n, P):
    if n == 0:
        return True
    if mode == "leq":
        return coord(0) > P
    if mode == "less":
        return coord(0) >= P
    return n is not None and coord(n - 1) < P


def _scan(mode, coords, P):
    """literal linear scan over a finite coordinate list"""
    if mode == "leq":
        idx = [i for i, c in enumerate(coords) if c <= P]
        return idx[-1] if idx else None
    if mode == "less":
        idx = [i for i, c in enumerate(coords) if c < P]
        return idx[-1] if idx else None
    idx = [i for i, c in enumerate(coords) if c >= P]
    return idx[0] if idx else None


def _dim_of(c):
    """(coord function, n or None, site) for a case, or None when outside the property (interval <= 0)"""
    op = c[0]
    if op.startswith("sampled"):
        O, S = F(c[1]), F(c[2])
        if S <= 0:
            return None
        return (lambda i: O + i * S), None, "SampledDimension"
    if op.startswith("range"):
        T = [F(t) for t in c[1]]
        if any(a > b for a, b in zip(T, T[1:])):
            return None
        return (lambda i: T[i]), len(T), "RangeDimension"
    n = c[1]
    return (lambda i: Fraction(i)), (n if n else None), "SetDimension"


def in_ref_band(c, P):
    """position strictly inside the reference tolerance band of a sample, not on it (sampled / set only)"""
    op = c[0]
    if op.startswith("sampled"):
        O, S = F(c[1]), F(c[2])
        if S <= 0:
            return False
        X = (P - O) / S
    elif op.startswith("set"):
        X = P
    else:
        return False
    for k in (ffloor(X), ffloor(X) + 1):
        if k >= 0 and X != k and abs(X - k) <= REF_ATOL + REF_RTOL * abs(k):
            return True
    return False


def check_case(impl, case):
    """Failure if the implementation violates C07 on this case, else None"""
    if _dim_of(strip(case)) is None:
        return None
    return judge(case, impl.run(case))


def judge(case, got):
    """the property itself on one conversion: `case` names the configuration and the question, `got` is what the
    implementation answered (however the configuration was reached); Failure or None"""
    c = strip(case)
    op = c[0]
    dim = _dim_of(c)
    if dim is None:
        return None
    coord, n, site = dim
    if op.endswith("index_of"):
        mode = CANON_MODE.get(c[-1])
        if mode is None:
            return None
        P = F(c[-2])
        if "ok" in got:
            if _is_sample(mode, coord, n, P, got["ok"]):
                return None
            want = "IndexError" if _no_sample(mode, coord, n, P) else "the %s sample" % mode
            if n is not None:
                w = _scan(mode, [coord(i) for i in range(n)], P)
                want = "IndexError" if w is None else w
            return Failure("index_of returned an index that is not the sample the mode asks for", case, got["ok"],
                           want, site + ".index_of")
        if got.get("err") == "IndexError":
            if _no_sample(mode, coord, n, P):
                return None
            return Failure("index_of raised IndexError although the requested sample exists", case, "IndexError",
                           "an index", site + ".index_of")
        return Failure("index_of raised %s" % got.get("err"), case, got.get("err"), "an index or IndexError",
                       site + ".index_of")
    if op.endswith("range_indices"):
        if c[-1] not in SMODES:
            return None
        s, e = F(c[-3]), F(c[-2])
        excl = c[-1] == "Exclusive"

        def inside(x):
            return s <= x and (x < e if excl else x <= e)
        if "ok" in got and got["ok"] is not None:
            a, b = got["ok"]
            okk = (0 <= a <= b and (n is None or b < n) and inside(coord(a)) and inside(coord(b))
                   and (a == 0 or not inside(coord(a - 1))) and (not (n is None or b + 1 < n) or not inside(coord(b + 1))))
            if okk:
                return None
            return Failure("range_indices does not cover exactly the samples inside the interval", case, got["ok"],
                           "first..last sample with position in the interval", site + ".range_indices")
        if ("ok" in got and got["ok"] is None) or got.get("err") == "IndexError":
            # must be empty: no sample inside
            if n is not None:
                hit = [i for i in range(n) if inside(coord(i))]
            else:
                O = coord(0)
                S = coord(1) - O
                i0 = max(0, fceil((s - O) / S))
                hit = [i0] if inside(coord(i0)) else []
            if not hit:
                return None
            return Failure("range_indices reported an empty range although samples lie inside the interval", case,
                           got.get("ok", got.get("err")), "a range containing index %d" % hit[0],
                           site + ".range_indices")
        return Failure("range_indices raised %s" % got.get("err"), case, got.get("err"), "a range, None or IndexError",
                       site + ".range_indices")
    return None


def check_roundtrip(impl, c):
    """['rt_sampled', off, si, i] / ['rt_range', ticks, i] / ['rt_axis_sampled', off, si, count, start] /
    ['rt_axis_range', ticks, count, start]"""
    kind = c[0]
    nix = impl.nix
    IM = nix.IndexMode
    try:
        if kind == "rt_sampled":
            d = impl.sampled(c[1], c[2])
            i = c[3]
            p = d.position_at(i)
            got = [int(d.index_of(p, IM.LessOrEqual)), int(d.index_of(p, IM.GreaterOrEqual))]
            if i > 0:
                got.append(int(d.index_of(p, IM.Less)) + 1)
            if any(g != i for g in got):
                return Failure("index_of(position_at(i)) != i", c, got, [i] * len(got), "SampledDimension.index_of")
        elif kind == "rt_range":
            ticks = [fl(t) for t in c[1]]
            d = impl.range_(c[1], "")
            i = c[2]
            t = d.tick_at(i)
            if float(t) != ticks[i]:
                return Failure("tick_at(i) is not the stored tick", c, float(t), ticks[i], "RangeDimension.tick_at")
            lo, hi = int(d.index_of(t, IM.GreaterOrEqual)), int(d.index_of(t, IM.LessOrEqual))
            same = [k for k, x in enumerate(ticks) if x == ticks[i]]
            if (lo, hi) != (same[0], same[-1]):
                return Failure("index_of(tick_at(i)) is not the first/last sample at that tick", c, [lo, hi],
                               [same[0], same[-1]], "RangeDimension.index_of")
        elif kind == "rt_axis_sampled":
            d = impl.sampled(c[1], c[2])
            count, start = c[3], c[4]
            ax = d.axis(count, start)
            if len(ax) != count:
                return Failure("axis has the wrong length", c, len(ax), count, "SampledDimension.axis")
            for k, x in enumerate(ax):
                p = d.position_at(start + k)
                if abs(Fraction(float(x)) - Fraction(float(p))) > Fraction(8, 2 ** 52) * (abs(Fraction(float(p))) + abs(F(c[1])) + 1):
                    return Failure("axis(count, start)[k] != position_at(start + k)", c, float(x), float(p),
                                   "SampledDimension.axis")
                if int(d.index_of(x, IM.LessOrEqual)) != start + k:
                    return Failure("index_of(axis[k]) != start + k", c, int(d.index_of(x, IM.LessOrEqual)), start + k,
                                   "SampledDimension.axis")
        elif kind == "rt_axis_range":
            d = impl.range_(c[1], "")
            count, start = c[2], c[3]
            ax = d.axis(count, start)
            want = [float(d.tick_at(start + k)) for k in range(count)]
            if [float(x) for x in ax] != want:
                return Failure("axis(count, start)[k] != tick_at(start + k)", c, [float(x) for x in ax], want,
                               "RangeDimension.axis")
    except Exception as e:
        return Failure("unexpected %s: %s" % (type(e).__name__, str(e)[:80]), c, type(e).__name__, "no exception",
                       "dimensions")
    return None


FIXED_ORACLE_CASES = [
    # D4 (fixed by 6411d29): band wider than half a sample from index 5*10^4 on
    ["sampled_index_of", None, "1/1", fs(100000.4), "GEQ"],
    ["sampled_index_of", None, "1/1", fs(100000.6), "LEQ"],
    ["sampled_index_of", None, "1/1", fs(9.99995), "LEQ"],
    ["sampled_index_of", None, "1/1", fs(50001.5), "GEQ"],
    ["sampled_index_of", None, "1/1", fs(1000000.25), "Less"],
    ["sampled_range_indices", None, "1/1", fs(100000.4), fs(100000.6), "Inclusive"],
    ["set_index_of", 0, fs(100000.4), "GEQ", {"via": "none"}],
    ["set_index_of", 0, fs(200000.9), "GEQ", {"via": "none"}],
    # D5 (fixed by 2389173): the first-sample guard of mode Less tested the raw position
    ["sampled_index_of", "-5/1", "1/1", "0/1", "Less"],
    ["sampled_index_of", "-5/1", "1/1", "-5/1", "Less"],
    ["sampled_index_of", "3/1", "2/1", "3/1", "Less"],
    ["sampled_range_indices", "-5/1", "1/1", "-2/1", "0/1", "Exclusive"],
    # branch classics (DESIGN appendix B)
    ["sampled_index_of", "3/1", "2/1", "7/1", "Less"],
    ["sampled_index_of", "3/1", "2/1", "7/1", "LEQ"],
    ["sampled_index_of", "3/1", "2/1", "8/1", "GEQ"],
    ["range_index_of", ["1/1", "2/1", "2/1", "3/1"], "2/1", "Less"],
    ["range_index_of", ["1/1", "2/1", "2/1", "3/1"], "2/1", "LEQ"],
    ["range_index_of", ["1/1", "2/1", "2/1", "3/1"], "2/1", "GEQ"],
    ["range_index_of", ["1/1"], "1/1", "Less"],
    ["set_index_of", 3, "2/1", "Less"],
    ["set_index_of", 3, "5/2", "GEQ"],
    ["set_index_of", 3, "0/1", "Less"],
]
# inside the tolerance band, not on the sample: the open known finding (must stay the only kind of failure)
KNOWN_BAND_CASES = [
    ["sampled_index_of", None, "1/1", fs(3 + 2.0 ** -30), "GEQ"],
    ["set_index_of", 3, fs(1 + 2.0 ** -30), "GEQ"],
]


def gen_oracle_cases(ctx, n):
    rng = ctx.rng
    out = []
    for _ in range(n):
        k = rng.random()
        if k < 0.45:
            off, si, pos = gen_sampled_point(rng, rng.choice(["exact", "double"]))
            if rng.random() < 0.7:
                out.append(["sampled_index_of", off, si, pos, rng.choice(MODES)])
            else:
                e = fl(pos) + fl(si) * rng.choice([0.0, 1.0, 0.5, 2.5, 10.0, -1.0, rng.uniform(0, 8)])
                out.append(["sampled_range_indices", off, si, pos, fs(e), rng.choice(SMODES)])
        elif k < 0.75:
            ticks = gen_ticks(rng, big=rng.random() < 0.02) if rng.random() > 0.03 else []
            tj = [fs(t) for t in ticks]
            ps = tick_positions(rng, ticks)
            if rng.random() < 0.6:
                out.append(["range_index_of", tj, fs(rng.choice(ps)), rng.choice(MODES)])
            else:
                s, e = sorted([rng.choice(ps), rng.choice(ps)])
                out.append(["range_range_indices", tj, fs(s), fs(e), rng.choice(SMODES)])
        else:
            n_ = rng.choice([0, 0, 1, 2, 3, 5, 12])
            via = [{"via": rng.choice(["none", "empty"])}] if n_ == 0 else []
            if rng.random() < 0.6:
                out.append(["set_index_of", n_, fs(set_positions(rng, n_)), rng.choice(MODES)] + via)
            else:
                s, e = sorted([set_positions(rng, n_), set_positions(rng, n_)])
                out.append(["set_range_indices", n_, fs(s), fs(e), rng.choice(SMODES)] + via)
    return out


def gen_roundtrip_cases(ctx, n):
    rng = ctx.rng
    out = []
    for _ in range(n):
        k = rng.random()
        if k < 0.5:
            si = rng.choice([0.1, 0.001, 1 / 30000.0, 0.25, 3.3, 1.0, 2.0, rng.uniform(0.01, 10), 10 ** rng.uniform(-4, 2)])
            lim = 2 ** 22
            off = rng.choice([None, 0.0, -5.0, 0.1, rng.uniform(-100, 100), rng.uniform(-1, 1) * si * lim / 2])
            room = int(lim - abs((off or 0.0) / si))
            i = rng.choice([0, 1, 2, 10, rng.randint(0, 1000), 50000, 100000, rng.randint(0, max(room, 1))])
            if abs((off or 0.0) / si) + i > lim:
                continue
            if rng.random() < 0.8:
                out.append(["rt_sampled", None if off is None else fs(off), fs(si), i])
            else:
                out.append(["rt_axis_sampled", None if off is None else fs(off), fs(si), rng.randint(0, 6), min(i, 10 ** 6)])
        else:
            ticks = gen_ticks(rng)
            tj = [fs(t) for t in ticks]
            i = rng.randrange(len(ticks))
            if rng.random() < 0.7:
                out.append(["rt_range", tj, i])
            else:
                out.append(["rt_axis_range", tj, rng.randint(0, len(ticks) - i), i])
    return out


def _run_oracle_case(impl, c):
    if c[0].startswith("rt_"):
        return check_roundtrip(impl, c)
    return check_case(impl, c)


def _is_band_failure(case):
    """the narrow class of the open known finding: an index_of / range_indices case one of whose positions lies
    strictly inside the *reference* band (atol 1e-8, rtol 1e-12) of a sample without being on it"""
    if isinstance(case, dict) and "question_as_case" in case:
        case = case["question_as_case"]
    if not isinstance(case, list) or not case:
        return False
    c = strip(case)
    if not isinstance(c, list) or not c or not isinstance(c[0], str):
        return False
    if c[0] in ("sampled_index_of", "set_index_of"):
        return in_ref_band(c, F(c[-2]))
    if c[0] in ("sampled_range_indices", "set_range_indices"):
        return in_ref_band(c, F(c[-3])) or in_ref_band(c, F(c[-2]))
    return False


def oracle(ctx, broken, hints):
    cases = []
    for h in hints[:300]:
        if isinstance(h, list) and h and isinstance(h[0], str):
            cases.append(h)
    cases += FIXED_ORACLE_CASES + KNOWN_BAND_CASES
    cases += [c for c in core.load_corpus(PROP)]
    n = 40000 if broken else ctx.budget(4000, 40000)
    cases += gen_oracle_cases(ctx, n)
    cases += gen_roundtrip_cases(ctx, n // 4)
    cases = [c for c in cases if c[0] != "session"]
    s_evals, s_failures = _sess.run_oracle(ctx, 2500 if broken else ctx.budget(200, 2500), hints[:50])
    impl = Impl(ctx, "oracle")
    failures = list(s_failures)
    seen = set()
    band_dev = 0
    try:
        for c in cases:
            f = _run_oracle_case(impl, c)
            if f is None:
                continue
            if _is_band_failure(f.input):
                band_dev += 1
                if band_dev > 3:
                    continue      # the known class: keep a few representatives only
            key = (f.what, core.canon(f.input))
            if key not in seen:
                seen.add(key)
                failures.append(f)
    finally:
        impl.close()
    failures.sort(key=lambda f: (_is_band_failure(f.input), len(core.canon(f.input))))
    return {"evaluations": len(cases) + s_evals, "failures": failures, "in_reference_band_deviations": band_dev,
            "session_questions": s_evals,
            "rule": "order-theoretic definitions evaluated in Fractions on the exact values of the doubles; finite "
                    "dimensions by literal linear scan; round trips on the implementation's own floats; sessions: "
                    "the same definitions for the configuration in force when a live descriptor object is asked, "
                    "after changes made through other descriptor objects (the harness's own last-write-wins record)"}


def matches_known(entry, failure):
    if entry.get("class") == "position-inside-reference-tolerance-band":
        return _is_band_failure(failure.input)
    return False


def reproduces(ctx, entry):
    impl = Impl(ctx, "known")
    try:
        f = check_case(impl, entry["input"])
        return f is not None and _is_band_failure(f.input)
    finally:
        impl.close()


def replay_failure(ctx, fj):
    if isinstance(fj.get("input"), dict) and "session" in fj["input"]:
        return _sess.replay(ctx, fj["input"])
    impl = Impl(ctx, "replay")
    try:
        return _run_oracle_case(impl, fj["input"])
    finally:
        impl.close()


from . import c07_session as _sess  # noqa: E402  (sibling module; uses the helpers above at call time)

READY = True
MANIFEST = {
    "level_text": "Kernel-checked theorems over a Lean model (exact rationals) of the position/index conversions of "
                  "nixio/dimensions.py, instantiated with the np.isclose tolerances, guard argument, rounding functions "
                  "and enum tables regenerated from the source on every run. RangeDimension.index_of / range_indices "
                  "are proved at full strength for every ascending tick list (repeats allowed), position and mode by "
                  "induction over the tick list; SampledDimension / SetDimension conversions are proved for every "
                  "offset, positive interval, label count, position and mode under the explicit hypothesis that the "
                  "position is on a sample or outside the tolerance band (Separated), with a band-width theorem over "
                  "the generated tolerances, the unrestricted statement kept as a Prop with a proved counterexample; "
                  "range_indices for all three kinds; round trips and axes. The decision shape of the three "
                  "index_of bodies (guards, comparisons, rounding call, np.where scans, result per mode) is translated "
                  "from the source and the hand-written model is proved equal to it for all inputs. Sessions "
                  "(Pure/DimSession.lean): for all histories of configuration changes and questions through several "
                  "descriptor objects the answer is the one for the configuration stored now (change through one "
                  "handle visible through every other; stored ticks ascending as a reachability invariant; linked "
                  "ticks read from the source as last rewritten). Two defects of the pinned tree were "
                  "repaired in /repo (fix: 2389173 first-sample guard on the scaled position; fix: 6411d29 explicit "
                  "rtol=1e-12/atol=1e-8) and stay in the corpus and the oracle's fixed case list.",
    "level_note": "Trusted: Lean kernel; axioms propext/Classical.choice/Quot.sound; the dimensions.py translator; the "
                  "Rat stand-ins for IEEE doubles, np.isclose, np.round, np.floor, np.where (exercised by an exact "
                  "dyadic stream that must agree exactly and an arbitrary-double stream with counted marginal cases). "
                  "Partial: positions strictly inside the tolerance band of a sample (open known finding "
                  "C07-tolerance-band); sampling_interval <= 0 is outside the property, the theorems only state "
                  "what the code does there (mirror image / -inf, nan, +inf).",
    "technique": "Lean 4 proof (induction over tick lists and over operation histories, floor/ceil algebra in Q, "
                 "generated tolerances and decision trees) with differential correspondence against real nixio "
                 "dimensions in real HDF5 files, single conversions and multi-handle histories",
}
