"""C17 — flush() and close() make everything written so far survive a process kill (nixio/file.py).

Tie to the source:
 (T) harness/extract/flush.py renders the statement lists of File.flush / File.close / File.__exit__ as Lean
     constants; the theorems evaluate decidable shape predicates on them (flush reaches h5py's File.flush; close
     flushes before the h5py close).
 (C) child-process kills: `harness/props/c17_child.py` runs a seeded generated history on a real HDF5 file,
     records the canonical walk (`harness/lib/walk.py`) at every flush point, calls flush()/close()/leaves a
     `with` block and SIGKILLs itself; a second process reopens read-only and read-write and walks again.  Chains
     of such writer processes on one file are fed, as puts/dels between flush points plus random write-back
     events, to the Lean model, whose predicted view after kill + reopen is compared with the reopened file.
     A second, in-process stream compares the session protocol (open modes, refusals on closed / read-only files,
     flush transparency, close, with-exit) call by call.
 Oracle: the property itself on the implementation, without the model: walk recorded at the flush == walk after
     SIGKILL + reopen (read-only and read-write), on its own seeded kills + the corpus + the disagreeing cases; every
     run includes writers that hold two File objects on the path (gen_multi_chain) and writers whose end call runs
     under RLIMIT_FSIZE (gen_fault_chain: checked only when the call returned normally).
"""
import json
import os
import subprocess
import sys
from concurrent.futures import ThreadPoolExecutor

from ..lib import core
from ..lib import walk as W
from ..lib.core import Failure, Disagreement, InfraError
from ..extract import flush as _ex
from ..extract import flushopen as _exo

PROP = "C17"
LEAN_MODULE = "NixModel.Props.C17"
THEOREMS = [
    "Nix.C17.C17_flush_shape",
    "Nix.C17.C17_close_shape",
    "Nix.C17.C17_exit_shape",
    "Nix.C17.C17_body_durable",
    "Nix.C17.C17_flush_durable",
    "Nix.C17.C17_close_durable",
    "Nix.C17.C17_exit_durable",
    "Nix.C17.C17_history_durable",
    "Nix.C17.C17_every_later_view",
    "Nix.C17.C17_flush_idempotent",
    "Nix.C17.C17_chain_durable",
    "Nix.C17.C17_chain_reopen",
    "Nix.C17.C17_unflushed_can_lose",
    "Nix.C17.C17_close_needs_flush",
    "Nix.C17.C17_closed_refused",
    "Nix.C17.C17_readonly_inert",
    "Nix.C17.C17_open_table",
    "Nix.C17.C17_mode_flags",
    "Nix.C17.C17_fapl_shape",
    "Nix.C17.C17_locking_bounds",
    "Nix.C17.C17_open_refines",
    "Nix.C17.C17_open_mode",
    "Nix.C17.C17_reopen_not_refused",
    "Nix.C17.C17_locking_fapl_refuses",
    "Nix.C17.C17_detached_loses",
    "Nix.C17.C17_detached_open_loses",
    "Nix.C17.C17_locking_close_ok",
    "Nix.C17.C17_last_flush_wins",
    "Nix.C17.C17_late_writes_bounded",
    "Nix.C17.C17_chain_reopen_open",
    "Nix.C17.C17_multi_flush_durable",
    "Nix.C17.C17_multi_close_durable",
    "Nix.C17.C17_multi_unflushed_loses",
]
ASSUMPTIONS = [
    "libhdf5's H5Fflush and the operating system honour the flush: in the model `h5flush` IS `disk := cache`; "
    "no model exhibits a failing flush or a lost page cache (runtime truth, exercised by the child-process kills "
    "only; SIGKILL keeps the OS page cache, power loss is outside the property)",
    "h5py File.close is given no durability of its own in the model (weaker than real libhdf5), so the theorem "
    "for close() rests on the flush inside File.close",
    "one writer process at a time; several File objects on the path inside that process share ONE library file "
    "structure and cache (libhdf5 hands a second H5Fopen the file it already holds; Pure/FlushMulti.lean): H5Fflush "
    "through any of them writes that cache - exercised by the two-object writer chains, not proved",
    "a store is a map object-path -> canonical record (container order lives in the parent's record); the "
    "model is fed the difference between consecutive flush-point walks recorded by the child itself",
    "Python's `with` statement calls __exit__ on every way out of the block (language semantics, trusted)",
    "open path: libhdf5 writes a version-3 superblock, whose 'open for write' mark outlives a killed writer, exactly "
    "when the lower library-version bound of the property list is 1.10 or newer (modelled as `locking`; validated "
    "on every run by writers whose property list carries such bounds - model vs libhdf5); a zero-byte file is a "
    "state of the path in the decision table only (nothing in the model produces one)",
]
TRUSTED_EXTRA = [
    "harness/extract/flush.py renders the bodies of File.flush/close/__exit__ (calls on self._h5file, gc.collect, "
    "inlined self.close()/self.flush()) and checks self._h5file = h5py.File(fid)",
    "harness/extract/flushopen.py runs File.__init__ symbolically over (missing / empty / non-empty path) x (r, a, w) "
    "and renders map_file_mode, the calls of make_fapl() and the arguments of h5py.h5f.create / h5py.h5f.open",
    "harness/lib/walk.py (canonical walk through the public API) and harness/props/c17_child.py (history "
    "generator, flush-point recorder, SIGKILL)",
]

# (F) anchor fingerprints of the pinned tree — budget steering only (DESIGN 2.3 F): an edited anchor raises
# the quick tier's kill budget, it is neither an alarm nor a tie
ANCHOR_FP = {"__init__": "42d3f1d700288f69",
             "__enter__": "b5f2af836ab23acf",
             "__exit__": "955af8e558e944d6",
             "flush": "09d35fdc75d91db5",
             "close": "f1030127f1659001",
             "make_fapl": "ca7f59682aa5177f",
             "make_fcpl": "a848c24e516ae1e5",
             "map_file_mode": "8f33b4db03bd99d1"}


def anchors_changed():
    cur = core.func_fingerprint("nixio/file.py", list(ANCHOR_FP))
    return sorted(k for k in ANCHOR_FP if cur.get(k) != ANCHOR_FP[k])


ENDS = ["flush", "flush", "flush", "close", "close", "exit", "exit_exc", "flush_flush"]
PY = sys.executable or "/venv/bin/python"
WORKERS = 8


def extract(repo):
    out = dict(_ex.extract(repo))
    out.update(_exo.extract(repo))
    return out


# ---------------------------------------------------------------------------------------
# child processes


def _run_py(ctx, spec, tag, timeout=300):
    """run c17_child on a spec; returns (returncode, stderr tail)"""
    sp = ctx.tmpfile("%s.spec.json" % tag)
    with open(sp, "w") as fh:
        json.dump(spec, fh)
    env = dict(os.environ)
    env["PYTHONDONTWRITEBYTECODE"] = "1"
    try:
        p = subprocess.run([PY, "-m", "harness.props.c17_child", sp], cwd=core.VERIF, env=env,
                           stdout=subprocess.PIPE, stderr=subprocess.PIPE, text=True, timeout=timeout)
    except subprocess.TimeoutExpired:
        raise _infra("C17 child timed out on %s" % json.dumps(spec)[:300])
    return p.returncode, p.stderr[-1500:]


def _infra(msg):
    """an infrastructure failure of this module: also named on stdout (tools that drive ./check keep stdout only)"""
    print("INFRA C17: %s" % msg[:600], flush=True)
    return InfraError(msg)


def _load(path):
    try:
        with open(path) as fh:
            return json.load(fh)
    except (OSError, ValueError):
        return None


def observe(ctx, path, tag, modes=("r", "a")):
    """walks of the file reopened read-only and read-write, taken in a fresh process"""
    out = ctx.tmpfile("%s.obs.json" % tag)
    rc, err = _run_py(ctx, {"observe": True, "file": path, "out": out, "modes": list(modes)}, tag + ".obs")
    res = _load(out)
    if res is None:
        # the observer died (e.g. libhdf5 aborted on a damaged file): that is an observation too
        return {m: {"open_error": "observer-crashed rc=%s" % rc} for m in modes}
    return res


def gen_seed(chain, i):
    return "%s/%d" % (chain["seed"], i)


def run_chain(ctx, chain, tag, upto=None, final_end=None):
    """run the writer processes of a chain one after the other on one file; returns one record per
    generation: {"spec", "rc", "out", "obs"}"""
    path = ctx.tmpfile("%s.nix" % tag)
    recs = []
    gens = chain["gens"] if upto is None else chain["gens"][:upto + 1]
    for i, g in enumerate(gens):
        out = ctx.tmpfile("%s.g%d.out.json" % (tag, i))
        end = g["end"]
        if final_end is not None and i == len(gens) - 1:
            end = final_end
        spec = {"file": path, "mode": g["mode"], "seed": gen_seed(chain, i), "phases": g["phases"],
                "end": end, "out": out, "big": g.get("big", True), "kill": True,
                "compression": g.get("compression"), "profiles": g.get("profiles"), "fapl": g.get("fapl"),
                "multi": g.get("multi"), "fsize": g.get("fsize")}
        rc, err = _run_py(ctx, spec, "%s.g%d" % (tag, i))
        o = _load(out)
        if o is None:
            raise _infra("C17 child produced no record (rc=%s) for %s: %s" % (rc, json.dumps(spec)[:200], err))
        if o.get("open_error"):
            # the file left by the previous generation cannot be opened by the next writer
            recs.append({"spec": spec, "rc": rc, "out": o, "obs": {}, "end": end})
            break
        if rc != -9:
            raise _infra("C17 child was not killed by SIGKILL (rc=%s): %s" % (rc, err))
        obs = observe(ctx, path, "%s.g%d" % (tag, i))
        recs.append({"spec": spec, "rc": rc, "out": o, "obs": obs, "end": end})
        if check_generation(chain, i, recs[-1]) is not None:
            break           # the file is not what it should be: later generations would build on sand
        try:
            os.unlink(out)
        except OSError:
            pass
    try:
        os.unlink(path)
    except OSError:
        pass
    return recs


FILE_COMPRESSIONS = ["No", "DeflateNormal", "Auto", None]     # File.open(..., compression=…); None = omitted
# (file-level compression, end of the first generation) pairs every run covers with its first chains, so that a
# defect tied to how the file was *created* meets both a flush-ended and a close-ended first writer
STRATA = [("DeflateNormal", "flush"), ("No", "flush"), ("Auto", "flush"), ("DeflateNormal", "close"),
          ("No", "exit"), ("Auto", "close"), ("DeflateNormal", "exit_exc"), (None, "flush_flush")]


def gen_chain(rng, quick, n_gens=None, stratum=None):
    n = n_gens if n_gens is not None else rng.choice([1, 2, 3, 3, 4])
    gens = []
    for i in range(n):
        if i == 0:
            mode = rng.choice(["w", "w", "a"])
        else:
            mode = rng.choices(["a", "r", "w"], [8, 2, 1])[0]
        k = rng.choice([1, 1, 2, 3])
        if mode == "r":
            phases = [rng.randrange(2, 6)]
        else:
            hi = 18 if quick else 30
            phases = [rng.randrange(4, hi) for _ in range(k)]
        g = {"mode": mode, "phases": phases, "end": rng.choice(ENDS),
             "big": rng.random() < (0.35 if quick else 0.5),
             "compression": rng.choice(FILE_COMPRESSIONS)}
        if mode != "r":
            # phases of a single kind of write between two flush points (the first phase of a writer that finds
            # content may be one too)
            profs = []
            for j in range(len(phases)):
                special = (j > 0 and rng.random() < 0.5) or (j == 0 and i > 0 and mode == "a" and rng.random() < 0.3)
                profs.append(rng.choice(SPECIAL_PROFILES) if special else "mixed")
            if any(pr != "mixed" for pr in profs):
                g["profiles"] = profs
        gens.append(g)
    if stratum is not None:
        gens[0]["compression"], gens[0]["end"] = stratum
    return {"kind": "chain", "seed": rng.randrange(10 ** 9), "gens": gens}


SPECIAL_PROFILES = ["overwrite", "small_append", "delete_only", "append_only", "attrs_only"]


def gen_profile_chain(rng, profile, quick, reopen=False):
    """one writer: a mixed phase, flush, then (one or two) phases of a single kind of write, each followed by a
    flush point; killed after the last flush.  With reopen: the single-kind phases run in a second writer that
    re-opens the file read-write."""
    n1 = rng.randrange(10, 18 if quick else 28)
    k = rng.choice([1, 2, 2, 3])
    later = [rng.randrange(3, 9) for _ in range(k)]
    end = rng.choice(["flush", "flush", "flush_flush", "close"])
    comp = rng.choice(FILE_COMPRESSIONS)
    if reopen:
        gens = [{"mode": "w", "phases": [n1], "end": rng.choice(["flush", "close"]), "big": False,
                 "compression": comp},
                {"mode": "a", "phases": [rng.randrange(2, 5)] + later, "profiles": [profile] * (k + 1), "end": end,
                 "big": False, "compression": comp}]
    else:
        gens = [{"mode": "w", "phases": [n1] + later, "profiles": ["mixed"] + [profile] * k, "end": end,
                 "big": rng.random() < 0.3, "compression": comp}]
    return {"kind": "chain", "seed": rng.randrange(10 ** 9), "gens": gens}


def gen_overwrite_chain(rng, quick):
    """a writer leaves a file (flushed or closed); the next one opens the same path with Overwrite, writes,
    flushes and is killed; sometimes a third one re-opens read-write"""
    hi = 12 if quick else 24
    gens = [{"mode": rng.choice(["w", "a"]), "phases": [rng.randrange(5, hi)], "end": rng.choice(["close", "flush", "exit"]),
             "big": False, "compression": rng.choice(FILE_COMPRESSIONS)},
            {"mode": "w", "phases": [rng.randrange(4, hi) for _ in range(rng.choice([1, 2]))],
             "end": rng.choice(["flush", "flush", "flush_flush", "close"]), "big": rng.random() < 0.3,
             "compression": rng.choice(FILE_COMPRESSIONS)}]
    if rng.random() < 0.4:
        gens.append({"mode": "a", "phases": [rng.randrange(3, hi)], "end": rng.choice(ENDS), "big": False,
                     "compression": rng.choice(FILE_COMPRESSIONS)})
    return {"kind": "chain", "seed": rng.randrange(10 ** 9), "gens": gens}


def gen_multi_chain(rng, quick, shape=None, mode2=None):
    """a writer process that holds TWO File objects on the same path (read-write + read-write, or read-write +
    read-only; the second opened before / between / after the writes); operations go through either object, the
    flush points and the end call (flush / close) are issued on either, the other object stays open until the
    kill.  The promise applies to whichever flush()/close() returned last.
    shape "close_writer": writes through the second read-write object, which is then closed while the first stays
    open; "flush_other": the end flush is issued on the object the writes did NOT go through (second one
    read-only or read-write); None: everything drawn."""
    hi = 12 if quick else 22
    gens = []
    if rng.random() < 0.6:
        # the path holds a file already (a writer that re-opens an existing recording)
        gens.append({"mode": "w", "phases": [rng.randrange(4, hi)], "end": rng.choice(["close", "flush", "exit"]),
                     "big": False, "compression": rng.choice(FILE_COMPRESSIONS)})
        mode1 = rng.choice(["a", "a", "w"])
    else:
        mode1 = rng.choice(["w", "a"])
    k = rng.choice([2, 2, 3])
    phases = [rng.randrange(3, hi) for _ in range(k)]
    mode2 = mode2 or rng.choice(["a", "r"])
    open2 = rng.randrange(0, k + 1)
    end = rng.choice(["flush", "flush", "close", "flush_flush"])
    end_via = rng.choice(["first", "second"])
    if shape == "close_writer":
        mode2, open2, end, end_via = "a", rng.randrange(0, k), "close", "second"
    elif shape == "flush_other":
        open2, end, end_via = rng.randrange(0, k + 1), rng.choice(["flush", "flush", "flush_flush"]), "second"
    via = []
    for j in range(k):
        if mode2 == "a" and j >= open2:
            via.append("second" if (shape == "close_writer" or rng.random() < 0.5) else "first")
        else:
            via.append("first")        # a read-only object is not written through
    if shape == "flush_other":
        via = ["first"] * k
    multi = {"mode2": mode2, "open2": open2, "via": via,
             "flush_via": [rng.choice(["first", "second"]) for _ in range(k)], "end_via": end_via}
    if shape is None and open2 < k - 1 and rng.random() < 0.3:
        multi["close2_at"] = rng.randrange(open2, k - 1)
    g = {"mode": mode1, "phases": phases, "end": end, "big": rng.random() < 0.2,
         "compression": rng.choice(FILE_COMPRESSIONS), "multi": multi}
    if rng.random() < 0.4:
        g["profiles"] = ["mixed"] + [rng.choice(SPECIAL_PROFILES + ["mixed"]) for _ in range(k - 1)]
    gens.append(g)
    return {"kind": "chain", "seed": rng.randrange(10 ** 9), "gens": gens}


def gen_fault_chain(rng, quick):
    """a writer whose last phase and end call (flush / close) run under a file-size limit (the file cannot grow
    beyond its size at the previous flush point + slack): an end call that RETURNS has promised the state at that
    call; one that raises has promised nothing (and nothing is checked)."""
    hi = 14 if quick else 24
    gens = []
    if rng.random() < 0.3:
        gens.append({"mode": "w", "phases": [rng.randrange(4, hi)], "end": "close", "big": False,
                     "compression": rng.choice(FILE_COMPRESSIONS)})
    prof = rng.choice(["append_only", "append_only", "mixed", "mixed", "attrs_only", "small_append"])
    gens.append({"mode": "a" if gens else "w", "phases": [rng.randrange(6, hi), rng.randrange(3, 9)],
                 "profiles": ["mixed", prof], "end": rng.choice(["flush", "flush", "flush", "close", "flush_flush"]),
                 "big": False, "compression": rng.choice(FILE_COMPRESSIONS),
                 "fsize": {"slack": rng.choice([0, 512, 512, 4096])}})
    return {"kind": "chain", "seed": rng.randrange(10 ** 9), "gens": gens}


# ---------------------------------------------------------------------------------------
# probes of the open path's model: what libhdf5 does with library-version bounds on the property list

LIBVERS = ["earliest", "v18", "v110", "v112", "v114", "v200", "latest"]
LIBVER_RANK = {"earliest": 0, "v18": 1, "v110": 2, "v112": 3, "v114": 4, "v200": 5, "latest": 5}


def fapl_pairs():
    import h5py
    have = [v for v in LIBVERS if hasattr(h5py.h5f, "LIBVER_" + v.upper())]
    # libhdf5 refuses (earliest, earliest); high must not be below low
    return [(lo, hi) for lo in have for hi in have
            if LIBVER_RANK[lo] <= LIBVER_RANK[hi] and not (lo == "earliest" and hi == "earliest")]


def gen_fapl_probes(rng, n):
    pairs = fapl_pairs()
    must = [p for p in [("earliest", "latest"), ("v18", "latest"), ("v110", "latest"), ("latest", "latest")]
            if p in pairs]
    rest = [p for p in pairs if p not in must]
    rng.shuffle(rest)
    chosen = (must + rest)[:max(n, len(must))] if n < len(pairs) else pairs
    out = []
    for k, (lo, hi) in enumerate(chosen):
        end = ["flush", "close", "flush_flush", "exit"][k % 4] if n < len(pairs) else None
        for e in ([end] if end else ["flush", "close"]):
            out.append({"kind": "fapl", "seed": rng.randrange(10 ** 9),
                        "gens": [{"mode": "w", "phases": [rng.randrange(3, 8)], "end": e, "big": False,
                                  "compression": None, "fapl": [lo, hi]}]})
    # the superblock version is a property of the file: a file created with a locking bound and closed, then
    # re-opened by a writer with the ordinary property list, is marked again while that writer holds it
    # (read-write: refused after flush + kill; read-only: never marked)
    locking = [p for p in pairs if LIBVER_RANK[p[0]] >= LIBVER_RANK["v110"]]
    if locking:
        for mode2 in (["a"] if n < len(pairs) else ["a", "r", "a"]):
            lo, hi = rng.choice(locking)
            out.append({"kind": "fapl", "seed": rng.randrange(10 ** 9),
                        "gens": [{"mode": "w", "phases": [rng.randrange(3, 8)], "end": rng.choice(["close", "exit"]),
                                  "big": False, "compression": None, "fapl": [lo, hi]},
                                 {"mode": mode2, "phases": [rng.randrange(2, 6)],
                                  "end": rng.choice(["flush", "flush_flush"]), "big": False, "compression": None}]})
    return out


def _pmap(fn, items):
    if not items:
        return []
    with ThreadPoolExecutor(max_workers=WORKERS) as ex:
        return list(ex.map(fn, items))


# ---------------------------------------------------------------------------------------
# the property on the implementation (shared by correspondence bookkeeping and the oracle)


def check_generation(chain, i, rec):
    """Failure if the file reopened after the kill of generation i is not the state at its flush point"""
    out, obs = rec["out"], rec["obs"]
    end = rec["end"]
    site = {"flush": "nixio/file.py:File.flush", "flush_flush": "nixio/file.py:File.flush",
            "close": "nixio/file.py:File.close", "exit": "nixio/file.py:File.__exit__",
            "exit_exc": "nixio/file.py:File.__exit__"}.get(end, "nixio/file.py")
    inp = {"kind": "chain", "seed": chain["seed"], "gens": chain["gens"][:i + 1], "generation": i}
    if out.get("open_error") and i == 0:
        return None          # nothing was flushed before: not this property (shows up as a disagreement)
    if out.get("open_error"):
        return Failure("a file flushed/closed by the previous writer and killed cannot be opened by the next "
                       "writer", inp, {"open_error": out["open_error"], "mode": rec["spec"]["mode"]},
                       "opens", "nixio/file.py")
    if out.get("end_error"):
        return None          # the call did not return: the property's premise is not met (reported as disagreement)
    want = out["final_walk"]
    if want is None:
        return None          # no state recorded (writes refused under a size limit left nothing walkable): no claim
    g = rec["spec"]
    if g.get("multi"):
        end = "%s (on the %s of two File objects open on the path, second one opened %r)" % (
            end, g["multi"].get("end_via", "first") if out.get("second_opened") else "first",
            g["multi"].get("mode2"))
    if g.get("fsize"):
        end = "%s (which returned normally under a file-size limit)" % end
    for m, label in (("r", "read-only"), ("a", "read-write")):
        o = obs.get(m, {})
        if "open_error" in o:
            return Failure("after %s + SIGKILL the file cannot be opened %s" % (end, label), inp,
                           {"open_error": o["open_error"]}, "opens and shows the state at the %s" % end, site)
        if o.get("walk") != want:
            d = W.diff(want, o.get("walk") or [], limit=4)
            return Failure("after %s + SIGKILL the file reopened %s differs from the state at the %s"
                           % (end, label, end), inp, {"differences(a=recorded,b=reopened)": d,
                                                      "entities_recorded": len(want),
                                                      "entities_reopened": len(o.get("walk") or [])},
                           "identical canonical walk", site)
    return None


# ---------------------------------------------------------------------------------------
# model events for a chain


def model_events(rng, chain, recs):
    """the chain as events of the Lean model; returns (events, expect) where expect lists, per output index,
    what the implementation showed"""
    evs = [["reset"]]
    expect = [("ok", None, "reset")]
    if chain["gens"] and chain["gens"][0].get("fapl"):
        # probe: the model's open path under the lower bound the child put on the property list
        evs.append(["cfg", chain["gens"][0]["fapl"][0], True, True])
        expect.append(("ok", None, "cfg"))
    store = {}          # the model's idea of the file content (mirror kept only to compute put/del events)
    exists = False
    keys = []

    def add(e, exp, what):
        evs.append(e)
        expect.append((exp[0], exp[1], what))

    def wbs():
        for _ in range(rng.choice([0, 1, 1, 2])):
            if keys:
                ks = rng.sample(keys, min(len(keys), rng.choice([1, 2, 5, 20])))
                add(["wb", ks], ("ok", None), "wb")

    for i, (g, rec) in enumerate(zip(chain["gens"], recs)):
        out, obs = rec["out"], rec["obs"]
        mode = g["mode"]
        if out.get("open_error"):
            add(["open", mode], ("err", None), "g%d.open" % i)
            break
        add(["open", mode], ("ok", None), "g%d.open" % i)
        if mode == "w" or not exists:
            cur = {}
        else:
            cur = dict(store)
        exists = True
        if mode == "r":
            # mutating calls of a read-only session are refused (calls that found nothing to do are not calls)
            if any(op and op[0] == "refused" for op in out["ops"]):
                add(["put", "b:\"never\"", "x"], ("err", None), "g%d.ro-write" % i)
        n = len(out["flush_points"])
        for j, flat in enumerate(out["flush_points"]):
            new = dict((k, v) for k, v in flat)
            if mode != "r":
                for k in sorted(set(cur) - set(new)):
                    add(["del", k], ("ok", None), "del")
                    wbs() if rng.random() < 0.1 else None
                for k, v in flat:
                    if cur.get(k) != v:
                        if k not in keys:
                            keys.append(k)
                        add(["put", k, v], ("ok", None), "put")
                        if rng.random() < 0.05:
                            wbs()
                cur = new
            wbs()
            if j < n - 1:
                add(["flush"], ("ok", None), "g%d.flush" % i)
                # transparency of flush observed in the child
                add(["view"], ("view", sorted(out["transparent"]["after"]) if out.get("transparent") and
                               out["transparent"]["phase"] == j else sorted([k, v] for k, v in flat)),
                    "g%d.view-after-flush" % i)
        end = rec["end"]
        endexp = ("err" if out.get("end_error") else "ok", None)
        if end == "flush":
            add(["flush"], endexp, "g%d.end-flush" % i)
        elif end == "flush_flush":
            add(["flush"], endexp, "g%d.end-flush" % i)
            add(["flush"], endexp, "g%d.end-flush" % i)
        elif end == "close":
            add(["close"], endexp, "g%d.end-close" % i)
        elif end in ("exit", "exit_exc"):
            add(["exit"], endexp, "g%d.end-exit" % i)
        wbs()
        add(["kill"], ("ok", None), "kill")
        for m in ("r", "a"):
            o = obs.get(m, {})
            add(["open", m], ("err" if "open_error" in o else "ok", None), "g%d.reopen-%s" % (i, m))
            if "open_error" not in o:
                add(["view"], ("view", sorted(W.flatten(o["walk"]))), "g%d.view-%s" % (i, m))
                add(["close"], ("err" if "close_error" in o else "ok", None), "g%d.reclose-%s" % (i, m))
        store = cur
    return evs, expect


def compare_chain(chain, evs, expect, model):
    """first disagreement between the model's outputs and what the implementation showed (or None)"""
    for idx, (e, (kind, val, what), m) in enumerate(zip(evs, expect, model)):
        if "bad" in m:
            return {"at": what, "event": e, "model": m, "impl": kind}
        if kind == "ok" and "ok" not in m:
            return {"at": what, "event": e, "model": m, "impl": "ok"}
        if kind == "err" and "err" not in m:
            return {"at": what, "event": e, "model": "ok", "impl": "raised/refused"}
        if kind == "view":
            if "ok" not in m:
                return {"at": what, "event": e, "model": m, "impl": "a view of %d entities" % len(val)}
            mv = sorted(m["ok"])
            if mv != val:
                dm, di = dict(map(tuple, mv)), dict(map(tuple, val))
                keys = sorted(k for k in set(dm) | set(di) if dm.get(k) != di.get(k))[:6]
                return {"at": what, "event": e, "differing_keys": keys,
                        "model": {k: dm.get(k) for k in keys}, "impl": {k: di.get(k) for k in keys}}
    return None


# ---------------------------------------------------------------------------------------
# in-process session protocol stream (no kill)


def gen_session_case(rng):
    n = rng.randrange(4, 16)
    evs = []
    keys = []
    is_open = False
    exists = False
    mode = None
    content = set()
    for _ in range(n):
        r = rng.random()
        if not is_open and r < 0.55:
            m = rng.choice(["w", "a", "a", "r"])
            evs.append(["open", m])
            if m == "r" and not exists:
                continue
            if m == "w" or not exists:
                content = set()
            is_open, exists, mode = True, True, m
        elif r < 0.45:
            writable = is_open and mode != "r"
            if content and rng.random() < 0.25:
                k = rng.choice(sorted(content))
                evs.append(["del", k])
                if writable:
                    content.discard(k)
            else:
                k = rng.choice(["k%d" % rng.randrange(6), "ключ", "k k"])
                evs.append(["put", k, rng.choice(["v1", "v2", "значение", ""])])
                if writable:
                    content.add(k)
        elif r < 0.6:
            evs.append(["flush"])
        elif r < 0.72:
            evs.append(["close"])
            is_open = False
        elif r < 0.8:
            evs.append(["exit"])
            is_open = False
        elif r < 0.9:
            evs.append(["view"])
        else:
            evs.append(["is_open"])
    evs.append(["view"])
    return {"kind": "session", "events": evs}


def run_session_impl(ctx, case, tag):
    import nixio as nix
    path = ctx.tmpfile("%s.nix" % tag)
    f = None
    outs = []

    def view():
        return sorted([b.name, b.definition if b.definition is not None else ""] for b in f.blocks)

    try:
        for e in case["events"]:
            op = e[0]
            try:
                if op == "open":
                    if f is not None and f.is_open():
                        outs.append({"bad": "open while open"})
                        continue
                    f = nix.File.open(path, e[1])
                    outs.append({"ok": None})
                elif op == "put":
                    if f is None:
                        raise RuntimeError("no file object")
                    names = [b.name for b in f.blocks]
                    b = f.blocks[e[1]] if e[1] in names else f.create_block(e[1], "t")
                    b.definition = e[2] if e[2] != "" else None
                    outs.append({"ok": None})
                elif op == "del":
                    if f is None:
                        raise RuntimeError("no file object")
                    if e[1] in [b.name for b in f.blocks]:
                        del f.blocks[e[1]]
                    outs.append({"ok": None})
                elif op == "flush":
                    if f is None:
                        raise RuntimeError("no file object")
                    before = view() if f.is_open() else None
                    f.flush()
                    after = view()
                    outs.append({"ok": None} if before == after else {"ok": "flush changed the view"})
                elif op == "close":
                    if f is None:
                        raise RuntimeError("no file object")
                    f.close()
                    outs.append({"ok": None})
                elif op == "exit":
                    if f is None:
                        raise RuntimeError("no file object")
                    f.__exit__(None, None, None)
                    outs.append({"ok": None})
                elif op == "is_open":
                    outs.append({"ok": bool(f is not None and f.is_open())})
                elif op == "view":
                    if f is None:
                        raise RuntimeError("no file object")
                    outs.append({"ok": view()})
                else:
                    outs.append({"bad": "unknown"})
            except Exception as ex:
                outs.append({"err": "RuntimeError" if isinstance(ex, RuntimeError) else type(ex).__name__})
    finally:
        try:
            if f is not None and f.is_open():
                f.close()
        except Exception:
            pass
        try:
            os.unlink(path)
        except OSError:
            pass
    return outs


def session_same(e, m, i):
    op = e[0]
    if op in ("flush", "close", "exit"):
        return m == i                     # ok, or RuntimeError on a closed file (class compared)
    if op == "open":
        return ("ok" in m) == ("ok" in i) and (("err" not in m) or m == i)
    if op in ("put", "del", "view") and "err" in m:
        return "err" in i                 # refused; h5py's error class varies
    if op == "view" and "ok" in m and "ok" in i:
        return sorted(m["ok"]) == i["ok"]
    return m == i


# ---------------------------------------------------------------------------------------
# File.__init__'s decision table on the implementation


def open_decisions_impl(ctx):
    """for every (state of the path, mode): what File.open does - which of h5py.h5f.create / h5py.h5f.open it
    reaches, with which access flag, and the mode the File object reports; or the class of the refusal.
    Returns [(path state, mode, ("ok", "create"|"open", "ACC_*", self.mode) | ("err", class name))]"""
    import h5py
    import nixio as nix
    out = []
    flagname = {h5py.h5f.ACC_RDONLY: "ACC_RDONLY", h5py.h5f.ACC_RDWR: "ACC_RDWR", h5py.h5f.ACC_TRUNC: "ACC_TRUNC"}
    real_create, real_open = h5py.h5f.create, h5py.h5f.open
    for ps in ("missing", "empty", "file"):
        for m in ("r", "a", "w"):
            path = ctx.tmpfile("decide-%s-%s.nix" % (ps, m))
            if os.path.exists(path):
                os.unlink(path)
            if ps == "empty":
                open(path, "w").close()
            elif ps == "file":
                nix.File.open(path, "w").close()
            seen = []

            def spy_create(name, flags=h5py.h5f.ACC_EXCL, *a, **k):
                seen.append(("create", flagname.get(flags, str(flags))))
                return real_create(name, flags, *a, **k)

            def spy_open(name, flags=h5py.h5f.ACC_RDWR, *a, **k):
                seen.append(("open", flagname.get(flags, str(flags))))
                return real_open(name, flags, *a, **k)

            h5py.h5f.create, h5py.h5f.open = spy_create, spy_open
            f = None
            try:
                f = nix.File.open(path, m)
                res = ("ok", seen[0][0], seen[0][1], f.mode) if len(seen) == 1 else ("err", "calls:%r" % (seen,))
            except Exception as e:
                res = ("err", type(e).__name__)
            finally:
                h5py.h5f.create, h5py.h5f.open = real_create, real_open
                try:
                    if f is not None:
                        f.close()
                except Exception:
                    pass
                try:
                    os.unlink(path)
                except OSError:
                    pass
            out.append((ps, m, list(res)))
    return out


# ---------------------------------------------------------------------------------------
# correspondence


def _tally(dist, recs, chain):
    for g, rec in zip(chain["gens"], recs):
        dist["ends"][rec["end"]] = dist["ends"].get(rec["end"], 0) + 1
        dist["modes"][g["mode"]] = dist["modes"].get(g["mode"], 0) + 1
        for pr in (g.get("profiles") or ["mixed"] * len(g["phases"])):
            dist["profiles"][pr] = dist["profiles"].get(pr, 0) + 1
        if g.get("multi"):
            m = g["multi"]
            key = "%s+%s open2@%s/%d writes-via-second=%s end=%s-via-%s%s%s" % (
                g["mode"], m["mode2"], m["open2"], len(g["phases"]), "second" in m.get("via", []), rec["end"],
                m.get("end_via"), " close2@%s" % m["close2_at"] if "close2_at" in m else "",
                " (second open refused)" if rec["out"].get("open2_error") else "")
            dist.setdefault("two_file_objects", {})
            dist["two_file_objects"][key] = dist["two_file_objects"].get(key, 0) + 1
        fc = "%s/%s" % (g.get("compression"), g["mode"])
        dist["file_compression_by_mode"][fc] = dist["file_compression_by_mode"].get(fc, 0) + 1
        for op in rec["out"]["ops"]:
            if op[0] == "create_block":
                dist["block_compression"][op[2]] = dist["block_compression"].get(op[2], 0) + 1
        for op in rec["out"]["ops"]:
            nm = op[0] if op[0] != "refused" else "refused:" + op[1]
            dist["ops"][nm] = dist["ops"].get(nm, 0) + 1
            if op[0] == "append":
                dist["append_rounds"] += op[4]
        for r in rec["out"]["final_walk"] or []:
            dist["entities"][r["kind"]] = dist["entities"].get(r["kind"], 0) + 1
            if r["kind"] == "data_array":
                st = r.get("storage") or {}
                c = "gzip" if st.get("compression") else "uncompressed"
                dist["arrays"][c] = dist["arrays"].get(c, 0) + 1
                shp = r.get("shape")
                if isinstance(shp, list):
                    n = 1
                    for s in shp:
                        n *= s
                    dist["max_array_elements"] = max(dist["max_array_elements"], n)


def correspondence(ctx):
    rng = ctx.rng
    quick = ctx.quick()
    corpus = [c for c in core.load_corpus(PROP)]
    chains = [c for c in corpus if c.get("kind") == "chain"]
    sessions = [c for c in corpus if c.get("kind") == "session"]
    changed = anchors_changed()
    target_kills = ctx.budget(60 if changed else 20, 170)
    kills = sum(len(c["gens"]) for c in chains)
    strata = list(STRATA)
    rng.shuffle(strata)
    while kills < target_kills or strata:
        c = gen_chain(rng, quick, stratum=strata.pop() if strata else None,
                      n_gens=rng.choice([1, 2, 2, 3]) if strata else None)
        chains.append(c)
        kills += len(c["gens"])
    # every single-kind profile between two flush points of one writer (and, thorough, of a re-opening writer)
    profs = list(SPECIAL_PROFILES)
    rng.shuffle(profs)
    for pr in profs:
        chains.append(gen_profile_chain(rng, pr, quick))
    for pr in profs[:ctx.budget(1, 4)]:
        chains.append(gen_profile_chain(rng, pr, quick, reopen=True))
    for _ in range(ctx.budget(0, 12)):
        chains.append(gen_profile_chain(rng, rng.choice(profs), quick, reopen=rng.random() < 0.3))
    # a path that already holds a file, taken over with Overwrite, flushed (not closed) and killed
    for _ in range(ctx.budget(1, 6)):
        chains.append(gen_overwrite_chain(rng, quick))
    # two File objects on the path in one writer process (for the model: one session - a flush / close through
    # either object is a flush / close of the file)
    for j in range(ctx.budget(2, 12)):
        chains.append(gen_multi_chain(rng, quick, shape=[None, "close_writer", "flush_other"][j % 3]))
    # probes of the open-path model (library-version bounds on the property list): model vs libhdf5 only, the
    # property oracle does not look at them
    chains.extend(gen_fapl_probes(rng, ctx.budget(5, 10 ** 6)))
    for _ in range(ctx.budget(150, 2000)):
        sessions.append(gen_session_case(rng))
    # File.__init__'s decision for every (state of the path, mode), on the implementation
    decisions = open_decisions_impl(ctx)

    # ---- kill chains (parallel child processes)
    allrecs = _pmap(lambda ic: run_chain(ctx, ic[1], "corr%d" % ic[0]), list(enumerate(chains)))
    cases = []
    spans = []
    for chain, recs in zip(chains, allrecs):
        evs, expect = model_events(rng, chain, recs)
        spans.append((len(cases), len(evs), evs, expect))
        cases.extend(evs)
    # ---- session stream
    sspans = []
    for s in sessions:
        sspans.append((len(cases) + 1, len(s["events"])))
        cases.append(["reset"])
        cases.extend(s["events"])
    dspan = len(cases)
    for ps, m, _ in decisions:
        cases.append(["decide", ps, m])
    model = core.run_driver(PROP, cases)

    disagreements = []
    dist = {"profiles": {}, "fapl_probes": {}, "open_decisions": {},
            "file_compression_by_mode": {}, "block_compression": {}, "ends": {}, "modes": {}, "ops": {}, "entities": {}, "arrays": {}, "append_rounds": 0,
            "max_array_elements": 0, "session_events": {}, "session_impl_errors": 0}
    seen = set()
    samples = []
    n_kills = 0
    nonstable = 0
    for chain, recs, (lo, n, evs, expect) in zip(chains, allrecs, spans):
        _tally(dist, recs, chain)
        n_kills += len(recs)
        for rec in recs:
            if rec["out"].get("final_walk") is not None:
                seen.add(core.sha(core.canon(W.flatten(rec["out"]["final_walk"]))))
            if rec["out"].get("stable_walk") is False:
                nonstable += 1
        d = compare_chain(chain, evs, expect, model[lo:lo + n])
        if d is not None:
            disagreements.append(Disagreement(chain, {"at": d["at"], "event": d["event"][:2], "model": d["model"]},
                                              {"impl": d["impl"], "keys": d.get("differing_keys")}))
        if len(samples) < 3:
            samples.append({"case": chain, "model": "%d events; final view of %d entities agrees=%s"
                            % (n, len(recs[-1]["out"]["final_walk"] or []), d is None)})
    for k, (s, (lo, n)) in enumerate(zip(sessions, sspans)):
        impl = run_session_impl(ctx, s, "sess%d" % k)
        mod = model[lo:lo + n]
        for e, m, i in zip(s["events"], mod, impl):
            dist["session_events"][e[0]] = dist["session_events"].get(e[0], 0) + 1
            if "err" in i:
                dist["session_impl_errors"] += 1
            if "bad" in i:
                continue
            if not session_same(e, m, i):
                disagreements.append(Disagreement(s, {"event": e, "model": m}, {"impl": i}))
                break
        seen.add(core.sha(core.canon(s["events"])))
        if k < 3:
            samples.append({"case": s, "model": mod})
    for (ps, m, impl), mod in zip(decisions, model[dspan:dspan + len(decisions)]):
        dist["open_decisions"]["%s/%s" % (ps, m)] = impl
        want = {"ok": impl[1:]} if impl[0] == "ok" else {"err": impl[1]}
        if mod != want:
            disagreements.append(Disagreement({"kind": "decide", "path": ps, "mode": m}, {"model": mod},
                                              {"impl": want}))
    for chain, recs in zip(chains, allrecs):
        if chain.get("kind") == "fapl":
            g = chain["gens"][0]
            o = (recs[-1]["obs"] or {}).get("r", {}) if recs else {}
            key = "%s..%s/%s" % (g["fapl"][0], g["fapl"][1], "+".join(
                "%s:%s" % (x["mode"], x["end"]) for x in chain["gens"]))
            dist["fapl_probes"][key] = "refused" if "open_error" in o else "opens"
    dist["walks_not_stable_in_process"] = nonstable
    dist["anchors_changed"] = changed
    ctx.c17_recs = [(c, r) for c, r in zip(chains, allrecs) if c.get("kind") != "fapl"]
    return {"evaluations": n_kills + len(sessions), "distinct_nontrivial": len(seen),
            "rule": "kill chains: %d writer processes in %d chains (each: seeded history over all entity kinds, "
                    "walk recorded at every flush point, flush/close/with-exit, SIGKILL, reopen r + a in a fresh "
                    "process), model fed the put/del differences between flush points plus random write-back "
                    "events (incl. chains with a phase of a single kind of write - overwrites in place, small appends, deletions, appends, attributes "
                    "- between two flush points, and %d probes of the open-path model: writers whose property list "
                    "carries library-version bounds, model vs libhdf5); File.__init__'s decision for every "
                    "(path state, mode) with the h5py call and flag it reaches; session stream: %d in-process call "
                    "sequences over open/put/del/flush/close/exit. "
                    "non-trivial = distinct final file states (hash of the flattened walk) + distinct session "
                    "sequences" % (n_kills, len(chains), sum(1 for c in chains if c.get("kind") == "fapl"),
                                   len(sessions)),
            "samples": samples, "distribution": dist, "disagreements": disagreements, "exhaustive": False,
            "kills": n_kills}


# ---------------------------------------------------------------------------------------
# oracle


def negative_control(ctx, chains):
    """the same histories killed WITHOUT flush: how often is that detectable (different / unreadable)?"""
    def one(ic):
        i, chain = ic
        tag = "neg%d" % i
        path = ctx.tmpfile("%s.nix" % tag)
        out = ctx.tmpfile("%s.out.json" % tag)
        g = chain["gens"][0]
        spec = {"file": path, "mode": "w", "seed": gen_seed(chain, 0), "phases": g["phases"], "end": "none",
                "out": out, "big": g.get("big", True), "kill": True, "compression": g.get("compression"),
                "profiles": g.get("profiles")}
        rc, err = _run_py(ctx, spec, tag)
        o = _load(out)
        if o is None or rc != -9:
            return None
        obs = observe(ctx, path, tag, modes=("r",))
        try:
            os.unlink(path)
        except OSError:
            pass
        r = obs.get("r", {})
        if "open_error" in r:
            return "unreadable"
        return "identical" if r.get("walk") == o["final_walk"] else "different"
    def late(ic):
        """flush(), then a few more writes of one kind, then the kill: what does the reopened file show?
        (informational: the property promises nothing here and nothing is asserted)"""
        i, chain = ic
        tag = "late%d" % i
        path = ctx.tmpfile("%s.nix" % tag)
        out = ctx.tmpfile("%s.out.json" % tag)
        g = chain["gens"][0]
        prof = (["mixed"] + SPECIAL_PROFILES)[i % (1 + len(SPECIAL_PROFILES))]
        spec = {"file": path, "mode": "w", "seed": gen_seed(chain, 0), "phases": g["phases"][:1], "end": "late",
                "late_profile": prof, "late_ops": 5, "out": out, "big": False, "kill": True,
                "compression": g.get("compression")}
        rc, err = _run_py(ctx, spec, tag)
        o = _load(out)
        if o is None or rc != -9 or o.get("end_error"):
            return None
        obs = observe(ctx, path, tag, modes=("r",))
        try:
            os.unlink(path)
        except OSError:
            pass
        r = obs.get("r", {})
        if o.get("late_walk") == o["flush_points"][-1]:
            what = "late-writes-changed-nothing"
        elif "open_error" in r:
            what = "unreadable"
        elif r.get("walk") == o["final_walk"]:
            what = "state-at-flush"
        elif W.flatten(r.get("walk") or []) == o.get("late_walk"):
            what = "state-with-late-writes"
        else:
            what = "neither(mixture-or-damaged)"
        return "%s:%s" % (prof, what)
    res = [r for r in _pmap(one, list(enumerate(chains))) if r is not None]
    lres = [r for r in _pmap(late, list(enumerate(chains))) if r is not None]
    return {"runs": len(res), "unreadable": res.count("unreadable"), "different": res.count("different"),
            "identical": res.count("identical"),
            "detected_rate": (res.count("unreadable") + res.count("different")) / float(len(res)) if res else None,
            "kill_after_unflushed_later_writes(informational,nothing asserted)":
                dict((k, lres.count(k)) for k in sorted(set(lres)))}


def oracle(ctx, broken, hints):
    rng = ctx.rng
    quick = ctx.quick()
    failures = []
    evaluations = 0
    # 0. what the correspondence already observed is evidence about the implementation too
    for chain, recs in getattr(ctx, "c17_recs", []):
        for i, rec in enumerate(recs):
            evaluations += 1
            f = check_generation(chain, i, rec)
            if f is not None:
                failures.append(f)
                break
    # 1. hints (disagreeing chains), corpus, then seeded kills of its own
    chains = [h for h in hints if isinstance(h, dict) and h.get("kind") == "chain"][:10]
    seen = set(core.canon(c) for c, _ in getattr(ctx, "c17_recs", []))
    chains = [c for c in chains if core.canon(c) not in seen]
    n_own = 40 if (broken and quick) else ctx.budget(8, 60)
    if broken and not quick:
        n_own = 150
    kills = 0
    own = []
    # two File objects on one path in the writer (every run: writes through a second read-write object that is
    # closed while the first stays open; end flush on a read-only / read-write object the writes did not go through)
    # and end calls under a file-size limit
    own.append(gen_multi_chain(rng, quick, "close_writer"))
    own.append(gen_multi_chain(rng, quick, "flush_other", mode2="r"))
    own.append(gen_multi_chain(rng, quick, "flush_other", mode2="a"))
    for _ in range(10 if broken else ctx.budget(1, 8)):
        own.append(gen_multi_chain(rng, quick))
    for _ in range(12 if broken else ctx.budget(4, 16)):
        own.append(gen_fault_chain(rng, quick))
    n_pre = len(own)
    n_own += sum(len(c["gens"]) for c in own)
    kills = sum(len(c["gens"]) for c in own)
    while kills < n_own:
        i = len(own) - n_pre
        if i % 6 == 5:
            c = gen_overwrite_chain(rng, quick)
        elif i % 2 == 1:
            # a phase of one kind of write (overwrites / small appends / deletions / appends / attributes) between two flush points
            c = gen_profile_chain(rng, SPECIAL_PROFILES[(i // 2) % len(SPECIAL_PROFILES)], quick,
                                  reopen=(i % 10 == 9))
        else:
            c = gen_chain(rng, quick, n_gens=rng.choice([1, 1, 2]),
                          stratum=(FILE_COMPRESSIONS[(i // 2) % 3],
                                   rng.choice(["flush", "flush", "close", "flush_flush"])))
        own.append(c)
        kills += len(c["gens"])
    chains += own
    fault_stat = {}
    if not failures or broken:
        allrecs = _pmap(lambda ic: run_chain(ctx, ic[1], "orc%d" % ic[0]), list(enumerate(chains)))
        for chain, recs in zip(chains, allrecs):
            for i, rec in enumerate(recs):
                if rec["spec"].get("fsize"):
                    o = rec["out"]
                    k = "%s:%s" % (rec["end"], "raised(no promise) " + o["end_error"] if o.get("end_error") else
                                   "no-walkable-state(no promise)" if o.get("final_walk") is None else
                                   "returned(checked)")
                    fault_stat[k] = fault_stat.get(k, 0) + 1
                evaluations += 1
                f = check_generation(chain, i, rec)
                if f is not None:
                    failures.append(f)
                    break
    # 2. self-test of the oracle: the same histories killed without a flush must be detectable sometimes
    neg = negative_control(ctx, own[n_pre:][:ctx.budget(4, 24)])
    failures.sort(key=lambda f: (len(f.input["gens"]), sum(sum(g["phases"]) for g in f.input["gens"])))
    return {"evaluations": evaluations, "failures": failures, "negative_control": neg,
            "own_kills": kills, "end_calls_under_size_limit": fault_stat}


def matches_known(entry, failure):
    return False


def replay_failure(ctx, fj):
    chain = fj["input"]
    recs = run_chain(ctx, chain, "replay")
    for i, rec in enumerate(recs):
        f = check_generation(chain, i, rec)
        if f is not None:
            return f
    return None


READY = True
MANIFEST = {
    "level_text": "Kernel-checked protocol theorems over a two-level disk/cache model of nixio.File with "
                  "nondeterministic library write-back, whose flush/close/__exit__ bodies, File.__init__ decision "
                  "table, mode -> access-flag map and make_fapl() calls are regenerated from file.py on every run: "
                  "any body that flushes before it closes is durable against SIGKILL after every history and "
                  "every write-back behaviour (induction over bodies, tails and chains of writer processes); "
                  "nothing flushed is lost over any number of kill/reopen cycles; with the open path as coded "
                  "(file created at the named path, no library-version bound that makes libhdf5 mark the file "
                  "persistently as open for write) the reopen after the kill is not refused (refinement theorem), "
                  "and either condition dropped loses the flushed state in the model; with several File objects on the "
                  "path in one process (one shared library file, Pure/FlushMulti.lean) flush() or close() through any "
                  "of them, others staying open, is durable after every quiet tail, and a close that releases its "
                  "object without the flush, or a flush that does not reach H5Fflush, loses. The part that is runtime "
                  "truth (libhdf5's H5Fflush, the OS page cache, the superblock mark) is validated "
                  "differentially: seeded child processes run generated histories on real HDF5 files, "
                  "flush/close, SIGKILL themselves, and the reopened file (read-only and read-write) is compared "
                  "with the walk recorded at the flush and with the model; writer processes with two File objects on "
                  "the path (rw+rw, rw+ro; operations, flush points and the end call through either) and end calls "
                  "issued under a file-size limit (a call that returns has promised, one that raises has not) are "
                  "part of every run.",
    "level_note": "Partial by nature: the theorems fix the protocol (flush reaches h5py File.flush on the file "
                  "object; close flushes before the h5py close; with-exit closes; the file is created/opened at "
                  "the named path with a non-locking property list); that H5Fflush + the OS make the bytes "
                  "durable is exercised, not proved. After a flush followed by further writes the property "
                  "promises nothing and nothing is claimed (the model loses such writes: C17_unflushed_can_lose). "
                  "That libhdf5 shares one file structure between File objects of a process is an assumption of the "
                  "multi-object model, exercised only; a failing H5Fflush is not modelled (size-limit runs are oracle "
                  "only). "
                  "Trusted: Lean kernel, the two file.py translators, the canonical walk, the child-process harness.",
    "technique": "Lean 4 proof (invariants + induction over statement bodies, event tails and session chains; "
                 "refinement between the model with and without the open path; decidable shape predicates and a "
                 "symbolically executed decision table on regenerated definitions) with child-process kill "
                 "correspondence",
}
