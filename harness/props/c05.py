"""C05 — links are aliases of the original entity, never copies, and stay in their block.

Structural (HDF5 graph) model + dimension links (lean/NixModel/Pure/DimLink.lean).
Correspondence: adaptive seeded histories over two to three blocks with deliberately equal names;
every mutation goes through a randomly chosen access path and is read back through all of them.
Oracle: the property stated on the implementation alone (own bookkeeping of what was linked where).
"""
import contextlib
import io
import os
import random
from fractions import Fraction

import numpy as np
import nixio
from nixio.dimensions import RangeDimension, SetDimension, SampledDimension

from ..lib import core, storegen
from ..lib.storeimpl import Impl, BadOp, ROLES, err_name
from ..lib.core import Failure, Disagreement

PROP = "C05"
LEAN_MODULE = "NixModel.Props.C05"
THEOREMS = [
    "Nix.C05.alias_read",
    "Nix.C05.alias_write_visible",
    "Nix.C05.alias_write_frame",
    "Nix.C05.alias_data_write_visible",
    "Nix.C05.alias_paths_stable",
    "Nix.C05.alias_reopen",
    "Nix.C05.append_links_target_itself",
    "Nix.C05.append_effect",
    "Nix.C05.accept_iff_same_block",
    "Nix.C05.accept_source_iff_in_tree",
    "Nix.C05.accept_role_iff_same_block",
    "Nix.C05.role_links_target_itself",
    "Nix.C05.accept_feature_data_iff_same_block",
    "Nix.C05.refused_unchanged",
    "Nix.C05.linked_ticks_current_data",
    "Nix.C05.linked_ticks_follow_writes",
    "Nix.C05.linked_labels_current_data",
    "Nix.C05.linked_unit_label",
    "Nix.C05.linked_unit_label_follow_writes",
    "Nix.C05.select_vector_spec",
    "Nix.C05.link_replaces_ticks",
    "Nix.C05.ticks_replace_link",
    "Nix.C05.link_index_checked",
    "Nix.C05.ticks_link_exclusive",
    "Nix.C05.ticks_link_exclusive_invariant",
    "Nix.C05.ticks_link_exclusive_init",
]
ASSUMPTIONS = [
    "HDF5 hard links are second names of one object (modelled: a link stores the target node's key); h5py object "
    "equality (`group == group`) is identity of the HDF5 object",
    "uuid4 ids are drawn from an abstract fresh supply; no id-keeping copies inside the modelled histories (the "
    "copy cases are checked by the implementation-side oracle only)",
    "array content is the exact rational value of the stored doubles; NumPy basic indexing with integers and one "
    "full slice is modelled by row-major offset arithmetic (Pure/DimLink.lean selectVector)",
    "links of a dimension to a DataFrame column, the pre-1.5 alias-range layout and polynomial calibration are "
    "outside the model (DimensionLink reads the stored values)",
]
TRUSTED_EXTRA = ["harness/lib/storeimpl.py + storegen.py + harness/props/c05.py Impl5 (path addressing by iteration, "
                 "access through a dimension link via DimensionLink._linked_group)"]
READY = True
MANIFEST = {
    "level_text": "Kernel-checked theorems over the Lean model of the HDF5 object graph, nixio's link containers / role "
                  "links and dimension links: two paths to one node read the same attributes and data in every graph, a "
                  "write through one path is visible through every other and after reopen, append links the target node "
                  "itself (entries = old entries without that id ++ [new]); append / positions / extents / feature data "
                  "succeed iff the item has the right kind and is the object stored under its name in the owning block "
                  "(sources: its id occurs in the block's source tree), otherwise the graph is unchanged; a linked "
                  "range/set dimension reads the selected vector of the array's current data and the array's unit/label, "
                  "explicit ticks and a link exclude each other after every dimension operation. Tied to the code by "
                  "differential execution of seeded histories on real HDF5 files (2-3 blocks with equal names, every "
                  "mutation through a random path, read back through all paths, HDF5-level dumps) and an "
                  "implementation-side oracle including id-keeping block copies.",
    "level_note": "Partial aspects: the invariant 'no range dimension has both ticks and a link' is proved to hold initially "
                  "and to be kept (for all descriptors of the file) by set-ticks, link_data_array, remove_link, set-labels, unit/label "
                  "writes and data writes; the lift to arbitrary histories (Nix.C05.ExclusiveInvariant, kept as a statement) also needs "
                  "frame facts about append_*_dimension and the structural operations, which are only checked by the "
                  "correspondence. append_effect / linked-dimension theorems assume the fresh-key condition of the graph "
                  "(node? nextKey = none; C03's reachable_wf provides it for reachable graphs). DataFrame-column links, "
                  "the legacy alias layout and calibration are not modelled. Trusted: Lean kernel, standard axioms, the "
                  "correspondence harness, h5py/HDF5 hard-link semantics.",
}

DIMKIND = {RangeDimension: "dim_range", SetDimension: "dim_set", SampledDimension: "dim_sample"}


def fr(x):
    f = Fraction(float(x))
    return "%d/%d" % (f.numerator, f.denominator)


def unfr(s):
    return float(Fraction(s))


# ---------------------------------------------------------------------------------------
# implementation runner: the store protocol + arrays with content + dimensions


class Impl5(Impl):
    def nav(self, path):
        cur = self.f
        i = 0
        while i < len(path):
            seg = path[i]
            if isinstance(cur, nixio.DataArray) and seg == "dimensions":
                if i + 1 >= len(path):
                    raise BadOp("path ends in a container")
                idx = int(path[i + 1])
                dims = cur.dimensions
                if idx < 1 or idx > len(dims):
                    raise BadOp("no dimension %d" % idx)
                dim = dims[idx - 1]
                i += 2
                if i >= len(path):
                    return dim
                if path[i] != "link" or i + 1 >= len(path) or path[i + 1] != 0:
                    raise BadOp("bad dimension path")
                dl = dim.dimension_link
                if dl is None:
                    raise BadOp("no link")
                try:
                    grp = dl._linked_group()
                except Exception:
                    raise BadOp("dangling link")
                cur = nixio.DataArray(self.f, cur._parent, grp)
                i += 2
                continue
            if not isinstance(cur, nixio.File) and seg in ROLES:
                try:
                    cur = getattr(cur, seg)
                except RuntimeError:
                    raise BadOp("role %s dangling" % seg)
                if cur is None:
                    raise BadOp("role %s not set" % seg)
                i += 1
                continue
            cont = self.container(cur, seg)
            if i + 1 >= len(path):
                raise BadOp("path ends in a container")
            sel = path[i + 1]
            if isinstance(sel, int):
                try:
                    cur = cont[sel]
                except (IndexError, KeyError):
                    raise BadOp("no item at position %d" % sel)
            else:
                found = None
                for e in cont:
                    if getattr(e, "name", None) == sel:
                        found = e
                        break
                if found is None:
                    raise BadOp("no item named %r" % sel)
                cur = found
            i += 2
        return cur

    def array(self, path):
        a = self.nav(path)
        if not isinstance(a, nixio.DataArray):
            raise AttributeError("not a DataArray")
        return a

    def dim(self, path, i):
        a = self.array(path)
        dims = a.dimensions
        if i < 1 or i > len(dims):
            raise IndexError("no such dimension")
        return dims[i - 1]

    def read_entity(self, e):
        data = None
        if isinstance(e, nixio.DataArray):
            arr = np.array(e._h5group.get_data("data"))
            data = {"shape": [int(n) for n in arr.shape], "vals": [fr(v) for v in arr.reshape(-1)]}

        def sattr(a):
            if isinstance(e, nixio.Feature):
                return None
            if a in ("unit", "label") and not isinstance(e, (nixio.DataArray, nixio.Property)):
                return None
            v = getattr(e, a, None)
            return v if (v is None or isinstance(v, str)) else str(v)

        return {"ident": self.ident(e), "type": sattr("type"), "definition": sattr("definition"),
                "unit": sattr("unit"), "label": sattr("label"), "data": data}

    def read_dim(self, dim):
        kind = DIMKIND[type(dim)]
        dl = dim.dimension_link
        dangling = dl is not None and len(dl._h5group) == 0

        def field(fn):
            try:
                return fn()
            except Exception as e:  # canonicalised by class; a dangling link is one class whatever h5py raises
                return {"err": "RuntimeError" if dangling else err_name(e)}

        def labels():
            ls = dim.labels
            if dim.has_link:
                return {"nums": [fr(v) for v in ls]}
            return {"strs": [str(v) for v in ls]}

        target = None
        if dl is not None:
            if dangling:
                target = "dangling"
            else:
                target = self.ident(nixio.DataArray(self.f, dim._parent._parent, dl._linked_group()))
        return {
            "kind": kind,
            "has_link": bool(dim.has_link),
            "is_alias": bool(dim.is_alias) if kind == "dim_range" else None,
            "ticks": field(lambda: [fr(v) for v in dim.ticks]) if kind == "dim_range" else None,
            "labels": field(labels) if kind == "dim_set" else None,
            "unit": None if kind == "dim_set" else field(lambda: dim.unit),
            "label": field(lambda: dim.label),
            "link_id": self.cid(dl.id) if dl is not None else None,
            "index": [int(x) for x in dl.index] if dl is not None else None,
            "target": target,
        }

    def _run(self, op):
        kind = op[0]
        if kind == "create_da":
            owner = self.nav(op[1])
            if not isinstance(owner, nixio.Block):
                raise AttributeError("create_data_array")
            vals = np.array([unfr(v) for v in op[5]], dtype=float).reshape(tuple(op[4]))
            owner.create_data_array(self.name_arg(op[2]), op[3], data=vals)
            return None
        if kind == "da_write":
            a = self.array(op[1])
            a.write_direct(np.array([unfr(v) for v in op[2]], dtype=float).reshape(a.shape))
            return None
        if kind == "read":
            return self.read_entity(self.nav(op[1]))
        if kind == "dim_append":
            a = self.array(op[1])
            spec = op[2]
            if spec["kind"] == "set":
                a.append_set_dimension(spec.get("labels"))
            elif spec["kind"] == "sampled":
                a.append_sampled_dimension(1.0)
            else:
                ticks = spec.get("ticks")
                a.append_range_dimension([unfr(t) for t in ticks] if ticks is not None else None,
                                         spec.get("label"), spec.get("unit"))
            return None
        if kind == "dim_link":
            dim = self.dim(op[1], op[2])
            dim.link_data_array(self.nav(op[3]), list(op[4]))
            return None
        if kind == "dim_unlink":
            self.dim(op[1], op[2]).remove_link()
            return None
        if kind == "dim_set_ticks":
            dim = self.dim(op[1], op[2])
            if not isinstance(dim, RangeDimension):
                raise AttributeError("ticks")
            dim.ticks = [unfr(t) for t in op[3]]
            return None
        if kind == "dim_set_labels":
            dim = self.dim(op[1], op[2])
            if not isinstance(dim, SetDimension):
                raise AttributeError("labels")
            dim.labels = list(op[3])
            return None
        if kind == "dim_set_attr":
            dim = self.dim(op[1], op[2])
            if op[3] not in ("unit", "label") or not isinstance(getattr(type(dim), op[3], None), property):
                raise AttributeError(op[3])
            dl = dim.dimension_link
            if isinstance(dim, RangeDimension) and dl is not None and len(dl._h5group) == 0:
                raise RuntimeError("dangling dimension link")       # h5py raises assorted classes here
            setattr(dim, op[3], op[4])
            return None
        if kind == "dim_read":
            try:
                dim = self.dim(op[1], op[2])
            except (IndexError, AttributeError):
                raise BadOp("no such dimension")
            return self.read_dim(dim)
        if kind == "dim_count":
            try:
                return len(self.array(op[1]).dimensions)
            except AttributeError:
                raise BadOp("no such array")
        return Impl._run(self, op)


# ---------------------------------------------------------------------------------------
# generator: histories in lockstep with the real file

BLOCKS = ["b1", "b2", "b3"]
ARR_NAMES = ["x", "y", "pos", "ext", "é"]
SHAPES = [[2], [3], [4], [2, 3], [3, 2], [2, 2], [2, 2, 3], [1, 3], [3, 1, 2]]
STRS = [None, "x", "mV", "s", "é", "label two"]
UNITS = [None, "mV", "s", "x", "kg"]       # fixed points of the unit sanitizer
LINK_LISTS = [("groups", "data_arrays", "data_array"), ("groups", "tags", "tag"), ("groups", "multi_tags", "multi_tag"),
              ("groups", "sources", "source"), ("tags", "references", "data_array"),
              ("multi_tags", "references", "data_array"), ("tags", "sources", "source"),
              ("multi_tags", "sources", "source"), ("data_arrays", "sources", "source")]
STORE_OF = {"data_array": "data_arrays", "tag": "tags", "multi_tag": "multi_tags", "group": "groups"}


class Known:
    """one owned entity: kind, block, every access path currently leading to it"""

    def __init__(self, kind, block, path, name):
        self.kind, self.block, self.name = kind, block, name
        self.paths = [path]


def survey(impl):
    """walks the file through the public API: owned entities by id, with all alias paths"""
    f = impl.f
    ents = {}

    def reg(e, kind, block, path):
        ents[e.id] = Known(kind, block, path, e.name)

    def alias(e, path):
        k = ents.get(e.id)
        if k is not None:
            k.paths.append(path)

    def sources(owner, path, block):
        for s in owner.sources:
            p = path + ["sources", s.name]
            reg(s, "source", block, p)
            sources(s, p, block)

    def sections(owner, path, cname):
        for s in owner.sections:
            p = path + [cname, s.name]
            reg(s, "section", None, p)
            sections(s, p, "sections")

    sections(f, [], "metadata")
    for b in f.blocks:
        bp = ["data", b.name]
        reg(b, "block", b.name, bp)
        for cname, kind in (("data_arrays", "data_array"), ("tags", "tag"), ("multi_tags", "multi_tag"),
                            ("groups", "group")):
            for e in getattr(b, cname):
                reg(e, kind, b.name, bp + [cname, e.name])
        sources(b, bp, b.name)
    dims = []          # (array path, i, kind, target id or None)
    feats = []         # (feature path, block)
    for b in f.blocks:
        bp = ["data", b.name]

        def lists(owner, op, names):
            for cname in names:
                for i, e in enumerate(getattr(owner, cname)):
                    alias(e, op + [cname, i])

        def meta(owner, op):
            try:
                m = owner.metadata
            except Exception:
                m = None
            if m is not None:
                alias(m, op + ["metadata"])

        meta(b, bp)
        for g in b.groups:
            gp = bp + ["groups", g.name]
            lists(g, gp, ("data_arrays", "tags", "multi_tags", "sources"))
            meta(g, gp)
        for cname in ("tags", "multi_tags"):
            for t in getattr(b, cname):
                tp = bp + [cname, t.name]
                lists(t, tp, ("references", "sources"))
                meta(t, tp)
                for i, ft in enumerate(t.features):
                    feats.append((tp + ["features", i], b.name))
                    try:
                        alias(ft.data, tp + ["features", i, "data"])
                    except Exception:
                        pass
                if cname == "multi_tags":
                    for role in ("positions", "extents"):
                        try:
                            r = getattr(t, role)
                        except Exception:
                            r = None
                        if r is not None:
                            alias(r, tp + [role])
        for a in b.data_arrays:
            ap = bp + ["data_arrays", a.name]
            lists(a, ap, ("sources",))
            meta(a, ap)
            for i, d in enumerate(a.dimensions):
                tid = None
                dl = d.dimension_link
                if dl is not None and len(dl._h5group):
                    tid = dl._linked_group().get_attr("entity_id")
                    if tid in ents:
                        ents[tid].paths.append(ap + ["dimensions", str(i + 1), "link", 0])
                dims.append((ap, i + 1, DIMKIND[type(d)], tid))
    return ents, dims, feats


class Gen5:
    def __init__(self, rng, impl, profile):
        self.rng, self.impl, self.profile = rng, impl, profile
        self.ops, self.outs = [], []
        self.tags = {}

    def do(self, op, tag=None):
        out = self.impl.run(op)
        self.ops.append(op)
        self.outs.append(out)
        if tag:
            key = tag + ("/refused" if "err" in out else "/ok" if "ok" in out else "/bad")
            self.tags[key] = self.tags.get(key, 0) + 1
        return out

    def vals(self, shape):
        n = int(np.prod(shape))
        return ["%d/%d" % (Fraction(self.rng.randrange(-20, 40), 4).numerator,
                           Fraction(self.rng.randrange(-20, 40), 4).denominator) for _ in range(n)]

    def rvals(self, shape):
        n = int(np.prod(shape))
        out = []
        for _ in range(n):
            q = Fraction(self.rng.randrange(-20, 40), self.rng.choice([1, 2, 4]))
            out.append("%d/%d" % (q.numerator, q.denominator))
        return out

    def setup(self):
        rng = self.rng
        nb = rng.choice([2, 2, 3])
        for b in BLOCKS[:nb]:
            self.do(["create_block", b, "t"])       # blocks first: nixio creates /data before /metadata
        self.do(["create_section", [], "sec", "t"])
        self.do(["create_section", ["metadata", "sec"], "sub", "t"])
        self.do(["create_section", [], "other", "t"])
        for b in BLOCKS[:nb]:
            bp = ["data", b]
            for nm in ARR_NAMES[:rng.choice([3, 4, 5])]:
                shape = [rng.choice([2, 3])] if nm in ("pos", "ext") else rng.choice(SHAPES)
                self.do(["create_da", bp, nm, "t", shape, self.rvals(shape)])
            for g in ("g", "h")[:rng.choice([1, 2])]:
                self.do(["create", bp, "group", g, "t", None])
            self.do(["create", bp, "tag", "tg", "t", None])
            self.do(["create", bp, "multi_tag", "mt", "t", bp + ["data_arrays", "pos"]])
            self.do(["create", bp, "source", "s", "t", None])
            self.do(["create", bp + ["sources", "s"], "source", "deep", "t", None])
            if rng.random() < 0.5:
                self.do(["create", bp + ["sources", "s", "sources", "deep"], "source", "deeper", "t", None])
            if rng.random() < 0.5:
                self.do(["create", bp, "source", "s2", "t", None])

    def read_all(self, k):
        for p in k.paths:
            self.do(["read", p], "read")

    def pick(self, ents, kind=None, block=None, notblock=None):
        c = [k for k in ents.values() if (kind is None or k.kind == kind) and (block is None or k.block == block)
             and (notblock is None or (k.block is not None and k.block != notblock))]
        return self.rng.choice(c) if c else None

    def anypath(self, k):
        return self.rng.choice(k.paths)

    def pick_aliased(self, ents, kinds):
        """prefer entities reachable through many paths"""
        c = [k for k in ents.values() if k.kind in kinds]
        if not c:
            return None
        return self.rng.choices(c, weights=[len(k.paths) ** 2 for k in c])[0]

    def index_vector(self, shape, bad=False):
        rng = self.rng
        rank = len(shape)
        iv = [rng.randrange(n) for n in shape]
        iv[rng.randrange(rank)] = -1
        if bad:
            r = rng.random()
            if r < 0.2:
                return iv + [0]                        # rank mismatch
            if r < 0.35 and rank > 1:
                return iv[:-1] if iv[-1] != -1 else iv[1:]      # rank mismatch (may also lose the -1)
            if r < 0.5:
                return [0 if x == -1 else x for x in iv]    # no -1
            if r < 0.65 and rank > 1:
                return [-1] * rank                     # two -1
            if r < 0.8 and rank > 1:
                j = [i for i, x in enumerate(iv) if x != -1][0]
                iv[j] = -2                             # another negative entry
                return iv
            if rank > 1:
                j = [i for i, x in enumerate(iv) if x != -1][0]
                iv[j] = shape[j] + rng.randrange(2)    # accepted by the link, IndexError when read
                return iv
        return iv

    def shape_of(self, k):
        out = self.impl.run(["read", k.paths[0]])
        d = (out.get("ok") or {}).get("data")
        return d["shape"] if d else None

    def step(self):
        rng = self.rng
        ents, dims, feats = survey(self.impl)
        weights = {
            "links": [("append", 0.3), ("role", 0.14), ("mutate", 0.2), ("write", 0.08), ("dim", 0.12), ("unlink", 0.06),
                      ("delete", 0.04), ("feature", 0.06)],
            "dims": [("dim", 0.5), ("write", 0.2), ("mutate", 0.12), ("append", 0.1), ("delete", 0.04), ("role", 0.04)],
        }[self.profile]
        r = rng.random() * sum(w for _, w in weights)
        action = weights[-1][0]
        acc = 0.0
        for a, w in weights:
            acc += w
            if r < acc:
                action = a
                break
        getattr(self, "a_" + action)(ents, dims, feats)

    # -- actions -----------------------------------------------------------------------
    def a_append(self, ents, dims, feats):
        rng = self.rng
        ocont, cname, kind = rng.choice(LINK_LISTS)
        okind = {"groups": "group", "tags": "tag", "multi_tags": "multi_tag", "data_arrays": "data_array"}[ocont]
        owner = self.pick(ents, okind)
        if owner is None:
            return
        r = rng.random()
        if r < 0.62:
            tgt, tag = self.pick(ents, kind, block=owner.block), "append/same-block"
        elif r < 0.9:
            tgt, tag = self.pick(ents, kind, notblock=owner.block), "append/foreign"
        else:
            tgt, tag = self.pick(ents), "append/any-kind"
        if tgt is None:
            return
        op = owner.paths[0]
        before = self.do(["list", op, cname])
        key = {"o": self.anypath(tgt)} if rng.random() < 0.85 else {"id": tgt.paths[0]}
        self.do(["append", op, cname, key], tag)
        self.do(["list", op, cname])
        self.do(["has", op, cname, {"o": tgt.paths[0]}])
        n = len(before.get("ok") or []) + 1
        for i in range(min(n, 4)):
            self.do(["read", op + [cname, i]])
        self.do(["get", op, cname, {"id": tgt.paths[0]}])
        if tgt.name:
            self.do(["get", op, cname, {"s": tgt.name}])

    def a_role(self, ents, dims, feats):
        rng = self.rng
        r = rng.random()
        if r < 0.45:
            mt = self.pick(ents, "multi_tag")
            if mt is None:
                return
            role = rng.choice(["positions", "extents"])
            q = rng.random()
            if q < 0.55:
                tgt, tag = self.pick(ents, "data_array", block=mt.block), "role/same-block"
            elif q < 0.85:
                tgt, tag = self.pick(ents, "data_array", notblock=mt.block), "role/foreign"
            elif q < 0.93:
                tgt, tag = self.pick(ents), "role/any-kind"
            else:
                tgt, tag = None, "role/none"
            self.do(["set_role", mt.paths[0], role, self.anypath(tgt) if tgt else None], tag)
            self.do(["role", mt.paths[0], role])
            self.do(["read", mt.paths[0] + [role]])
        elif r < 0.8:
            owner = self.pick(ents, rng.choice(["block", "group", "data_array", "tag", "multi_tag", "source"]))
            sec = self.pick(ents, "section" if rng.random() < 0.9 else None)
            if owner is None or sec is None:
                return
            via = self.anypath(owner)
            if rng.random() < 0.15:
                self.do(["set_role", via, "metadata", None], "metadata/del")
            else:
                self.do(["set_role", via, "metadata", self.anypath(sec)], "metadata/set")
            for p in owner.paths:
                self.do(["role", p, "metadata"])
        else:
            if not feats:
                return
            fp, fb = rng.choice(feats)
            q = rng.random()
            if q < 0.55:
                tgt, tag = self.pick(ents, "data_array", block=fb), "featdata/same-block"
            elif q < 0.9:
                tgt, tag = self.pick(ents, "data_array", notblock=fb), "featdata/foreign"
            else:
                tgt, tag = self.pick(ents), "featdata/any-kind"
            if tgt is None:
                return
            self.do(["set_role", fp, "data", self.anypath(tgt)], tag)
            self.do(["role", fp, "data"])
            self.do(["read", fp + ["data"]])

    def a_feature(self, ents, dims, feats):
        rng = self.rng
        tg = self.pick(ents, rng.choice(["tag", "multi_tag"]))
        if tg is None:
            return
        q = rng.random()
        if q < 0.6:
            da, tag = self.pick(ents, "data_array", block=tg.block), "feature/same-block"
        elif q < 0.9:
            da, tag = self.pick(ents, "data_array", notblock=tg.block), "feature/foreign"
        else:
            da, tag = self.pick(ents), "feature/any-kind"
        if da is None:
            return
        self.do(["create_feature", tg.paths[0], self.anypath(da), rng.choice(["tagged", "untagged", "indexed"])], tag)
        self.do(["list", tg.paths[0], "features"])

    def a_mutate(self, ents, dims, feats):
        rng = self.rng
        k = self.pick_aliased(ents, ["data_array", "tag", "multi_tag", "source", "section", "group"])
        if k is None:
            return
        attr = rng.choice(["definition", "type", "label", "unit"] if k.kind == "data_array" else ["definition", "type"])
        val = rng.choice(UNITS if attr == "unit" else STRS)
        self.do(["set_attr", self.anypath(k), attr, val], "mutate/%d-paths" % min(len(k.paths), 4))
        self.read_all(k)
        if k.kind == "data_array":
            for ap, i, _, tid in dims:
                if tid is not None and ents.get(tid) is k:
                    self.do(["dim_read", ap, i])

    def a_write(self, ents, dims, feats):
        k = self.pick_aliased(ents, ["data_array"])
        if k is None:
            return
        shape = self.shape_of(k)
        if shape is None:
            return
        bad = self.rng.random() < 0.05
        vals = self.rvals(shape + [2] if bad else shape)
        self.do(["da_write", self.anypath(k), vals], "write/%d-paths" % min(len(k.paths), 4))
        self.read_all(k)
        for ap, i, _, tid in dims:
            if tid is not None and ents.get(tid) is k:
                self.do(["dim_read", ap, i], "dim_read/after-write")

    def a_dim(self, ents, dims, feats):
        rng = self.rng
        r = rng.random()
        a = self.pick(ents, "data_array")
        if a is None:
            return
        if r < 0.25 or not dims:
            q = rng.random()
            if q < 0.3:
                spec = {"kind": "set", "labels": rng.choice([None, ["a", "b"], ["é", "x", "y z"]])}
            elif q < 0.4:
                spec = {"kind": "sampled"}
            else:
                n = rng.randrange(1, 4)
                t0 = Fraction(rng.randrange(-8, 8), 2)
                ticks = []
                for _ in range(n):
                    ticks.append("%d/%d" % (t0.numerator, t0.denominator))
                    t0 += Fraction(rng.randrange(0, 5), 2)
                spec = {"kind": "range", "ticks": rng.choice([ticks, ticks, None]), "label": rng.choice(STRS),
                        "unit": rng.choice([None, "s", "mV"])}
            via = self.anypath(a)
            self.do(["dim_append", via, spec], "dim_append/" + spec["kind"])
            out = self.do(["dim_count", a.paths[0]])
            n = out.get("ok") or 0
            if n:
                self.do(["dim_read", a.paths[0], n])
            return
        ap, i, dkind, tid = rng.choice(dims)
        owner = next((k for k in ents.values() if k.paths[0] == ap), None)
        via = self.anypath(owner) if owner else ap
        if r < 0.6:
            q = rng.random()
            if q < 0.8:
                tgt = self.pick(ents, "data_array", block=None)
            else:
                tgt = self.pick(ents)
            shape = self.shape_of(tgt) if tgt.kind == "data_array" else [2]
            bad = rng.random() < 0.3
            iv = self.index_vector(shape, bad)
            self.do(["dim_link", via, i, self.anypath(tgt), iv],
                    "dim_link/%s%s" % (dkind, "/malformed" if bad else ""))
        elif r < 0.75:
            n = rng.randrange(1, 4)
            ts = [Fraction(rng.randrange(-8, 8), 2) for _ in range(n)]
            if rng.random() < 0.8:
                ts.sort()
            self.do(["dim_set_ticks", via, i, ["%d/%d" % (t.numerator, t.denominator) for t in ts]],
                    "dim_set_ticks/" + dkind)
        elif r < 0.83:
            self.do(["dim_unlink", via, i], "dim_unlink/" + dkind)
        elif r < 0.9:
            self.do(["dim_set_labels", via, i, rng.choice([["p", "q"], ["é"], []])], "dim_set_labels/" + dkind)
        else:
            attr = rng.choice(["unit", "label", "label", "ticks"])
            self.do(["dim_set_attr", via, i, attr, rng.choice(UNITS if attr == "unit" else STRS)], "dim_set_attr/" + dkind)
        self.do(["dim_read", ap, i], "dim_read")
        out = self.outs[-1].get("ok") or {}
        if out.get("has_link") and isinstance(out.get("target"), list):
            # the linked array through the dimension link and directly
            self.do(["read", ap + ["dimensions", str(i), "link", 0]])
            tk = next((k for k in ents.values() if k.kind == "data_array" and tid is not None
                       and ents.get(tid) is k), None)
            if tk is not None:
                self.do(["read", tk.paths[0]])

    def a_unlink(self, ents, dims, feats):
        rng = self.rng
        ocont, cname, kind = rng.choice(LINK_LISTS)
        okind = {"groups": "group", "tags": "tag", "multi_tags": "multi_tag", "data_arrays": "data_array"}[ocont]
        owner = self.pick(ents, okind)
        if owner is None:
            return
        op = owner.paths[0]
        out = self.do(["list", op, cname])
        items = out.get("ok") or []
        if not items:
            return
        i = rng.randrange(len(items))
        key = rng.choice([{"p": i}, {"id": op + [cname, i]}, {"o": op + [cname, i]}])
        self.do(["del", op, cname, key], "unlink")
        self.do(["list", op, cname])

    def a_delete(self, ents, dims, feats):
        rng = self.rng
        k = self.pick(ents, rng.choice(["data_array", "data_array", "tag", "source", "group"]))
        if k is None or k.name in ("pos",):
            return
        p = k.paths[0]
        self.do(["del", p[:-2], p[-2], {"o": self.anypath(k)} if rng.random() < 0.5 else {"s": k.name}], "delete")
        for ap, i, _, tid in dims:
            if ap[:len(p)] == p:
                continue                      # the descriptor went with its array
            if tid is not None and ents.get(tid) is k:
                self.do(["dim_read", ap, i], "dim_read/dangling")
                self.do(["dim_set_attr", ap, i, "unit", "mV"], "dim_set_attr/dangling")
        self.do(["dump"])


def run_history(ctx, rng, steps, profile, tag, reopen_prob=0.05):
    path = ctx.tmpfile("c05-%s.nix" % tag)
    impl = Impl5(path)
    gen = Gen5(rng, impl, profile)
    try:
        gen.setup()
        for _ in range(steps):
            gen.step()
            if rng.random() < reopen_prob:
                impl.reopen("a")
                gen.ops.append(["noop"])
                gen.outs.append({"ok": None})
                ents, dims, _ = survey(impl)
                for k in list(ents.values())[:12]:
                    if len(k.paths) > 1:
                        gen.read_all(k)
                for ap, i, _, _ in dims[:8]:
                    gen.do(["dim_read", ap, i], "dim_read/after-reopen")
        ents, dims, _ = survey(impl)
        for ap, i, _, _ in dims:
            gen.do(["dim_read", ap, i])
        gen.do(["dump"])
    finally:
        impl.close()
        try:
            os.remove(path)
        except OSError:
            pass
    return gen.ops, gen.outs, gen.tags


def replay_history(ctx, ops, tag):
    """a recorded history (corpus) on a fresh file"""
    path = ctx.tmpfile("c05-corpus-%s.nix" % tag)
    impl = Impl5(path)
    outs = []
    try:
        for op in ops:
            if op == ["reopen"]:
                impl.reopen("a")
                outs.append({"ok": None})
            else:
                outs.append(impl.run(op))
    finally:
        impl.close()
        try:
            os.remove(path)
        except OSError:
            pass
    return outs


def canon_dump(nodes):
    """HDF5-level dump with the order of an ENTITY's own children normalised (sorted by link name) and
    nodes renumbered by the resulting DFS.  The order in which an entity's container groups / role
    links were first created is not observable through the API (they are addressed by name) and
    differs after a refused create_feature, which leaves an empty `features` group behind in the
    file; the order of the entries INSIDE containers, link lists and `dimensions` stays as it is."""
    if not isinstance(nodes, list):
        return nodes
    by = {n["n"]: n for n in nodes}
    order = {}
    out = []

    def visit(k):
        if k in order:
            return order[k]
        order[k] = len(order)
        n = by[k]
        links = list(n["links"])
        if k == 0 or "entity_id" in n["attrs"]:
            links.sort(key=lambda l: l[0])
        rec = {"n": order[k], "kind": n["kind"], "attrs": n["attrs"], "links": None}
        out.append(rec)
        rec["links"] = [[nm, visit(t)] for nm, t in links]
        return order[k]

    if 0 in by:
        visit(0)
    return out


def _compare(ops, outs, model):
    """storegen.compare, plus: a dimension / data op whose array or descriptor path does not resolve is
    `bad` for the implementation runner and KeyError / IndexError (arrayAt / dimAt) in the model"""
    diffs = []
    for k, op, m, i in storegen.compare(ops, outs, model):
        if (op[0].startswith("dim_") or op[0] == "da_write") and isinstance(i, dict) and "bad" in i \
                and isinstance(m, dict) and m.get("err") in ("KeyError", "IndexError"):
            continue
        diffs.append((k, op, m, i))
    return diffs


def _canon_dumps(ops, outs):
    return [({"ok": canon_dump(o["ok"])} if op == ["dump"] and isinstance(o, dict) and "ok" in o else o)
            for op, o in zip(ops, outs)]


def correspondence(ctx):
    n_hist = ctx.budget(30, 150)
    steps = ctx.budget(45, 70)
    disagreements = []
    total = 0
    dist, errs, tags = {}, {}, {}
    seen = set()
    samples = []
    # corpus first: one history per case
    for ci, hist in enumerate(core.load_corpus(PROP)):
        mops = [["noop"] if op == ["reopen"] else op for op in hist]
        outs = _canon_dumps(mops, replay_history(ctx, hist, str(ci)))
        model = _canon_dumps(mops, core.run_driver(PROP, [["reset"]] + mops)[1:])
        for k, op, m, i in _compare(mops, outs, model):
            disagreements.append(Disagreement({"corpus": ci, "index": k, "op": op, "prefix": hist[:k + 1]}, m, i))
        total += len(hist)
    for h in range(n_hist):
        rng = random.Random("%s/%d/%d" % (PROP, ctx.seed, h))
        profile = ["links", "dims", "links"][h % 3]
        try:
            ops, outs, tg = run_history(ctx, rng, steps, profile, str(h))
        except core.InfraError:
            raise
        except Exception as ex:      # the generator walks the real file: a crash there is the implementation's
            disagreements.append(Disagreement({"history": h, "generator": "raised %s: %s" % (type(ex).__name__, ex)},
                                              None, type(ex).__name__))
            continue
        outs = _canon_dumps(ops, outs)
        model = _canon_dumps(ops, core.run_driver(PROP, [["reset"]] + ops)[1:])
        for k, op, m, i in _compare(ops, outs, model):
            disagreements.append(Disagreement({"history": h, "index": k, "op": op,
                                               "prefix": ops[:k + 1] if k < 400 else None}, m, i))
        total += len(ops)
        for k, v in tg.items():
            tags[k] = tags.get(k, 0) + v
        for op, o in zip(ops, outs):
            dist[op[0]] = dist.get(op[0], 0) + 1
            if "err" in o:
                errs[o["err"]] = errs.get(o["err"], 0) + 1
            if op[0] not in ("noop", "dump") and ("err" in o or o.get("ok") not in (None, [], 0, False)):
                seen.add(core.canon(op))
        if h < 2:
            samples.append({"history": h, "ops": ops[20:26], "outputs": outs[20:26]})
    return {"evaluations": total, "distinct_nontrivial": len(seen),
            "rule": "adaptive seeded histories in lockstep with a real file: 2-3 blocks with equal entity names, arrays "
                    "of rank 1-3 with exact dyadic content; link-list appends (same block / foreign same-named / wrong "
                    "kind), multi-tag positions/extents, feature data, metadata links, features, dimension descriptors "
                    "and dimension links (valid and malformed index vectors), attribute and data writes through a "
                    "randomly chosen alias path, reads through every alias path (direct, group lists, tag references, "
                    "positions/extents, feature data, source lists, metadata, dimension link), unlink/delete, reopen; "
                    "final HDF5-level dump. non-trivial = distinct op (canonical JSON) with an error or non-empty result",
            "samples": samples, "distribution": {"ops": dist, "impl_errors": errs, "branches": tags},
            "disagreements": disagreements, "exhaustive": False}


# ---------------------------------------------------------------------------------------
# oracle: the property on the implementation alone


def _content(e):
    """id + content as seen through one handle"""
    out = {"id": e.id, "name": getattr(e, "name", None), "type": getattr(e, "type", None),
           "definition": getattr(e, "definition", None)}
    if isinstance(e, nixio.DataArray):
        out["unit"], out["label"] = e.unit, e.label
        arr = np.array(e[:])
        out["shape"] = list(arr.shape)
        out["data"] = [float(v) for v in arr.reshape(-1)]
    return out


class Scene:
    """a file with equal names in every block and the oracle's own record of which handle-getters
    lead to which entity"""

    def __init__(self, ctx, rng, tag, nblocks):
        self.rng = rng
        self.path = ctx.tmpfile("c05-oracle-%s.nix" % tag)
        self.f = nixio.File.open(self.path, nixio.FileMode.Overwrite)
        self.log = []
        self.fails = []
        self.evals = 0
        self.bnames = BLOCKS[:nblocks]
        # (block, kind, name) -> list of (description, getter(f) -> handle)
        self.paths = {}
        self.held = {}        # (key, desc) -> handle obtained earlier through that path and kept alive
        f = self.f
        sec = f.create_section("sec", "t")
        sec.create_section("sub", "t")
        self.reg(None, "section", "sec", "file.sections", lambda f: f.sections["sec"])
        self.reg(None, "section", "sub", "sec.sections", lambda f: f.sections["sec"].sections["sub"])
        for bn in self.bnames:
            b = f.create_block(bn, "t")
            for nm in ARR_NAMES[:4]:
                shape = (3,) if nm in ("pos", "ext") else tuple(rng.choice(SHAPES))
                data = np.array([rng.randrange(-20, 40) / 4.0 for _ in range(int(np.prod(shape)))]).reshape(shape)
                b.create_data_array(nm, "t", data=data)
                self.reg(bn, "data_array", nm, "block.data_arrays", lambda f, bn=bn, nm=nm: f.blocks[bn].data_arrays[nm])
            for g in ("g", "h"):
                b.create_group(g, "t")
                self.reg(bn, "group", g, "block.groups", lambda f, bn=bn, g=g: f.blocks[bn].groups[g])
            b.create_tag("tg", "t", [0.0])
            self.reg(bn, "tag", "tg", "block.tags", lambda f, bn=bn: f.blocks[bn].tags["tg"])
            b.create_multi_tag("mt", "t", positions=b.data_arrays["pos"])
            self.reg(bn, "multi_tag", "mt", "block.multi_tags", lambda f, bn=bn: f.blocks[bn].multi_tags["mt"])
            self.alias(bn, "data_array", "pos", "mt.positions", lambda f, bn=bn: f.blocks[bn].multi_tags["mt"].positions)
            s = b.create_source("s", "t")
            s.create_source("deep", "t")
            self.reg(bn, "source", "s", "block.sources", lambda f, bn=bn: f.blocks[bn].sources["s"])
            self.reg(bn, "source", "deep", "s.sources", lambda f, bn=bn: f.blocks[bn].sources["s"].sources["deep"])
        self.log.append(["setup", self.bnames])

    def reg(self, bn, kind, name, desc, getter):
        self.paths[(bn, kind, name)] = [(desc, getter)]

    def alias(self, bn, kind, name, desc, getter):
        ps = self.paths[(bn, kind, name)]
        ps[:] = [p for p in ps if p[0] != desc] + [(desc, getter)]

    def unalias(self, desc, pred=lambda key: True):
        for key, ps in self.paths.items():
            if pred(key):
                ps[:] = [p for p in ps if p[0] != desc]
                self.held.pop((key, desc), None)

    def views(self, key):
        """every way the entity is seen right now: a freshly navigated handle per path, plus the handle that was
        obtained through the same path earlier and kept alive (a per-handle cache must not make the two differ)"""
        out = []
        for desc, getter in list(self.paths[key]):
            out.append((desc, lambda f, g=getter: g(f)))
            h = self.held.get((key, desc))
            if h is not None:
                out.append((desc + " (handle kept from earlier)", lambda f, h=h: h))
            else:
                try:
                    self.held[(key, desc)] = getter(self.f)
                except Exception:
                    pass
        return out

    def fail(self, what, observed, required, site):
        self.fails.append(Failure(what, list(self.log), observed, required, site))

    def close(self):
        try:
            self.f.close()
        except Exception:
            pass
        try:
            os.remove(self.path)
        except OSError:
            pass

    def reopen(self):
        self.held = {}
        self.f.close()
        self.f = nixio.File.open(self.path, self.rng.choice([nixio.FileMode.ReadWrite, nixio.FileMode.ReadOnly]))
        self.log.append(["reopen"])
        self.check_all("after reopen")
        self.held = {}
        self.f.close()
        self.f = nixio.File.open(self.path, nixio.FileMode.ReadWrite)

    def get(self, key, which=None):
        ps = self.paths[key]
        desc, getter = ps[which if which is not None else self.rng.randrange(len(ps))]
        h = self.held.get((key, desc))
        if h is not None and which is None and self.rng.random() < 0.4:
            return desc + " (handle kept from earlier)", h
        return desc, getter(self.f)

    def check_entity(self, key, when=""):
        ps = self.views(key)
        ref = None
        for desc, getter in ps:
            self.evals += 1
            try:
                c = _content(getter(self.f))
            except Exception as ex:
                self.fail("reading %s %r of block %s through %s raised %s %s" % (key[1], key[2], key[0], desc,
                                                                                type(ex).__name__, when),
                          type(ex).__name__, "the entity", "alias-read")
                continue
            if ref is None:
                ref = (desc, c)
            elif c != ref[1]:
                diff = sorted(k for k in c if c[k] != ref[1].get(k))
                self.fail("%s %r of block %s reads differently through %s and %s %s (%s)"
                          % (key[1], key[2], key[0], ref[0], desc, when, ",".join(diff)),
                          {k: c[k] for k in diff}, {k: ref[1].get(k) for k in diff}, "alias-read")
        return ref[1] if ref else None

    def check_all(self, when=""):
        for key in self.paths:
            self.check_entity(key, when)

    # -- actions -----------------------------------------------------------------------
    def link_list(self):
        rng = self.rng
        bn = rng.choice(self.bnames)
        okind, oname, cname, kind = rng.choice([
            ("group", "g", "data_arrays", "data_array"), ("group", "h", "data_arrays", "data_array"),
            ("group", "g", "tags", "tag"), ("group", "g", "multi_tags", "multi_tag"), ("group", "g", "sources", "source"),
            ("tag", "tg", "references", "data_array"), ("multi_tag", "mt", "references", "data_array"),
            ("tag", "tg", "sources", "source"), ("data_array", "x", "sources", "source")])
        return bn, okind, oname, cname, kind

    def do_append(self):
        rng = self.rng
        bn, okind, oname, cname, kind = self.link_list()
        cands = [k for k in self.paths if k[1] == kind]
        r = rng.random()
        if r < 0.5:
            cands = [k for k in cands if k[0] == bn]
        elif r < 0.85:
            cands = [k for k in cands if k[0] != bn]
        else:
            cands = [k for k in self.paths if k[1] != kind and k[1] != "section" or rng.random() < 0.1]
        if not cands:
            return
        tk = rng.choice(cands)
        _, owner = self.get((bn, okind, oname), 0)
        cont = getattr(owner, cname)
        desc, item = self.get(tk)
        before = [e.id for e in cont]
        legal = tk[0] == bn and tk[1] == kind
        self.log.append(["append", "%s/%s %s.%s" % (bn, okind, oname, cname), list(tk), "via " + desc])
        self.evals += 1
        try:
            cont.append(item)
            accepted = True
        except (RuntimeError, TypeError) as ex:
            accepted = False
            exn = type(ex).__name__
        except Exception as ex:
            accepted = False
            exn = type(ex).__name__
            self.fail("append raised an unexpected %s" % exn, exn, "RuntimeError/TypeError or success", "append")
        after = [e.id for e in getattr(self.get((bn, okind, oname), 0)[1], cname)]
        if legal:
            if not accepted:
                self.fail("a %s of the same block was refused by %s.%s" % (kind, okind, cname), exn, "accepted", "append")
            else:
                exp = [i for i in before if i != item.id] + [item.id]
                if after != exp:
                    self.fail("list after append is not old entries without the id ++ [id]", after, exp, "append")
                pos = len(exp) - 1
                self.alias(tk[0], tk[1], tk[2], "%s/%s.%s.%s" % (bn, okind, oname, cname),
                           lambda f, bn=bn, okind=okind, oname=oname, cname=cname, iid=item.id:
                           [e for e in getattr(f.blocks[bn].__getattribute__(STORE_OF[okind])[oname], cname)
                            if e.id == iid][0])
                self.check_entity(tk, "after append")
        else:
            if accepted:
                what = "foreign" if tk[1] == kind else "wrong-kind"
                self.fail("%s item (%s %r of block %s) accepted by %s.%s of block %s" % (what, tk[1], tk[2], tk[0], okind,
                                                                                       cname, bn),
                          "accepted", "refused", "append-" + what)
            if after != before and not accepted:
                self.fail("refused append changed the list", after, before, "append-refused-changed")
            if accepted:
                try:
                    del getattr(self.get((bn, okind, oname), 0)[1], cname)[item.id]
                except Exception:
                    pass

    def do_role(self):
        rng = self.rng
        bn = rng.choice(self.bnames)
        role = rng.choice(["positions", "extents"])
        cands = [k for k in self.paths if k[1] == "data_array"]
        r = rng.random()
        if r < 0.5:
            cands = [k for k in cands if k[0] == bn]
        elif r < 0.85:
            cands = [k for k in cands if k[0] != bn]
        else:
            cands = [k for k in self.paths if k[1] not in ("data_array", "section")]
        tk = rng.choice(cands)
        mt = self.get((bn, "multi_tag", "mt"), 0)[1]
        desc, item = self.get(tk)
        legal = tk[0] == bn and tk[1] == "data_array"
        before = getattr(mt, role)
        before = before.id if before is not None else None
        self.log.append(["set " + role, bn, list(tk), "via " + desc])
        self.evals += 1
        try:
            setattr(mt, role, item)
            accepted = True
        except Exception as ex:
            accepted = False
            exn = type(ex).__name__
        now = getattr(self.get((bn, "multi_tag", "mt"), 0)[1], role)
        now = now.id if now is not None else None
        if legal:
            if not accepted:
                self.fail("array of the same block refused as %s" % role, exn, "accepted", "role")
            elif now != item.id:
                self.fail("%s does not yield the assigned array" % role, now, item.id, "role")
            else:
                self.unalias("mt." + role, lambda key: key[0] == bn)
                self.alias(tk[0], tk[1], tk[2], "mt." + role,
                           lambda f, bn=bn, role=role: getattr(f.blocks[bn].multi_tags["mt"], role))
                self.check_entity(tk, "after set " + role)
        else:
            if accepted:
                self.fail("%s item (%s %r of block %s) accepted as %s of block %s's multi-tag"
                          % ("foreign" if tk[1] == "data_array" else "wrong-kind", tk[1], tk[2], tk[0], role, bn),
                          "accepted", "refused", "role-foreign")
                self.unalias("mt." + role, lambda key: key[0] == bn)
                setattr(mt, role, self.get((bn, "data_array", "pos"), 0)[1])
                self.alias(bn, "data_array", "pos", "mt." + role,
                           lambda f, bn=bn, role=role: getattr(f.blocks[bn].multi_tags["mt"], role))
            elif now != before:
                self.fail("refused %s assignment changed the link" % role, now, before, "role-refused-changed")

    def do_feature(self):
        rng = self.rng
        bn = rng.choice(self.bnames)
        tkind, tname = rng.choice([("tag", "tg"), ("multi_tag", "mt")])
        cands = [k for k in self.paths if k[1] == "data_array"]
        r = rng.random()
        cands = [k for k in cands if (k[0] == bn) == (r < 0.55)] or cands
        tk = rng.choice(cands)
        tg = self.get((bn, tkind, tname), 0)[1]
        desc, item = self.get(tk)
        legal = tk[0] == bn
        n0 = len(tg.features)
        self.log.append(["create_feature", bn, tname, list(tk), "via " + desc])
        self.evals += 1
        try:
            tg.create_feature(item, rng.choice(["tagged", "untagged", "indexed"]))
            accepted = True
        except Exception as ex:
            accepted = False
            exn = type(ex).__name__
        n1 = len(self.get((bn, tkind, tname), 0)[1].features)
        if legal and not accepted:
            self.fail("feature on an array of the same block refused", exn, "accepted", "feature")
        if legal and accepted:
            self.alias(tk[0], tk[1], tk[2], "%s.features[%d].data" % (tname, n0),
                       lambda f, bn=bn, tkind=tkind, tname=tname, n0=n0:
                       getattr(f.blocks[bn], STORE_OF[tkind])[tname].features[n0].data)
            self.check_entity(tk, "after create_feature")
        if not legal and accepted:
            self.fail("feature data from another block accepted", "accepted", "refused", "feature-foreign")
            del self.get((bn, tkind, tname), 0)[1].features[n0]
        if not accepted and n1 != n0:
            self.fail("refused create_feature changed the feature list", n1, n0, "feature-refused-changed")

    def do_metadata(self):
        rng = self.rng
        keys = [k for k in self.paths if k[1] not in ("section",)]
        ok = rng.choice(keys)
        sk = rng.choice([k for k in self.paths if k[1] == "section"])
        odesc, owner = self.get(ok)
        sdesc, sec = self.get(sk)
        self.log.append(["set metadata", list(ok), "via " + odesc, list(sk), "via " + sdesc])
        self.evals += 1
        owner.metadata = sec
        label = "metadata of %s/%s/%s" % ok
        for key, ps in self.paths.items():
            ps[:] = [p for p in ps if p[0] != label]
        self.alias(sk[0], sk[1], sk[2], label, lambda f, ok=ok: self.paths[ok][0][1](f).metadata)
        for d, g in self.views(ok):
            m = g(self.f).metadata
            if m is None or m.id != sec.id:
                self.fail("metadata set through %s is not visible through %s" % (odesc, d),
                          None if m is None else m.id, sec.id, "alias-metadata")
        self.check_entity(sk, "after metadata link")

    def do_mutate(self):
        rng = self.rng
        key = rng.choice(list(self.paths))
        desc, e = self.get(key)
        attr = rng.choice(["definition", "type", "unit", "label"] if key[1] == "data_array" else ["definition", "type"])
        val = rng.choice(UNITS if attr == "unit" else [v for v in STRS if not (attr == "type" and v is None)])
        self.log.append(["set", list(key), attr, val, "via " + desc])
        setattr(e, attr, val)
        for d, g in self.views(key):
            self.evals += 1
            got = getattr(g(self.f), attr)
            if got != val:
                self.fail("%s = %r written through %s reads %r through %s" % (attr, val, desc, got, d), got, val,
                          "alias-write")

    def do_calib(self):
        """calibration set and cleared again through one path: every other path (fresh or kept handle) reads the
        same content at each stage; the array is left uncalibrated"""
        rng = self.rng
        key = rng.choice([k for k in self.paths if k[1] == "data_array"])
        self.check_entity(key, "before a calibration change")
        desc, e = self.get(key)
        coeffs = rng.choice([(1.0, 2.0), (0.5,), (0.0, 0.0, 1.0), None])
        origin = rng.choice([None, 0.5, -2.0]) if coeffs is not None else rng.choice([0.5, -2.0])
        self.log.append(["set calibration", list(key), coeffs, origin, "via " + desc])
        e.polynom_coefficients = coeffs
        e.expansion_origin = origin
        self.check_entity(key, "after a calibration change through %s" % desc)
        desc2, e2 = self.get(key)
        self.log.append(["clear calibration", list(key), "via " + desc2])
        e2.polynom_coefficients = None
        e2.expansion_origin = None
        self.check_entity(key, "after clearing the calibration through %s" % desc2)

    def do_write(self):
        rng = self.rng
        key = rng.choice([k for k in self.paths if k[1] == "data_array"])
        desc, e = self.get(key)
        shape = e.shape
        data = np.array([rng.randrange(-20, 40) / 4.0 for _ in range(int(np.prod(shape)))]).reshape(shape)
        self.log.append(["write data", list(key), [float(v) for v in data.reshape(-1)], "via " + desc])
        e.write_direct(data)
        for d, g in self.views(key):
            self.evals += 1
            got = np.array(g(self.f)[:])
            if got.shape != data.shape or not np.array_equal(got, data):
                self.fail("data written through %s is not what %s reads" % (desc, d), [float(v) for v in got.reshape(-1)],
                          [float(v) for v in data.reshape(-1)], "alias-data")
        self.check_dims()

    # -- dimensions --------------------------------------------------------------------
    def dims_setup(self):
        self.dimrec = {}          # (block, array, i) -> {"kind", "ticks"/"labels"/"link": (target key, index)}

    def do_dim(self):
        rng = self.rng
        akey = rng.choice([k for k in self.paths if k[1] == "data_array"])
        adesc, a = self.get(akey)
        recs = [k for k in self.dimrec if (k[0], k[1]) == (akey[0], akey[2])]
        if not recs or rng.random() < 0.3:
            i = len(a.dimensions) + 1
            if rng.random() < 0.65:
                ticks = sorted(rng.randrange(-8, 8) / 2.0 for _ in range(rng.randrange(1, 4)))
                self.log.append(["append_range_dimension", list(akey), ticks, "via " + adesc])
                a.append_range_dimension(ticks, "lbl", "s")
                self.dimrec[(akey[0], akey[2], i)] = {"kind": "range", "ticks": ticks, "unit": "s", "label": "lbl"}
            else:
                labels = rng.choice([["a", "b"], ["é"]])
                self.log.append(["append_set_dimension", list(akey), labels, "via " + adesc])
                a.append_set_dimension(labels)
                self.dimrec[(akey[0], akey[2], i)] = {"kind": "set", "labels": labels}
            self.check_dims()
            return
        dk = rng.choice(recs)
        rec = self.dimrec[dk]
        dim = a.dimensions[dk[2] - 1]
        r = rng.random()
        if r < 0.55:
            tkey = rng.choice([k for k in self.paths if k[1] == "data_array"])
            tdesc, t = self.get(tkey)
            shape = list(t.shape)
            bad = rng.random() < 0.3
            iv = [rng.randrange(n) for n in shape]
            iv[rng.randrange(len(iv))] = -1
            if bad:
                iv = rng.choice([iv + [0], [0 if x == -1 else x for x in iv], [-1] + iv, [-2 if x != -1 else x for x in iv]
                                 if len(iv) > 1 else [0]])
            legal = len(iv) == len(shape) and iv.count(-1) == 1 and sum(1 for x in iv if x < 0) == 1
            self.log.append(["link_data_array", list(dk), list(tkey), iv, "via " + adesc + " / " + tdesc])
            self.evals += 1
            try:
                dim.link_data_array(t, iv)
                accepted = True
            except Exception as ex:
                accepted = False
                exn = type(ex).__name__
            if legal and not accepted:
                self.fail("a well-formed dimension link was refused", exn, "accepted", "dimlink")
            if not legal and accepted:
                self.fail("a malformed index vector %r was accepted for an array of shape %r" % (iv, shape), "accepted",
                          "refused", "dimlink-malformed")
                rec.pop("ticks", None)
                rec["link"] = (tkey, iv)
            if legal and accepted:
                if rec["kind"] == "range":
                    rec.pop("ticks", None)
                rec["link"] = (tkey, iv)
                self.unalias("dimension link %s/%s#%d" % dk)
                self.alias(tkey[0], tkey[1], tkey[2], "dimension link %s/%s#%d" % dk,
                           lambda f, dk=dk: nixio.DataArray(
                               f, f.blocks[dk[0]],
                               f.blocks[dk[0]].data_arrays[dk[1]].dimensions[dk[2] - 1].dimension_link._linked_group()))
        elif r < 0.8 and rec["kind"] == "range":
            ticks = [rng.randrange(-8, 8) / 2.0 for _ in range(rng.randrange(1, 4))]
            if rng.random() < 0.75:
                ticks.sort()
            legal = all(b >= a for a, b in zip(ticks, ticks[1:]))
            self.log.append(["set ticks", list(dk), ticks, "via " + adesc])
            self.evals += 1
            try:
                dim.ticks = ticks
                accepted = True
            except ValueError:
                accepted = False
            if legal != accepted:
                self.fail("ticks %r %s" % (ticks, "accepted" if accepted else "refused"), accepted, legal, "ticks")
            if accepted:
                if "link" in rec:
                    self.unalias("dimension link %s/%s#%d" % dk)
                    # unit and label had been written to the linked array, the dimension keeps its own
                rec.pop("link", None)
                rec["ticks"] = ticks
        elif r < 0.9 and "link" in rec:
            self.log.append(["remove_link", list(dk)])
            dim.remove_link()
            self.unalias("dimension link %s/%s#%d" % dk)
            rec.pop("link")
        elif "link" in rec and rec["kind"] == "range":
            val = rng.choice(["mV", "s", None])
            self.log.append(["set unit through the dimension", list(dk), val])
            dim.unit = val
            tkey = rec["link"][0]
            got = self.get(tkey, 0)[1].unit
            self.evals += 1
            if got != val:
                self.fail("unit set through a linked dimension is not the array's unit", got, val, "dimlink-unit")
        self.check_dims()

    def check_dims(self):
        for dk, rec in self.dimrec.items():
            self.evals += 1
            try:
                dim = self.f.blocks[dk[0]].data_arrays[dk[1]].dimensions[dk[2] - 1]
                if "link" in rec:
                    tkey, iv = rec["link"]
                    t = self.get(tkey, 0)[1]
                    cur = np.array(t[:])
                    sel = tuple(slice(None) if x == -1 else x for x in iv)
                    try:
                        exp = [float(v) for v in cur[sel]]
                    except IndexError:
                        exp = None
                    if not dim.has_link:
                        self.fail("linked dimension reports has_link False", False, True, "dimlink-state")
                        continue
                    if rec["kind"] == "range" and "ticks" in dim._h5group:
                        self.fail("a linked range dimension still stores explicit ticks", "ticks + link", "link only",
                                  "dimlink-exclusive")
                    try:
                        got = [float(v) for v in (dim.ticks if rec["kind"] == "range" else dim.labels)]
                    except IndexError:
                        got = None
                    if got != exp:
                        self.fail("linked %s dimension does not report the selected vector of the array's current data"
                                  % rec["kind"], got, exp, "dimlink-values")
                    if rec["kind"] == "range":
                        if dim.unit != t.unit or dim.label != t.label:
                            self.fail("linked range dimension does not report the array's unit/label",
                                      [dim.unit, dim.label], [t.unit, t.label], "dimlink-unit")
                        if not dim.is_alias:
                            self.fail("linked range dimension is not an alias", False, True, "dimlink-state")
                else:
                    if dim.has_link:
                        self.fail("dimension without a link reports has_link True", True, False, "dimlink-state")
                        continue
                    if rec["kind"] == "range":
                        got = [float(v) for v in dim.ticks]
                        if got != rec.get("ticks", []):
                            self.fail("range dimension does not report its explicit ticks", got, rec.get("ticks", []),
                                      "ticks")
                    else:
                        got = list(dim.labels)
                        if got != rec["labels"]:
                            self.fail("set dimension does not report its labels", got, rec["labels"], "labels")
            except Exception as ex:
                self.fail("reading dimension %r raised %s: %s" % (dk, type(ex).__name__, ex), type(ex).__name__,
                          "a value", "dim-read")

    def refused_link_keeps_ticks(self):
        """fixed defect: a refused link_data_array removed the ticks"""
        bn = self.bnames[0]
        a = self.get((bn, "data_array", "y"), 0)[1]
        d = a.append_range_dimension([1.0, 2.0])
        i = len(a.dimensions)
        self.dimrec[(bn, "y", i)] = {"kind": "range", "ticks": [1.0, 2.0]}
        self.log.append(["append_range_dimension [1,2]; link_data_array with a wrong rank", bn, "y"])
        t = self.get((bn, "data_array", "pos"), 0)[1]
        try:
            d.link_data_array(t, [0, -1])
            self.fail("rank mismatch accepted by link_data_array", "accepted", "refused", "dimlink-malformed")
        except ValueError:
            pass
        self.evals += 1
        self.check_dims()


def _copy_scenario(ctx, tag):
    """id-keeping copy of a whole block: every copied entity shares name AND id with its original"""
    path = ctx.tmpfile("c05-oracle-copy-%s.nix" % tag)
    fails = []
    f = nixio.File.open(path, nixio.FileMode.Overwrite)
    log = [["block b1 with arrays x,pos, group g, tag tg, multi-tag mt, sources s/deep; b2 = id-keeping copy of b1"]]
    try:
        b1 = f.create_block("b1", "t")
        b1.create_data_array("x", "t", data=[1.0, 2.0])
        pos = b1.create_data_array("pos", "t", data=[1.0])
        g = b1.create_group("g", "t")
        tg = b1.create_tag("tg", "t", [0.0])
        mt = b1.create_multi_tag("mt", "t", positions=pos)
        s = b1.create_source("s", "t")
        s.create_source("deep", "t")
        ft = tg.create_feature(b1.data_arrays["x"], "untagged")
        b2 = f.create_block(name="b2", copy_from=b1, keep_copy_id=True)
        if b2.data_arrays["x"].id != b1.data_arrays["x"].id:
            return fails, 0
        n = 0
        trials = [
            ("group.data_arrays", lambda: g.data_arrays.append(b2.data_arrays["x"]), lambda: [e.id for e in g.data_arrays]),
            ("group.tags", lambda: g.tags.append(b2.tags["tg"]), lambda: [e.id for e in g.tags]),
            ("group.multi_tags", lambda: g.multi_tags.append(b2.multi_tags["mt"]), lambda: [e.id for e in g.multi_tags]),
            ("tag.references", lambda: tg.references.append(b2.data_arrays["x"]), lambda: [e.id for e in tg.references]),
            ("group.sources", lambda: g.sources.append(b2.sources["s"]), lambda: [e.id for e in g.sources]),
            ("group.sources(deep)", lambda: g.sources.append(b2.sources["s"].sources["deep"]),
             lambda: [e.id for e in g.sources]),
            ("tag.sources", lambda: tg.sources.append(b2.sources["s"].sources["deep"]), lambda: [e.id for e in tg.sources]),
            ("data_array.sources", lambda: b1.data_arrays["x"].sources.append(b2.sources["s"]),
             lambda: [e.id for e in b1.data_arrays["x"].sources]),
            ("multi_tag.positions", lambda: setattr(mt, "positions", b2.data_arrays["pos"]),
             lambda: [mt.positions.definition]),
            ("multi_tag.extents", lambda: setattr(mt, "extents", b2.data_arrays["pos"]),
             lambda: [None if mt.extents is None else mt.extents.id]),
            ("feature.data", lambda: setattr(ft, "data", b2.data_arrays["x"]), lambda: [ft.data.definition]),
            ("create_feature", lambda: tg.create_feature(b2.data_arrays["x"], "untagged"), lambda: [len(tg.features)]),
        ]
        b2.data_arrays["x"].definition = "the copy"
        b2.data_arrays["pos"].definition = "the copy"
        for label, act, view in trials:
            n += 1
            before = view()
            try:
                act()
                fails.append(Failure("an id-keeping copy in another block (same name, same id) was accepted by %s" % label,
                                     log + [[label]], "accepted", "refused", "copy-foreign"))
            except (RuntimeError, TypeError):
                pass
            after = view()
            if after != before:
                fails.append(Failure("refused %s changed the list/link" % label, log + [[label]], after, before,
                                     "copy-foreign-changed"))
        # the originals are still accepted, and what the list yields is the original, not the copy
        for label, act in (("group.data_arrays", lambda: g.data_arrays.append(b1.data_arrays["x"])),
                           ("group.sources", lambda: g.sources.append(b1.sources["s"].sources["deep"]))):
            try:
                act()
            except Exception as ex:
                fails.append(Failure("an entity of the same block was refused by %s (%s)" % (label, type(ex).__name__),
                                     log + [["append original", label]], type(ex).__name__, "accepted", "append"))
                return fails, n
        b1.data_arrays["x"].definition = "original"
        n += 2
        if g.data_arrays[0].definition != "original":
            fails.append(Failure("group list yields the copy instead of the original", log, g.data_arrays[0].definition,
                                 "original", "copy-alias"))
        b1.sources["s"].sources["deep"].definition = "orig-src"
        if g.sources[0].definition != "orig-src":
            fails.append(Failure("source list yields the copy instead of the original", log, g.sources[0].definition,
                                 "orig-src", "copy-alias"))
    finally:
        try:
            f.close()
        except Exception:
            pass
        try:
            os.remove(path)
        except OSError:
            pass
    return fails, n


def audit_file(f, log):
    """model-free audit of a whole file: every link leads to the block's own entity (same HDF5
    object, same content), every linked dimension reports the selected vector of the current data"""
    fails = []
    n = 0

    def same(a, b):
        return a._h5group.group == b._h5group.group

    for b in f.blocks:
        own = {c: {e.id: e for e in getattr(b, c)} for c in ("data_arrays", "tags", "multi_tags")}
        own["sources"] = {s.id: s for s in b.find_sources()}

        def chk(e, store, where):
            o = own[store].get(e.id)
            if o is None or not same(o, e):
                fails.append(Failure("%s of block %s leads to an entity that is not the block's own %s" % (where, b.name,
                                                                                                          store),
                                     list(log), [getattr(e, "name", None), e.id], "an entity of block " + b.name,
                                     "audit-foreign"))
            elif _content(o) != _content(e):
                fails.append(Failure("%s of block %s reads differently from the block's own entity" % (where, b.name),
                                     list(log), _content(e), _content(o), "audit-alias"))

        holders = [(g, "group " + g.name, ("data_arrays", "tags", "multi_tags", "sources")) for g in b.groups]
        holders += [(t, "tag " + t.name, ("references", "sources")) for t in b.tags]
        holders += [(t, "multi-tag " + t.name, ("references", "sources")) for t in b.multi_tags]
        holders += [(a, "array " + a.name, ("sources",)) for a in b.data_arrays]
        for h, hname, cnames in holders:
            for c in cnames:
                for e in getattr(h, c):
                    n += 1
                    chk(e, "data_arrays" if c == "references" else c, "%s.%s" % (hname, c))
        for t in list(b.tags) + list(b.multi_tags):
            for i, ft in enumerate(t.features):
                try:
                    d = ft.data
                except RuntimeError:
                    continue
                n += 1
                if isinstance(d, nixio.DataArray):
                    chk(d, "data_arrays", "%s.features[%d].data" % (t.name, i))
        for t in b.multi_tags:
            for role in ("positions", "extents"):
                try:
                    r = getattr(t, role)
                except RuntimeError:
                    r = None
                if r is not None:
                    n += 1
                    chk(r, "data_arrays", "multi-tag %s.%s" % (t.name, role))
        for a in b.data_arrays:
            for i, d in enumerate(a.dimensions):
                dl = d.dimension_link
                if dl is None or len(dl._h5group) == 0:
                    continue
                n += 1
                if isinstance(d, RangeDimension) and "ticks" in d._h5group:
                    fails.append(Failure("range dimension %s#%d has explicit ticks and a link" % (a.name, i + 1), list(log),
                                         "ticks + link", "one of them", "audit-exclusive"))
                tgt = nixio.DataArray(f, b, dl._linked_group())
                cur = np.array(tgt[:])
                sel = tuple(slice(None) if x == -1 else int(x) for x in dl.index)
                try:
                    exp = [float(v) for v in cur[sel]]
                    got = [float(v) for v in (d.ticks if isinstance(d, RangeDimension) else d.labels)]
                except IndexError:
                    continue
                if got != exp:
                    fails.append(Failure("linked dimension %s#%d does not report the selected vector of the current data"
                                         % (a.name, i + 1), list(log), got, exp, "audit-dimlink"))
                if isinstance(d, RangeDimension) and (d.unit != tgt.unit or d.label != tgt.label):
                    fails.append(Failure("linked range dimension %s#%d does not report the array's unit/label"
                                         % (a.name, i + 1), list(log), [d.unit, d.label], [tgt.unit, tgt.label],
                                         "audit-dimlink"))
    return fails, n


def _audit_hint(ctx, hint, tag):
    """replay the history of a model/implementation disagreement on the implementation and audit the file"""
    ops = hint.get("prefix") if isinstance(hint, dict) else None
    if not ops:
        return [], 0
    path = ctx.tmpfile("c05-hint-%s.nix" % tag)
    impl = Impl5(path)
    fails, n = [], 0
    try:
        for k, op in enumerate(ops):
            if op == ["reopen"] or op == ["noop"]:
                impl.reopen("a")
            else:
                impl.run(op)
            if op[0] in ("append", "set_role", "create_feature", "dim_link", "dim_set_ticks", "da_write", "set_attr",
                         "dim_set_attr") or k == len(ops) - 1:
                with contextlib.redirect_stdout(io.StringIO()):
                    fs, m = audit_file(impl.f, ops[:k + 1])
                n += m
                if fs:
                    fails += fs
                    break
    except Exception:
        pass
    finally:
        impl.close()
        try:
            os.remove(path)
        except OSError:
            pass
    return fails, n


def _scene_run(ctx, rng, steps, tag):
    sc = Scene(ctx, rng, tag, rng.choice([2, 3]))
    try:
        sc.dims_setup()
        sc.refused_link_keeps_ticks()
        acts = [(sc.do_append, 0.26), (sc.do_role, 0.1), (sc.do_feature, 0.07), (sc.do_metadata, 0.07),
                (sc.do_mutate, 0.16), (sc.do_write, 0.1), (sc.do_dim, 0.2), (sc.reopen, 0.04),
                (sc.do_calib, 0.06)]
        tot = sum(w for _, w in acts)
        for _ in range(steps):
            r = rng.random() * tot
            acc = 0.0
            for fn, w in acts:
                acc += w
                if r < acc:
                    break
            try:
                with contextlib.redirect_stdout(io.StringIO()):
                    fn()
            except Exception as ex:
                sc.fail("step raised %s: %s" % (type(ex).__name__, ex), type(ex).__name__, "no exception", "oracle-step")
            if len(sc.fails) > 6:
                break
        sc.check_all("at the end")
        sc.check_dims()
        fs, m = audit_file(sc.f, sc.log)
        sc.fails += fs
        sc.evals += m
        sc.reopen()
    finally:
        sc.close()
    return sc.fails, sc.evals


def oracle(ctx, broken, hints):
    n = ctx.budget(12, 80) * (4 if broken else 1)
    steps = ctx.budget(60, 100)
    failures = []
    evals = 0
    try:
        fs, e = _copy_scenario(ctx, "0")
    except Exception as ex:      # a scenario that cannot even be built on this tree is reported, not an infra error
        fs, e = [Failure("the id-keeping-copy scenario raised %s: %s" % (type(ex).__name__, ex),
                         [["copy scenario"]], type(ex).__name__, "no exception", "oracle-step")], 0
    failures += fs
    evals += e
    for hi, hint in enumerate(hints[:6]):          # the disagreeing histories first
        fs, e = _audit_hint(ctx, hint, str(hi))
        failures += fs
        evals += e
    for k in range(n):
        rng = random.Random("C05-oracle/%d/%d" % (ctx.seed, k))
        try:
            fs, e = _scene_run(ctx, rng, steps, str(k))
        except Exception as ex:
            fs, e = [Failure("building the scene (blocks with equal names, arrays, group, tag, multi-tag, sources) raised "
                             "%s: %s" % (type(ex).__name__, ex), [["scene setup", k]], type(ex).__name__, "no exception",
                             "oracle-step")], 0
        failures += fs
        evals += e
        if len(failures) > 12:
            break
    best = {}
    for f in failures:
        key = (f.site, f.what[:60])
        if key not in best or len(core.canon(f.input)) < len(core.canon(best[key].input)):
            best[key] = f
    out = sorted(best.values(), key=lambda f: len(core.canon(f.input)))
    return {"evaluations": evals, "failures": out, "scenarios": n + 1}


def matches_known(entry, failure):
    return False       # no open findings for C05


def reproduces(ctx, entry):
    return False


def replay_failure(ctx, fj):
    res = oracle(ctx, True, [])
    for f in res["failures"]:
        if f.site == fj.get("site") and f.what[:40] == (fj.get("what") or "")[:40]:
            return f
    for f in res["failures"]:
        if f.site == fj.get("site"):
            return f
    return None
