"""C05 — links are aliases of the original entity, never copies, and stay in their block.

Structural (HDF5 graph) model + dimension links (lean/NixModel/Pure/DimLink.lean).
Correspondence: adaptive seeded histories over two to three blocks with deliberately equal names;
every mutation goes through a randomly chosen access path and is read back through all of them.
Oracle: the property stated on the implementation alone (own bookkeeping of what was linked where).
"""
import contextlib
import io
import os
import random
from fractions import Fraction

import numpy as np
import nixio
from nixio.dimensions import RangeDimension, SetDimension, SampledDimension

from ..lib import core, storegen
from ..extract import linkshape as _ex
from ..lib.storeimpl import Impl, BadOp, ROLES, err_name
from ..lib.core import Failure, Disagreement

PROP = "C05"
LEAN_MODULE = "NixModel.Props.C05"
THEOREMS = [
    "Nix.C05.alias_read",
    "Nix.C05.alias_write_visible",
    "Nix.C05.alias_write_frame",
    "Nix.C05.alias_data_write_visible",
    "Nix.C05.alias_paths_stable",
    "Nix.C05.alias_reopen",
    "Nix.C05.append_links_target_itself",
    "Nix.C05.append_effect",
    "Nix.C05.accept_iff_same_block",
    "Nix.C05.accept_source_iff_in_tree",
    "Nix.C05.accept_role_iff_same_block",
    "Nix.C05.role_links_target_itself",
    "Nix.C05.accept_feature_data_iff_same_block",
    "Nix.C05.feature_data_links_target_itself",
    "Nix.C05.metadata_links_target_itself",
    "Nix.C05.refused_unchanged",
    "Nix.C05.linked_ticks_current_data",
    "Nix.C05.linked_ticks_follow_writes",
    "Nix.C05.linked_labels_current_data",
    "Nix.C05.linked_unit_label",
    "Nix.C05.linked_unit_label_follow_writes",
    "Nix.C05.select_vector_spec",
    "Nix.C05.link_replaces_ticks",
    "Nix.C05.ticks_replace_link",
    "Nix.C05.link_index_checked",
    "Nix.C05.ticks_link_exclusive",
    "Nix.C05.ticks_link_exclusive_invariant",
    "Nix.C05.ticks_link_exclusive_init",
    "Nix.C05.frame_link_index_checked",
    "Nix.C05.linked_frame_values_current_data",
    "Nix.C05.linked_frame_values_follow_writes",
    "Nix.C05.linked_frame_unit_label",
    "Nix.C05.linked_frame_unit_never_refused",
    "Nix.C05.linked_frame_unit_write_visible",
    "Nix.C05.linked_frame_unit_follows_frame_writes",
    "Nix.C05.frame_link_replaces_ticks",
    "Nix.C05.relink_leads_to_new_target",
    "Nix.C05.shape_checks_before_writes",
    "Nix.C05.shape_link_tests_file_first",
    "Nix.C05.shape_link_data_array_writes",
    "Nix.C05.shape_link_data_frame_writes",
    "Nix.C05.shape_remove_link_and_ticks",
    "Nix.C05.shape_membership_by_object",
    "Nix.C05.shape_frame_unit_getter",
    "Nix.C05.shape_frame_unit_setter",
    "Nix.C05.shape_accept_link",
    "Nix.C05.shape_accept_source",
    "Nix.C05.shape_extend",
    "Nix.C05.extend_all_or_nothing",
    "Nix.C05.extend_single_is_append",
    "Nix.C05.detached_refused_by_lists",
    "Nix.C05.detached_refused_by_extend",
    "Nix.C05.detached_refused_by_roles",
    "Nix.C05.deleted_is_detached",
    "Nix.C05.shape_positions_setter",
    "Nix.C05.shape_extents_setter",
    "Nix.C05.shape_feature_data_setter",
    "Nix.C05.shape_create_link",
    "Nix.C05.set_ticks_accepted_iff",
    "Nix.C05.freeze_ticks",
    "Nix.C05.kept_handle_cases",
    "Nix.C05.detached_stays_detached",
    "Nix.C05.deleted_entity_refused_forever",
    "Nix.C05.entities_inside_a_copy_refused",
    "Nix.C05.source_list_takes_only_the_source_walk",
    "Nix.C05.member_list_takes_only_store_entries",
    "Nix.C05.not_a_sources_entry_refused",
    "Nix.C05.not_a_sources_entry_refused_by_extend",
    "Nix.C05.not_a_store_entry_refused",
]
ASSUMPTIONS = [
    "HDF5 hard links are second names of one object (modelled: a link stores the target node's key); h5py object "
    "equality (`group == group`) is identity of the HDF5 object",
    "uuid4 ids are drawn from an abstract fresh supply; id-keeping / id-regenerating copies of arrays, tags and multi-tags "
    "(create_*(copy_from=...)) occur in the modelled histories (Store/Copy.lean, content tables follow the duplicated nodes: "
    "Pure/DimLinkCopy.lean); copies of whole blocks and sections are checked by the implementation-side oracle only",
    "array content is the exact rational value of the stored doubles; NumPy basic indexing with integers and one "
    "full slice is modelled by row-major offset arithmetic (Pure/DimLink.lean selectVector)",
    "data frames are modelled in the one form the generators build (float columns with distinct names, no units at all "
    "or one unit / None per column, write_column by index, units assigned to the frame or through a dimension link; the "
    "unit texts are fixed points of the unit sanitizer); link_data_array handed a DataFrame (accepted by the code, which never looks at "
    "the class of its argument) is not generated",
    "the pre-1.5 alias-range layout and polynomial calibration are outside the model (DimensionLink reads the "
    "stored values)",
    "a kept entity handle is modelled as nixio's H5Group has it: parent group object, link name, opened object; it stands "
    "for what its name leads to in the parent when the name exists there, else for the opened object (HDF5 keeps an "
    "unlinked object alive while a handle is open; the model never drops a node)",
]
TRUSTED_EXTRA = ["harness/extract/linkshape.py (ast translator of the link methods), harness/lib/storeimpl.py + storegen.py + harness/props/c05.py Impl5 (path addressing by iteration, "
                 "access through a dimension link via DimensionLink._linked_group)"]
READY = True
MANIFEST = {
    "level_text": "Kernel-checked theorems over the Lean model of the HDF5 object graph, nixio's link containers / role "
                  "links and dimension links: two paths to one node read the same attributes and data in every graph, a "
                  "write through one path is visible through every other and after reopen, append links the target node "
                  "itself (entries = old entries without that id ++ [new]); append / positions / extents / feature data "
                  "succeed iff the item has the right kind and is the object stored under its name in the owning block "
                  "(sources: its id occurs in the block's source tree), otherwise the graph is unchanged; a linked "
                  "range/set dimension reads the selected vector of the array's current data and the array's unit/label, "
                  "a range/set dimension linked to a column of a data frame (link_data_frame) reads that column of the frame's "
                  "current rows and the column's name, also after write_column through any path; its unit is what DataFrame.units "
                  "shows for that column (None for a frame without units or an entry without unit), the read is never "
                  "refused, and dim.unit = text / '' / None is an accepted write to the frame's units (frame with or without "
                  "units) seen through the dimension and the frame alike, as is frame.units = ... through any path; a re-link leads to the "
                  "node handed in whatever id it carries; "
                  "explicit ticks and a link exclude each other after every dimension operation. The complete bodies of "
                  "LinkContainer._accept and SourceLinkContainer._accept are regenerated statement by statement (no statement "
                  "lets an item through before the membership test) and, run on any graph, list and key, are proved to decide "
                  "as the model's append does; extend is proved all-or-nothing (every item checked in the unchanged graph, "
                  "extend([x]) = append(x)); a node no group links any more (what a handle kept across the deletion of its "
                  "entity stands for) is proved refused by every list (append and extend), by positions / extents and by "
                  "feature data (the positions / extents / Feature.data setters too are regenerated statement by statement and proved "
                  "equal to the model on every graph and value: all refusals before the first write), and deleting an entity from its block is proved to leave it such a node - for ALL later histories "
                  "(creations, also under its old name, deletions, append, extend, role links, attribute writes, reopen, and any "
                  "of these calls handed any kept handle: every call only links what was linked before or is new, so the node is "
                  "never linked again and every later state refuses it); no node an HDF5 copy made inside a copied tag / multi-tag / "
                  "array (the duplicates of what the source links to, carrying the names and ids of members) is a member of a block "
                  "that existed before: lists, positions / extents and feature data refuse it. Whatever a source list accepts is "
                  "reached from its block through `sources` groups only (the walk of find_sources: no metadata / Section.link / "
                  "properties / references / feature / dimension link is followed), whatever a member list accepts is an entry of "
                  "the block's own container group of the list's kind: an object that is no entry of a `sources` group (a Section "
                  "that is the metadata of a source of the block, anything below or linked from it) is refused by every source "
                  "list (append and extend), an entity of another kind or outside the block's container by every member list. "
                  "The statement lists of "
                  "link_data_array / link_data_frame / remove_link / the ticks setter, the DataFrame branch of the DimensionLink.unit "
                  "getter and setter, the membership tests in front of "
                  "every link assignment and the object comparisons of Container.__contains__ / SourceLinkContainer are "
                  "regenerated from the sources (Generated/LinkShape.lean): theorems show that all checks precede the first "
                  "write, that the generated writes are the model's and that the generated unit getter / setter branch, executed on "
                  "any frame content, is the model's linkFrameUnit / setFrameUnit. Tied to the code also by "
                  "differential execution of seeded histories on real HDF5 files (2-3 blocks with equal names, every "
                  "mutation through a random path, read back through all paths, handles kept across deletions and re-creations "
                  "and offered to lists / roles / features, copies of tags / multi-tags / arrays whose inner entities (same name and id "
                  "as a member, living only inside the copy) are read, kept and offered likewise, extend with members and "
                  "non-members, HDF5-level dumps) and an "
                  "implementation-side oracle that also offers handles standing for no member of the block (kept across a "
                  "deletion, entities inside a copied tag / multi-tag, entities of a deleted block; taken from the same Block "
                  "object as the list) to every list, role link and feature, offers entities of the WRONG kind that hang below / are "
                  "linked from the block's own structure (metadata sections of its sources / arrays / tags / groups, their subsections, "
                  "linked sections and properties, features, dimension links, sources / arrays reached through an entity's links, the "
                  "block itself) to every list, positions / extents and feature data, assigns the value a getter returns (explicit ticks = "
                  "the linked values) and whose scene holds pairs of distinct entities with the same id (id-keeping copies "
                  "inside a block, across blocks, a whole copied block, a copied section), keeps its books by HDF5 object "
                  "identity and re-points every kind of link (lists, positions/extents, feature data, metadata, dimension "
                  "links to arrays and frame columns) between such pairs.",
    "level_note": "Partial aspects: the invariant 'no range dimension has both ticks and a link' is proved to hold initially "
                  "and to be kept (for all descriptors of the file) by set-ticks, link_data_array, link_data_frame, remove_link, "
                  "set-labels, unit/label writes, array data writes, frame column writes and frame.units writes; the lift to arbitrary histories (Nix.C05.ExclusiveInvariant, kept as a statement) also needs "
                  "frame facts about append_*_dimension and the structural operations, which are only checked by the "
                  "correspondence. append_effect / linked-dimension theorems assume the fresh-key condition of the graph "
                  "(node? nextKey = none; C03's reachable_wf provides it for reachable graphs). Copies of whole blocks / sections occur "
                  "only in the implementation-side oracle (the theorems hold for arbitrary graphs, so also for graphs with equal "
                  "ids; copies of arrays / tags / multi-tags are part of the modelled histories). detached_stays_detached speaks "
                  "about the structural and handle-offering calls (dimension links do not test block membership, the property "
                  "does not ask for it). The legacy alias layout and calibration are not modelled. Trusted: Lean kernel, standard axioms, the "
                  "correspondence harness, h5py/HDF5 hard-link semantics.",
}



def extract(repo):
    return _ex.extract(repo)


DIMKIND = {RangeDimension: "dim_range", SetDimension: "dim_set", SampledDimension: "dim_sample"}


def fr(x):
    f = Fraction(float(x))
    return "%d/%d" % (f.numerator, f.denominator)


def unfr(s):
    return float(Fraction(s))


# ---------------------------------------------------------------------------------------
# implementation runner: the store protocol + arrays with content + dimensions


class Impl5(Impl):
    """the store protocol on a real file.  Like a program that keeps `blk = f.blocks[name]` and takes everything from
    it, the runner keeps ONE Block object per block (until the file is reopened): every handle it navigates to has
    that object as its Python parent.  `hold` keeps a handle alive under a name for later `…_h` operations."""

    def __init__(self, path, literal_uuid_names=()):
        Impl.__init__(self, path, literal_uuid_names)
        self._blocks = {}
        self.held = {}

    def reopen(self, mode="a"):
        self._blocks = {}
        self.held = {}
        Impl.reopen(self, mode)

    def block(self, name):
        b = self._blocks.get(name)
        if b is not None:
            try:
                if name in self.f.blocks and bool(self.f.blocks[name]._h5group.group == b._h5group.group):
                    return b
            except Exception:
                pass
            del self._blocks[name]
        for e in self.f.blocks:
            if e.name == name:
                self._blocks[name] = e
                return e
        return None

    def key_arg(self, k):
        if "h" in k:
            if k["h"] not in self.held:
                raise BadOp("no such handle")
            return self.held[k["h"]]
        return Impl.key_arg(self, k)

    def nav(self, path):
        cur = self.f
        i = 0
        if len(path) >= 2 and path[0] == "data" and isinstance(path[1], str):
            cur = self.block(path[1])
            if cur is None:
                raise BadOp("no item named %r" % path[1])
            i = 2
        while i < len(path):
            seg = path[i]
            if isinstance(cur, nixio.DataArray) and seg == "dimensions":
                if i + 1 >= len(path):
                    raise BadOp("path ends in a container")
                idx = int(path[i + 1])
                dims = cur.dimensions
                if idx < 1 or idx > len(dims):
                    raise BadOp("no dimension %d" % idx)
                dim = dims[idx - 1]
                i += 2
                if i >= len(path):
                    return dim
                if path[i] != "link" or i + 1 >= len(path) or path[i + 1] != 0:
                    raise BadOp("bad dimension path")
                dl = dim.dimension_link
                if dl is None:
                    raise BadOp("no link")
                try:
                    grp = dl._linked_group()
                except Exception:
                    raise BadOp("dangling link")
                cls = nixio.DataFrame if dl._data_object_type == "DataFrame" else nixio.DataArray
                cur = cls(self.f, cur._parent, grp)
                i += 2
                continue
            if not isinstance(cur, nixio.File) and seg in ROLES:
                try:
                    cur = getattr(cur, seg)
                except RuntimeError:
                    raise BadOp("role %s dangling" % seg)
                if cur is None:
                    raise BadOp("role %s not set" % seg)
                i += 1
                continue
            cont = self.container(cur, seg)
            if i + 1 >= len(path):
                raise BadOp("path ends in a container")
            sel = path[i + 1]
            if isinstance(sel, int):
                try:
                    cur = cont[sel]
                except (IndexError, KeyError):
                    raise BadOp("no item at position %d" % sel)
            else:
                found = None
                for e in cont:
                    if getattr(e, "name", None) == sel:
                        found = e
                        break
                if found is None:
                    raise BadOp("no item named %r" % sel)
                cur = found
            i += 2
        return cur

    def array(self, path):
        a = self.nav(path)
        if not isinstance(a, nixio.DataArray):
            raise AttributeError("not a DataArray")
        return a

    def dim(self, path, i):
        a = self.array(path)
        dims = a.dimensions
        if i < 1 or i > len(dims):
            raise IndexError("no such dimension")
        return dims[i - 1]

    def read_entity(self, e):
        data = None
        if isinstance(e, nixio.DataArray):
            arr = np.array(e._h5group.get_data("data"))
            data = {"shape": [int(n) for n in arr.shape], "vals": [fr(v) for v in arr.reshape(-1)]}

        def sattr(a):
            if isinstance(e, nixio.Feature):
                return None
            if a in ("unit", "label") and not isinstance(e, (nixio.DataArray, nixio.Property)):
                return None
            v = getattr(e, a, None)
            return v if (v is None or isinstance(v, str)) else str(v)

        units = None
        if isinstance(e, nixio.DataFrame):
            us = e.units                     # None for a frame without units, else one entry (text or None) per column
            units = None if us is None else [None if u is None else str(u) for u in us]
        return {"ident": self.ident(e), "type": sattr("type"), "definition": sattr("definition"),
                "unit": sattr("unit"), "label": sattr("label"), "data": data, "units": units}

    def read_dim(self, dim):
        kind = DIMKIND[type(dim)]
        dl = dim.dimension_link
        dangling = dl is not None and len(dl._h5group) == 0

        def field(fn):
            try:
                return fn()
            except Exception as e:  # canonicalised by class; a dangling link is one class whatever h5py raises
                return {"err": "RuntimeError" if dangling else err_name(e)}

        def labels():
            ls = dim.labels
            if dim.has_link:
                return {"nums": [fr(v) for v in ls]}
            return {"strs": [str(v) for v in ls]}

        target = None
        isframe = dl is not None and dl._data_object_type == "DataFrame"
        if dl is not None:
            if dangling:
                target = "dangling"
            else:
                cls = nixio.DataFrame if isframe else nixio.DataArray
                target = self.ident(cls(self.f, dim._parent._parent, dl._linked_group()))
        return {
            "kind": kind,
            "has_link": bool(dim.has_link),
            "is_alias": bool(dim.is_alias) if kind == "dim_range" else None,
            "ticks": field(lambda: [fr(v) for v in dim.ticks]) if kind == "dim_range" else None,
            "labels": field(labels) if kind == "dim_set" else None,
            "unit": None if kind == "dim_set" else field(lambda: dim.unit),
            "label": field(lambda: dim.label),
            "link_id": self.cid(dl.id) if dl is not None else None,
            "index": ([int(dl.index)] if isframe else [int(x) for x in dl.index]) if dl is not None else None,
            "link_type": dl._data_object_type if dl is not None else None,
            "target": target,
        }

    def run(self, op):
        out = Impl.run(self, op)
        if out.get("err") == "UnsupportedLinkType":      # (a class of its own in nixio; the structural model says ValueError)
            out = {"err": "ValueError"}
        return out

    def _run(self, op):
        kind = op[0]
        if kind == "create_da":
            owner = self.nav(op[1])
            if not isinstance(owner, nixio.Block):
                raise AttributeError("create_data_array")
            vals = np.array([unfr(v) for v in op[5]], dtype=float).reshape(tuple(op[4]))
            owner.create_data_array(self.name_arg(op[2]), op[3], data=vals)
            return None
        if kind == "da_write":
            a = self.array(op[1])
            a.write_direct(np.array([unfr(v) for v in op[2]], dtype=float).reshape(a.shape))
            return None
        if kind == "read":
            return self.read_entity(self.nav(op[1]))
        if kind == "dim_append":
            a = self.array(op[1])
            spec = op[2]
            if spec["kind"] == "set":
                a.append_set_dimension(spec.get("labels"))
            elif spec["kind"] == "sampled":
                a.append_sampled_dimension(1.0)
            else:
                ticks = spec.get("ticks")
                a.append_range_dimension([unfr(t) for t in ticks] if ticks is not None else None,
                                         spec.get("label"), spec.get("unit"))
            return None
        if kind == "dim_link":
            dim = self.dim(op[1], op[2])
            dim.link_data_array(self.nav(op[3]), list(op[4]))
            return None
        if kind == "create_df":
            owner = self.nav(op[1])
            if not isinstance(owner, nixio.Block):
                raise AttributeError("create_data_frame")
            rows = [tuple(unfr(v) for v in r) for r in op[6]]
            df = owner.create_data_frame(self.name_arg(op[2]), op[3], col_names=list(op[4]),
                                         col_dtypes=[float] * len(op[4]), data=rows)
            if op[5] is not None:            # null: the frame stays without units (no `units` attribute)
                df.units = list(op[5])
            return None
        if kind == "df_set_units":
            df = self.nav(op[1])
            if not isinstance(df, nixio.DataFrame):
                raise AttributeError("units")
            df.units = list(op[2])
            return None
        if kind == "df_write_col":
            df = self.nav(op[1])
            if not isinstance(df, nixio.DataFrame):
                raise AttributeError("write_column")
            df.write_column([unfr(v) for v in op[3]], index=int(op[2]))
            return None
        if kind == "dim_link_df":
            dim = self.dim(op[1], op[2])
            dim.link_data_frame(self.nav(op[3]), int(op[4]))
            return None
        if kind == "dim_unlink":
            self.dim(op[1], op[2]).remove_link()
            return None
        if kind == "dim_set_ticks":
            dim = self.dim(op[1], op[2])
            if not isinstance(dim, RangeDimension):
                raise AttributeError("ticks")
            dim.ticks = [unfr(t) for t in op[3]]
            return None
        if kind == "dim_set_labels":
            dim = self.dim(op[1], op[2])
            if not isinstance(dim, SetDimension):
                raise AttributeError("labels")
            dim.labels = list(op[3])
            return None
        if kind == "dim_set_attr":
            dim = self.dim(op[1], op[2])
            if op[3] not in ("unit", "label") or not isinstance(getattr(type(dim), op[3], None), property):
                raise AttributeError(op[3])
            dl = dim.dimension_link
            if isinstance(dim, RangeDimension) and dl is not None and len(dl._h5group) == 0:
                raise RuntimeError("dangling dimension link")       # h5py raises assorted classes here
            setattr(dim, op[3], op[4])
            return None
        if kind == "dim_read":
            try:
                dim = self.dim(op[1], op[2])
            except (IndexError, AttributeError):
                raise BadOp("no such dimension")
            return self.read_dim(dim)
        if kind == "dim_count":
            try:
                return len(self.array(op[1]).dimensions)
            except AttributeError:
                raise BadOp("no such array")
        if kind == "copy_into":             # ["copy_into", dest block path, what, source path, name, keep_id]
            _, dp, what, sp, name, keep = op
            blk, src = self.nav(dp), self.nav(sp)
            if not isinstance(blk, nixio.Block):
                raise AttributeError("not a block")
            make = {"data_array": "create_data_array", "tag": "create_tag", "multi_tag": "create_multi_tag"}.get(what)
            if make is None:
                raise AttributeError(what)
            getattr(blk, make)(name=name, copy_from=src, keep_copy_id=keep)
            return None
        if kind == "hold":
            e = self.nav(op[2])
            self.held[op[1]] = e
            return self.ident(e)
        if kind == "read_h":
            if op[1] not in self.held:
                raise BadOp("no such handle")
            return self.read_entity(self.held[op[1]])
        if kind == "append_h":
            cont = self.container(self.nav(op[1]), op[2])
            cont.append(self.key_arg(op[3]))
            return None
        if kind == "extend":
            cont = self.container(self.nav(op[1]), op[2])
            cont.extend([self.key_arg(k) for k in op[3]])
            return None
        if kind == "has_h":
            cont = self.container(self.nav(op[1]), op[2])
            return bool(self.key_arg(op[3]) in cont)
        if kind == "set_role_h":
            owner = self.nav(op[1])
            if op[3] not in self.held:
                raise BadOp("no such handle")
            if not hasattr(type(owner), op[2]):
                raise AttributeError(op[2])
            setattr(owner, op[2], self.held[op[3]])
            return None
        if kind == "create_feature_h":
            owner = self.nav(op[1])
            if op[2] not in self.held:
                raise BadOp("no such handle")
            owner.create_feature(self.held[op[2]], op[3])
            return None
        return Impl._run(self, op)


# ---------------------------------------------------------------------------------------
# generator: histories in lockstep with the real file

BLOCKS = ["b1", "b2", "b3"]
ARR_NAMES = ["x", "y", "pos", "ext", "é"]
SHAPES = [[2], [3], [4], [2, 3], [3, 2], [2, 2], [2, 2, 3], [1, 3], [3, 1, 2]]
STRS = [None, "x", "mV", "s", "é", "label two"]
UNITS = [None, "mV", "s", "x", "kg"]       # fixed points of the unit sanitizer
DIM_UNITS = [None, "", "mV", "s", "kg"]    # assigned through a dimension: None, the empty text, texts
# a frame is made without units (None: no `units` attribute), with a unit for every column, or with gaps
FRAME_UNITS = [None, None, ["s", "mV", "kg"], ["s", None, "kg"], [None, None, None], ["s", "mV", "kg"]]
LINK_LISTS = [("groups", "data_arrays", "data_array"), ("groups", "tags", "tag"), ("groups", "multi_tags", "multi_tag"),
              ("groups", "sources", "source"), ("tags", "references", "data_array"),
              ("multi_tags", "references", "data_array"), ("tags", "sources", "source"),
              ("multi_tags", "sources", "source"), ("data_arrays", "sources", "source")]
STORE_OF = {"data_array": "data_arrays", "tag": "tags", "multi_tag": "multi_tags", "group": "groups"}


class Known:
    """one owned entity: kind, block, every access path currently leading to it"""

    def __init__(self, kind, block, path, name):
        self.kind, self.block, self.name = kind, block, name
        self.paths = [path]


def survey(impl):
    """walks the file through the public API: owned entities by id, with all alias paths"""
    f = impl.f
    ents = {}

    def reg(e, kind, block, path):
        ents[e.id] = Known(kind, block, path, e.name)

    def alias(e, path):
        k = ents.get(e.id)
        if k is not None:
            k.paths.append(path)

    def sources(owner, path, block):
        for s in owner.sources:
            p = path + ["sources", s.name]
            reg(s, "source", block, p)
            try:        # the section a source links to as metadata hangs below the block's `sources` group in the file
                m = s.metadata
            except Exception:
                m = None
            if m is not None:
                alias(m, p + ["metadata"])
            sources(s, p, block)

    def sections(owner, path, cname):
        for s in owner.sections:
            p = path + [cname, s.name]
            reg(s, "section", None, p)
            sections(s, p, "sections")

    sections(f, [], "metadata")
    for b in f.blocks:
        bp = ["data", b.name]
        reg(b, "block", b.name, bp)
        for cname, kind in (("data_arrays", "data_array"), ("tags", "tag"), ("multi_tags", "multi_tag"),
                            ("groups", "group"), ("data_frames", "data_frame")):
            for e in getattr(b, cname):
                reg(e, kind, b.name, bp + [cname, e.name])
        sources(b, bp, b.name)
    dims = []          # (array path, i, kind, target id or None)
    feats = []         # (feature path, block)
    for b in f.blocks:
        bp = ["data", b.name]

        def lists(owner, op, names):
            for cname in names:
                for i, e in enumerate(getattr(owner, cname)):
                    alias(e, op + [cname, i])

        def meta(owner, op):
            try:
                m = owner.metadata
            except Exception:
                m = None
            if m is not None:
                alias(m, op + ["metadata"])

        meta(b, bp)
        for g in b.groups:
            gp = bp + ["groups", g.name]
            lists(g, gp, ("data_arrays", "tags", "multi_tags", "sources"))
            meta(g, gp)
        for cname in ("tags", "multi_tags"):
            for t in getattr(b, cname):
                tp = bp + [cname, t.name]
                lists(t, tp, ("references", "sources"))
                meta(t, tp)
                for i, ft in enumerate(t.features):
                    feats.append((tp + ["features", i], b.name))
                    try:
                        alias(ft.data, tp + ["features", i, "data"])
                    except Exception:
                        pass
                if cname == "multi_tags":
                    for role in ("positions", "extents"):
                        try:
                            r = getattr(t, role)
                        except Exception:
                            r = None
                        if r is not None:
                            alias(r, tp + [role])
        for a in b.data_arrays:
            ap = bp + ["data_arrays", a.name]
            lists(a, ap, ("sources",))
            meta(a, ap)
            for i, d in enumerate(a.dimensions):
                tid = None
                dl = d.dimension_link
                if dl is not None and len(dl._h5group):
                    tid = dl._linked_group().get_attr("entity_id")
                    if tid in ents:
                        ents[tid].paths.append(ap + ["dimensions", str(i + 1), "link", 0])
                dims.append((ap, i + 1, DIMKIND[type(d)], tid))
    return ents, dims, feats


class Gen5:
    def __init__(self, rng, impl, profile):
        self.rng, self.impl, self.profile = rng, impl, profile
        self.ops, self.outs = [], []
        self.tags = {}

    def do(self, op, tag=None):
        out = self.impl.run(op)
        self.ops.append(op)
        self.outs.append(out)
        if tag:
            key = tag + ("/refused" if "err" in out else "/ok" if "ok" in out else "/bad")
            self.tags[key] = self.tags.get(key, 0) + 1
        return out

    def vals(self, shape):
        n = int(np.prod(shape))
        return ["%d/%d" % (Fraction(self.rng.randrange(-20, 40), 4).numerator,
                           Fraction(self.rng.randrange(-20, 40), 4).denominator) for _ in range(n)]

    def rvals(self, shape):
        n = int(np.prod(shape))
        out = []
        for _ in range(n):
            q = Fraction(self.rng.randrange(-20, 40), self.rng.choice([1, 2, 4]))
            out.append("%d/%d" % (q.numerator, q.denominator))
        return out

    def setup(self):
        rng = self.rng
        nb = rng.choice([2, 2, 3])
        for b in BLOCKS[:nb]:
            self.do(["create_block", b, "t"])       # blocks first: nixio creates /data before /metadata
        self.do(["create_section", [], "sec", "t"])
        self.do(["create_section", ["metadata", "sec"], "sub", "t"])
        self.do(["create_section", [], "other", "t"])
        for b in BLOCKS[:nb]:
            bp = ["data", b]
            for nm in ARR_NAMES[:rng.choice([3, 4, 5])]:
                shape = [rng.choice([2, 3])] if nm in ("pos", "ext") else rng.choice(SHAPES)
                self.do(["create_da", bp, nm, "t", shape, self.rvals(shape)])
            for fn in ("df", "x")[:rng.choice([1, 2])]:          # (a frame may share its name with an array)
                nrows = rng.choice([2, 3])
                rows = [[fr(i), fr(rng.randrange(-8, 8) / 2.0), fr(rng.randrange(5))] for i in range(nrows)]
                # every history has a frame without units (the first one made); the others: without, full, with gaps
                units = None if (b == BLOCKS[0] and fn == "df") else rng.choice(FRAME_UNITS)
                self.do(["create_df", bp, fn, "t", ["t", "v", "w"], units, rows],
                        "create_df/" + ("no-units" if units is None else "units-with-gaps" if None in units else "units"))
            for g in ("g", "h")[:rng.choice([1, 2])]:
                self.do(["create", bp, "group", g, "t", None])
            self.do(["create", bp, "tag", "tg", "t", None])
            self.do(["create", bp, "multi_tag", "mt", "t", bp + ["data_arrays", "pos"]])
            self.do(["create", bp, "source", "s", "t", None])
            self.do(["create", bp + ["sources", "s"], "source", "deep", "t", None])
            if rng.random() < 0.5:
                self.do(["create", bp + ["sources", "s", "sources", "deep"], "source", "deeper", "t", None])
            if rng.random() < 0.5:
                self.do(["create", bp, "source", "s2", "t", None])

    def read_all(self, k):
        for p in k.paths:
            self.do(["read", p], "read")

    def pick(self, ents, kind=None, block=None, notblock=None):
        c = [k for k in ents.values() if (kind is None or k.kind == kind) and (block is None or k.block == block)
             and (notblock is None or (k.block is not None and k.block != notblock))]
        return self.rng.choice(c) if c else None

    def anypath(self, k):
        return self.rng.choice(k.paths)

    def pick_aliased(self, ents, kinds):
        """prefer entities reachable through many paths"""
        c = [k for k in ents.values() if k.kind in kinds]
        if not c:
            return None
        return self.rng.choices(c, weights=[len(k.paths) ** 2 for k in c])[0]

    def index_vector(self, shape, bad=False):
        rng = self.rng
        rank = len(shape)
        iv = [rng.randrange(n) for n in shape]
        iv[rng.randrange(rank)] = -1
        if bad:
            r = rng.random()
            if r < 0.2:
                return iv + [0]                        # rank mismatch
            if r < 0.35 and rank > 1:
                return iv[:-1] if iv[-1] != -1 else iv[1:]      # rank mismatch (may also lose the -1)
            if r < 0.5:
                return [0 if x == -1 else x for x in iv]    # no -1
            if r < 0.65 and rank > 1:
                return [-1] * rank                     # two -1
            if r < 0.8 and rank > 1:
                j = [i for i, x in enumerate(iv) if x != -1][0]
                iv[j] = -2                             # another negative entry
                return iv
            if rank > 1:
                j = [i for i, x in enumerate(iv) if x != -1][0]
                iv[j] = shape[j] + rng.randrange(2)    # accepted by the link, IndexError when read
                return iv
        return iv

    def shape_of(self, k):
        out = self.impl.run(["read", k.paths[0]])
        d = (out.get("ok") or {}).get("data")
        return d["shape"] if d else None

    def step(self):
        rng = self.rng
        ents, dims, feats = survey(self.impl)
        weights = {
            "links": [("append", 0.3), ("role", 0.14), ("mutate", 0.2), ("write", 0.08), ("dim", 0.12), ("unlink", 0.06),
                      ("delete", 0.04), ("feature", 0.06), ("fwrite", 0.02), ("funit", 0.04), ("handle", 0.08),
                      ("extend", 0.05), ("copy", 0.05)],
            "dims": [("dim", 0.5), ("write", 0.16), ("fwrite", 0.08), ("mutate", 0.12), ("append", 0.08), ("delete", 0.04),
                     ("role", 0.04), ("funit", 0.12), ("handle", 0.03)],
        }[self.profile]
        r = rng.random() * sum(w for _, w in weights)
        action = weights[-1][0]
        acc = 0.0
        for a, w in weights:
            acc += w
            if r < acc:
                action = a
                break
        getattr(self, "a_" + action)(ents, dims, feats)

    # -- actions -----------------------------------------------------------------------
    def a_append(self, ents, dims, feats):
        rng = self.rng
        ocont, cname, kind = rng.choice(LINK_LISTS)
        okind = {"groups": "group", "tags": "tag", "multi_tags": "multi_tag", "data_arrays": "data_array"}[ocont]
        owner = self.pick(ents, okind)
        if owner is None:
            return
        r = rng.random()
        if r < 0.62:
            tgt, tag = self.pick(ents, kind, block=owner.block), "append/same-block"
        elif r < 0.88:
            tgt, tag = self.pick(ents, kind, notblock=owner.block), "append/foreign"
        elif r < 0.94:
            tgt, tag = self.pick(ents), "append/any-kind"
        else:
            # an entity of another kind that something links to (the metadata section of a source / array / tag, an
            # array a tag refers to ...), offered through one of those links or through its owner
            linked = [k for k in ents.values() if k.kind != kind and len(k.paths) > 1]
            tgt, tag = (rng.choice(linked) if linked else self.pick(ents)), "append/linked-wrong-kind"
        if tgt is None:
            return
        op = owner.paths[0]
        before = self.do(["list", op, cname])
        key = {"o": self.anypath(tgt)} if rng.random() < 0.85 else {"id": tgt.paths[0]}
        self.do(["append", op, cname, key], tag)
        self.do(["list", op, cname])
        self.do(["has", op, cname, {"o": tgt.paths[0]}])
        n = len(before.get("ok") or []) + 1
        for i in range(min(n, 4)):
            self.do(["read", op + [cname, i]])
        self.do(["get", op, cname, {"id": tgt.paths[0]}])
        if tgt.name:
            self.do(["get", op, cname, {"s": tgt.name}])

    def a_role(self, ents, dims, feats):
        rng = self.rng
        r = rng.random()
        if r < 0.45:
            mt = self.pick(ents, "multi_tag")
            if mt is None:
                return
            role = rng.choice(["positions", "extents"])
            q = rng.random()
            if q < 0.55:
                tgt, tag = self.pick(ents, "data_array", block=mt.block), "role/same-block"
            elif q < 0.85:
                tgt, tag = self.pick(ents, "data_array", notblock=mt.block), "role/foreign"
            elif q < 0.93:
                tgt, tag = self.pick(ents), "role/any-kind"
            else:
                tgt, tag = None, "role/none"
            self.do(["set_role", mt.paths[0], role, self.anypath(tgt) if tgt else None], tag)
            self.do(["role", mt.paths[0], role])
            self.do(["read", mt.paths[0] + [role]])
        elif r < 0.8:
            owner = self.pick(ents, rng.choice(["block", "group", "data_array", "tag", "multi_tag", "source"]))
            sec = self.pick(ents, "section" if rng.random() < 0.9 else None)
            if owner is None or sec is None:
                return
            via = self.anypath(owner)
            if rng.random() < 0.15:
                self.do(["set_role", via, "metadata", None], "metadata/del")
            else:
                self.do(["set_role", via, "metadata", self.anypath(sec)], "metadata/set")
            for p in owner.paths:
                self.do(["role", p, "metadata"])
        else:
            if not feats:
                return
            fp, fb = rng.choice(feats)
            self.featdata_offer(ents, fp, fb)

    def featdata_offer(self, ents, fp, fb):
        """`feature.data = x` on an existing feature: an array / a data frame of the block or of another one, any entity"""
        rng = self.rng
        q = rng.random()
        if q < 0.4:
            tgt, tag = self.pick(ents, "data_array", block=fb), "featdata/same-block"
        elif q < 0.6:
            tgt, tag = self.pick(ents, "data_array", notblock=fb), "featdata/foreign"
        elif q < 0.8:
            # a DataFrame of the block: accepted by an untagged / indexed feature, refused by a tagged one
            tgt, tag = self.pick(ents, "data_frame", block=fb), "featdata/frame-same-block"
        elif q < 0.92:
            tgt, tag = self.pick(ents, "data_frame", notblock=fb), "featdata/frame-foreign"
        else:
            tgt, tag = self.pick(ents), "featdata/any-kind"
        if tgt is None:
            return
        self.do(["set_role", fp, "data", self.anypath(tgt)], tag)
        self.do(["role", fp, "data"])
        self.do(["read", fp + ["data"]])

    def a_feature(self, ents, dims, feats):
        rng = self.rng
        tg = self.pick(ents, rng.choice(["tag", "multi_tag"]))
        if tg is None:
            return
        q = rng.random()
        if q < 0.6:
            da, tag = self.pick(ents, "data_array", block=tg.block), "feature/same-block"
        elif q < 0.9:
            da, tag = self.pick(ents, "data_array", notblock=tg.block), "feature/foreign"
        else:
            da, tag = self.pick(ents), "feature/any-kind"
        if da is None:
            return
        out = self.do(["create_feature", tg.paths[0], self.anypath(da), rng.choice(["tagged", "untagged", "indexed"])], tag)
        n = len(self.do(["list", tg.paths[0], "features"]).get("ok") or [])
        if "ok" in out and n and rng.random() < 0.7:
            # the data link of the new feature is re-pointed right away (an array, a data frame, something foreign)
            self.featdata_offer(ents, tg.paths[0] + ["features", n - 1], tg.block)

    def a_mutate(self, ents, dims, feats):
        rng = self.rng
        k = self.pick_aliased(ents, ["data_array", "tag", "multi_tag", "source", "section", "group", "data_frame"])
        if k is None:
            return
        attr = rng.choice(["definition", "type", "label", "unit"] if k.kind == "data_array" else ["definition", "type"])
        val = rng.choice(UNITS if attr == "unit" else STRS)
        self.do(["set_attr", self.anypath(k), attr, val], "mutate/%d-paths" % min(len(k.paths), 4))
        self.read_all(k)
        if k.kind == "data_array":
            for ap, i, _, tid in dims:
                if tid is not None and ents.get(tid) is k:
                    self.do(["dim_read", ap, i])

    def a_write(self, ents, dims, feats):
        k = self.pick_aliased(ents, ["data_array"])
        if k is None:
            return
        shape = self.shape_of(k)
        if shape is None:
            return
        bad = self.rng.random() < 0.05
        vals = self.rvals(shape + [2] if bad else shape)
        self.do(["da_write", self.anypath(k), vals], "write/%d-paths" % min(len(k.paths), 4))
        self.read_all(k)
        for ap, i, _, tid in dims:
            if tid is not None and ents.get(tid) is k:
                self.do(["dim_read", ap, i], "dim_read/after-write")

    def a_fwrite(self, ents, dims, feats):
        """rewrite one column of a data frame through any path to it; dimensions linked to it follow"""
        rng = self.rng
        k = self.pick_aliased(ents, ["data_frame"])
        if k is None:
            return
        try:
            nrows = len(self.impl.nav(k.paths[0]))
        except Exception:
            return
        c = rng.choice([0, 1, 2, 2, 1, 3]) if rng.random() < 0.3 else rng.randrange(3)
        n = nrows + (1 if rng.random() < 0.06 else 0)
        vals = [fr(rng.randrange(-20, 40) / 4.0) for _ in range(n)]
        self.do(["df_write_col", self.anypath(k), c, vals], "df_write_col/%d-paths" % min(len(k.paths), 4))
        for ap, i, _, tid in dims:
            if tid is not None and ents.get(tid) is k:
                self.do(["dim_read", ap, i], "dim_read/after-frame-write")

    def frame_state(self, k):
        """'no-units' / 'units' of the frame as the implementation shows it now"""
        out = self.impl.run(["read", k.paths[0]])
        return "no-units" if (out.get("ok") or {}).get("units") is None else "units"

    def a_funit(self, ents, dims, feats):
        """the unit of a frame column: assigned through a range dimension linked to the column (None, the empty
        text, a text; the frame with or without units) or to the frame itself (`frame.units = …` through any
        path); read through the dimension and through every path to the frame afterwards"""
        rng = self.rng
        linked = [(ap, i, ents[tid]) for ap, i, dkind, tid in dims
                  if dkind == "dim_range" and tid is not None and tid in ents and ents[tid].kind == "data_frame"]
        if not linked or rng.random() < 0.25:
            # make such a link first: a range dimension (appended when the array has none) to a column
            a = self.pick(ents, "data_array")
            frames = [k for k in ents.values() if k.kind == "data_frame"]
            bare = [k for k in frames if self.frame_state(k) == "no-units"]
            if a is None or not frames:
                return
            tgt = rng.choice(bare if bare and rng.random() < 0.7 else frames)
            ranges = [i for ap, i, dkind, _ in dims if ap == a.paths[0] and dkind == "dim_range"]
            if ranges and rng.random() < 0.6:
                i = rng.choice(ranges)
            else:
                self.do(["dim_append", a.paths[0], {"kind": "range", "ticks": None, "label": None, "unit": None}],
                        "dim_append/range")
                i = (self.do(["dim_count", a.paths[0]]).get("ok") or 0)
                if not i:
                    return
            out = self.do(["dim_link_df", self.anypath(a), i, self.anypath(tgt), rng.randrange(3)], "dim_link_df/dim_range")
            if "err" in out:
                return
            linked = [(a.paths[0], i, tgt)]
        bare = [x for x in linked if self.frame_state(x[2]) == "no-units"]
        ap, i, fk = rng.choice(bare if bare and rng.random() < 0.7 else linked)
        state = self.frame_state(fk)
        if rng.random() < (0.9 if state == "no-units" else 0.75):
            # (a frame without units stays one only until the first unit is written: None and "" come first there)
            v = rng.choice([None, "", None, "", "mV", "s"] if state == "no-units" else DIM_UNITS)
            owner = next((k for k in ents.values() if k.paths[0] == ap), None)
            self.do(["dim_set_attr", self.anypath(owner) if owner else ap, i, "unit", v],
                    "dim_set_attr/frame-link/%s/%s" % (state, "None" if v is None else "empty" if v == "" else "text"))
        else:
            q = rng.random()
            units = [rng.choice(UNITS) for _ in range(3)]
            if q < 0.15:
                units = units[:2]                                    # refused: one entry per column
            self.do(["df_set_units", self.anypath(fk), units], "df_set_units/%s" % state)
        self.do(["dim_read", ap, i], "dim_read/after-unit-write")
        for fp in fk.paths:
            self.do(["read", fp], "read")
        for ap2, i2, _, tid in dims:
            if tid is not None and ents.get(tid) is fk and (ap2, i2) != (ap, i):
                self.do(["dim_read", ap2, i2], "dim_read/after-unit-write")

    def a_dim(self, ents, dims, feats):
        rng = self.rng
        r = rng.random()
        a = self.pick(ents, "data_array")
        if a is None:
            return
        if r < 0.25 or not dims:
            q = rng.random()
            if q < 0.3:
                spec = {"kind": "set", "labels": rng.choice([None, ["a", "b"], ["é", "x", "y z"]])}
            elif q < 0.4:
                spec = {"kind": "sampled"}
            else:
                n = rng.randrange(1, 4)
                t0 = Fraction(rng.randrange(-8, 8), 2)
                ticks = []
                for _ in range(n):
                    ticks.append("%d/%d" % (t0.numerator, t0.denominator))
                    t0 += Fraction(rng.randrange(0, 5), 2)
                spec = {"kind": "range", "ticks": rng.choice([ticks, ticks, None]), "label": rng.choice(STRS),
                        "unit": rng.choice([None, "s", "mV"])}
            via = self.anypath(a)
            self.do(["dim_append", via, spec], "dim_append/" + spec["kind"])
            out = self.do(["dim_count", a.paths[0]])
            n = out.get("ok") or 0
            if n:
                self.do(["dim_read", a.paths[0], n])
            return
        ap, i, dkind, tid = rng.choice(dims)
        owner = next((k for k in ents.values() if k.paths[0] == ap), None)
        via = self.anypath(owner) if owner else ap
        if r < 0.37 and rng.random() < 0.45:
            # a column of a data frame (valid, out of range, negative; rarely not a frame at all)
            tgt = self.pick(ents, "data_frame") if rng.random() < 0.85 else self.pick(ents)
            if tgt is None:
                return
            c = rng.choice([-1, 3, 4, 0]) if rng.random() < 0.25 else rng.randrange(3)
            self.do(["dim_link_df", via, i, self.anypath(tgt), c],
                    "dim_link_df/%s%s" % (dkind, "" if 0 <= c < 3 else "/out-of-range"))
        elif r < 0.6:
            q = rng.random()
            if q < 0.8:
                tgt = self.pick(ents, "data_array", block=None)
            else:
                # anything but a frame: link_data_array does not look at the class of its argument, and a DataFrame
                # happens to have a data_extent (it would be linked as if it were an array; not modelled)
                tgt = self.pick(ents, rng.choice(["tag", "multi_tag", "group", "source", "section", "block", "data_array"]))
            relink = ""
            if tid is not None and ents.get(tid) is not None and ents[tid].kind == "data_array" and rng.random() < 0.25:
                tgt, relink = ents[tid], "/same-target"      # the array already linked, with the same or another index
            if tgt is None:
                return
            shape = self.shape_of(tgt) if tgt.kind == "data_array" else [2]
            bad = rng.random() < 0.3
            iv = self.index_vector(shape, bad)
            self.do(["dim_link", via, i, self.anypath(tgt), iv],
                    "dim_link/%s%s%s" % (dkind, "/malformed" if bad else "", relink))
        elif r < 0.75:
            n = rng.randrange(1, 4)
            ts = [Fraction(rng.randrange(-8, 8), 2) for _ in range(n)]
            if rng.random() < 0.8:
                ts.sort()
            ticks = ["%d/%d" % (t.numerator, t.denominator) for t in ts]
            tag = "dim_set_ticks/" + dkind
            if tid is not None and dkind == "dim_range" and rng.random() < 0.6:
                # the values the link yields right now, assigned as explicit ticks ("freezing" the ticks)
                def current():
                    c = (self.impl.run(["dim_read", ap, i]).get("ok") or {}).get("ticks")
                    return c if isinstance(c, list) and c else None
                cur = current()
                tk = ents.get(tid)
                if cur is not None and tk is not None and tk.kind == "data_array" \
                        and any(Fraction(b) < Fraction(a) for a, b in zip(cur, cur[1:])):
                    # explicit ticks have to ascend: give the linked array ascending content first (sorted flat,
                    # every axis vector of it ascends)
                    d = (self.impl.run(["read", tk.paths[0]]).get("ok") or {}).get("data")
                    if d:
                        self.do(["da_write", self.anypath(tk), sorted(d["vals"], key=Fraction)], "write/sorted")
                        cur = current()
                if cur is not None:
                    ticks, tag = list(cur), tag + "/current-values-of-the-link"
            self.do(["dim_set_ticks", via, i, ticks], tag)
        elif r < 0.83:
            self.do(["dim_unlink", via, i], "dim_unlink/" + dkind)
        elif r < 0.9:
            self.do(["dim_set_labels", via, i, rng.choice([["p", "q"], ["é"], []])], "dim_set_labels/" + dkind)
        else:
            attr = rng.choice(["unit", "label", "label", "ticks"])
            self.do(["dim_set_attr", via, i, attr, rng.choice(DIM_UNITS if attr == "unit" else STRS)], "dim_set_attr/" + dkind)
        self.do(["dim_read", ap, i], "dim_read")
        out = self.outs[-1].get("ok") or {}
        if out.get("has_link") and isinstance(out.get("target"), list):
            # the linked array through the dimension link and directly
            self.do(["read", ap + ["dimensions", str(i), "link", 0]])
            tk = next((k for k in ents.values() if k.kind in ("data_array", "data_frame") and tid is not None
                       and ents.get(tid) is k), None)
            if tk is not None:
                self.do(["read", tk.paths[0]])

    def a_extend(self, ents, dims, feats):
        """`extend` with one to three items: members of the block, foreign same-named ones, wrong kinds, an entity
        twice; all or nothing"""
        rng = self.rng
        ocont, cname, kind = rng.choice(LINK_LISTS)
        okind = {"groups": "group", "tags": "tag", "multi_tags": "multi_tag", "data_arrays": "data_array"}[ocont]
        owner = self.pick(ents, okind)
        if owner is None:
            return
        keys, legal = [], True
        for _ in range(rng.choice([1, 2, 2, 3])):
            r = rng.random()
            if r < 0.75:
                tgt = self.pick(ents, kind, block=owner.block)
            elif r < 0.92:
                tgt, legal = self.pick(ents, kind, notblock=owner.block), False
            else:
                tgt = self.pick(ents)
                legal = legal and tgt is not None and tgt.kind == kind and tgt.block == owner.block
            if tgt is None:
                return
            keys.append({"o": self.anypath(tgt)})
        op = owner.paths[0]
        self.do(["list", op, cname])
        self.do(["extend", op, cname, keys], "extend/%d-items/%s" % (len(keys), "all-members" if legal else "with-a-non-member"))
        self.do(["list", op, cname])

    def a_handle(self, ents, dims, feats):
        """a handle kept across the deletion of its entity (sometimes another entity is created under the name
        afterwards), then offered to link lists (append / extend next to a member), positions / extents, feature
        data and create_feature; read through the kept handle; the lists are listed afterwards"""
        rng = self.rng
        kind = rng.choice(["data_array", "data_array", "data_array", "tag", "multi_tag", "source"])
        k = self.pick(ents, kind)
        if k is None or k.name in ("pos",):
            return
        if kind == "source" and len(k.paths[0]) > 4:
            return                          # (top-level sources only: the deletion goes through the block's container)
        self.nh = getattr(self, "nh", 0) + 1
        h = "h%d" % self.nh
        self.do(["hold", h, self.anypath(k)], "hold/" + kind)
        p = k.paths[0]
        bp = p[:2]
        stale = rng.random() < 0.8
        tagp = "stale" if stale else "live"
        if stale:
            self.do(["del", p[:-2], p[-2], {"s": k.name} if rng.random() < 0.5 else {"o": self.anypath(k)}], "delete/held")
            if rng.random() < 0.5:
                if kind == "data_array":
                    shape = [2]
                    self.do(["create_da", bp, k.name, "t", shape, self.rvals(shape)], "recreate/" + kind)
                else:
                    self.do(["create", bp, kind, k.name, "t", bp + ["data_arrays", "pos"] if kind == "multi_tag" else None],
                            "recreate/" + kind)
                tagp = "stale-recreated"
        self.do(["read_h", h], "read_h/" + tagp)
        lists = [(oc, cn) for oc, cn, kd in LINK_LISTS if kd == kind]
        for _ in range(2):
            ocont, cname = rng.choice(lists)
            okind = {"groups": "group", "tags": "tag", "multi_tags": "multi_tag", "data_arrays": "data_array"}[ocont]
            cands = [o for o in ents.values() if o.kind == okind and o is not k
                     and (o.block == k.block or rng.random() < 0.15)]
            if not cands:
                continue
            owner = rng.choice(cands)
            op = owner.paths[0]
            self.do(["has_h", op, cname, {"h": h}], "has_h/" + tagp)
            if rng.random() < 0.55:
                self.do(["append_h", op, cname, {"h": h}], "append_h/" + tagp)
            else:
                member = self.pick(ents, kind, block=owner.block)
                keys = [{"h": h}]
                if member is not None and member is not k:
                    keys.insert(rng.randrange(2), {"o": self.anypath(member)})
                self.do(["extend", op, cname, keys], "extend/handle-%s/%d-items" % (tagp, len(keys)))
            self.do(["list", op, cname])
        if kind == "data_array":
            mts = [o for o in ents.values() if o.kind == "multi_tag" and o.block == k.block]
            if mts and rng.random() < 0.7:
                mt = rng.choice(mts)
                role = rng.choice(["positions", "extents"])
                self.do(["set_role_h", mt.paths[0], role, h], "set_role_h/" + tagp)
                self.do(["role", mt.paths[0], role])
            tgs = [o for o in ents.values() if o.kind in ("tag", "multi_tag") and o.block == k.block and o is not k]
            if tgs and rng.random() < 0.5:
                tg = rng.choice(tgs)
                self.do(["create_feature_h", tg.paths[0], h, rng.choice(["tagged", "untagged", "indexed"])],
                        "create_feature_h/" + tagp)
                self.do(["list", tg.paths[0], "features"])
            fs = [(fp, fb) for fp, fb in feats if fb == k.block]
            if fs and rng.random() < 0.5:
                fp, _ = rng.choice(fs)
                self.do(["set_role_h", fp, "data", h], "set_role_h/feature-data/" + tagp)
                self.do(["role", fp, "data"])

    def a_copy(self, ents, dims, feats):
        """an id-keeping copy of a tag / multi-tag / array inside its block or into another one (`create_*(copy_from=…)`).
        HDF5 copies what the tag links to along with it: the copy's references / positions are entities with the name
        and id of a block's member that live only inside the copy.  They are read, kept as handles and offered to the
        lists and role links of the block; the copy is deleted again at the end"""
        rng = self.rng
        kind = rng.choice(["tag", "tag", "multi_tag", "data_array"])
        src = self.pick(ents, kind)
        blocks = sorted({k.block for k in ents.values() if k.kind == "block"})
        if src is None or not blocks:
            return
        destb = src.block if rng.random() < 0.7 else rng.choice(blocks)
        dp = ["data", destb]
        if kind != "data_array":
            # the original refers to something
            arr = self.pick(ents, "data_array", block=src.block)
            if arr is not None and rng.random() < 0.8:
                self.do(["append", src.paths[0], "references", {"o": self.anypath(arr)}], "append/same-block")
        self.ncopy = getattr(self, "ncopy", 0) + 1
        name = "cp%d" % self.ncopy
        keep = rng.random() < 0.85
        out = self.do(["copy_into", dp, kind, self.anypath(src), name, keep],
                      "copy_into/%s/%s/%s" % (kind, "keep-id" if keep else "new-id", "same-block" if destb == src.block else "other-block"))
        if "ok" not in out:
            return
        cp = dp + [STORE_OF[kind], name]
        self.do(["read", cp])
        self.do(["read", src.paths[0]])
        strays = []
        if kind != "data_array":
            n = len(self.do(["list", cp, "references"]).get("ok") or [])
            strays += [cp + ["references", i] for i in range(min(n, 2))]
            if kind == "multi_tag":
                strays.append(cp + ["positions"])
        groups = [k for k in ents.values() if k.kind == "group" and k.block == destb]
        mts = [k for k in ents.values() if k.kind == "multi_tag" and k.block == destb]
        for sp in strays:
            self.do(["read", sp], "read/inside-a-copy")
            self.nh = getattr(self, "nh", 0) + 1
            h = "h%d" % self.nh
            if "ok" not in self.do(["hold", h, sp], "hold/inside-a-copy"):
                continue
            if groups:
                g = rng.choice(groups)
                self.do(["has_h", g.paths[0], "data_arrays", {"h": h}], "has_h/inside-a-copy")
                if rng.random() < 0.5:
                    self.do(["append_h", g.paths[0], "data_arrays", {"h": h}], "append_h/inside-a-copy")
                else:
                    member = self.pick(ents, "data_array", block=destb)
                    keys = [{"h": h}] + ([{"o": self.anypath(member)}] if member is not None else [])
                    rng.shuffle(keys)
                    self.do(["extend", g.paths[0], "data_arrays", keys], "extend/inside-a-copy/%d-items" % len(keys))
                self.do(["list", g.paths[0], "data_arrays"])
            if mts and rng.random() < 0.6:
                mt = rng.choice(mts)
                role = rng.choice(["positions", "extents"])
                self.do(["set_role_h", mt.paths[0], role, h], "set_role_h/inside-a-copy")
                self.do(["role", mt.paths[0], role])
        self.do(["dump"])
        self.do(["del", dp, STORE_OF[kind], {"s": name}], "delete/copy")
        self.do(["dump"])

    def a_unlink(self, ents, dims, feats):
        rng = self.rng
        ocont, cname, kind = rng.choice(LINK_LISTS)
        okind = {"groups": "group", "tags": "tag", "multi_tags": "multi_tag", "data_arrays": "data_array"}[ocont]
        owner = self.pick(ents, okind)
        if owner is None:
            return
        op = owner.paths[0]
        out = self.do(["list", op, cname])
        items = out.get("ok") or []
        if not items:
            return
        i = rng.randrange(len(items))
        key = rng.choice([{"p": i}, {"id": op + [cname, i]}, {"o": op + [cname, i]}])
        self.do(["del", op, cname, key], "unlink")
        self.do(["list", op, cname])

    def a_delete(self, ents, dims, feats):
        rng = self.rng
        k = self.pick(ents, rng.choice(["data_array", "data_array", "tag", "source", "group"]))
        if k is None or k.name in ("pos",):
            return
        p = k.paths[0]
        self.do(["del", p[:-2], p[-2], {"o": self.anypath(k)} if rng.random() < 0.5 else {"s": k.name}], "delete")
        for ap, i, _, tid in dims:
            if ap[:len(p)] == p:
                continue                      # the descriptor went with its array
            if tid is not None and ents.get(tid) is k:
                self.do(["dim_read", ap, i], "dim_read/dangling")
                self.do(["dim_set_attr", ap, i, "unit", "mV"], "dim_set_attr/dangling")
        self.do(["dump"])


def run_history(ctx, rng, steps, profile, tag, reopen_prob=0.05):
    path = ctx.tmpfile("c05-%s.nix" % tag)
    impl = Impl5(path)
    gen = Gen5(rng, impl, profile)
    try:
        gen.setup()
        for _ in range(steps):
            gen.step()
            if rng.random() < reopen_prob:
                impl.reopen("a")
                gen.ops.append(["noop"])
                gen.outs.append({"ok": None})
                ents, dims, _ = survey(impl)
                for k in list(ents.values())[:12]:
                    if len(k.paths) > 1:
                        gen.read_all(k)
                for ap, i, _, _ in dims[:8]:
                    gen.do(["dim_read", ap, i], "dim_read/after-reopen")
        ents, dims, _ = survey(impl)
        for ap, i, _, _ in dims:
            gen.do(["dim_read", ap, i])
        gen.do(["dump"])
    finally:
        impl.close()
        try:
            os.remove(path)
        except OSError:
            pass
    return gen.ops, gen.outs, gen.tags


def replay_history(ctx, ops, tag):
    """a recorded history (corpus) on a fresh file"""
    path = ctx.tmpfile("c05-corpus-%s.nix" % tag)
    impl = Impl5(path)
    outs = []
    try:
        for op in ops:
            if op == ["reopen"]:
                impl.reopen("a")
                outs.append({"ok": None})
            else:
                outs.append(impl.run(op))
    finally:
        impl.close()
        try:
            os.remove(path)
        except OSError:
            pass
    return outs


def canon_dump(nodes):
    """HDF5-level dump with the order of an ENTITY's own children normalised (sorted by link name) and
    nodes renumbered by the resulting DFS.  The order in which an entity's container groups / role
    links were first created is not observable through the API (they are addressed by name) and
    differs after a refused create_feature, which leaves an empty `features` group behind in the
    file; the order of the entries INSIDE containers, link lists and `dimensions` stays as it is."""
    if not isinstance(nodes, list):
        return nodes
    by = {n["n"]: n for n in nodes}
    order = {}
    out = []

    def visit(k):
        if k in order:
            return order[k]
        order[k] = len(order)
        n = by[k]
        links = list(n["links"])
        if k == 0 or "entity_id" in n["attrs"]:
            links.sort(key=lambda l: l[0])
        rec = {"n": order[k], "kind": n["kind"], "attrs": n["attrs"], "links": None}
        out.append(rec)
        rec["links"] = [[nm, visit(t)] for nm, t in links]
        return order[k]

    if 0 in by:
        visit(0)
    return out


def _compare(ops, outs, model):
    """storegen.compare, plus: a dimension / data op whose array or descriptor path does not resolve is
    `bad` for the implementation runner and KeyError / IndexError (arrayAt / dimAt) in the model"""
    diffs = []
    for k, op, m, i in storegen.compare(ops, outs, model):
        if (op[0].startswith("dim_") or op[0] == "da_write") and isinstance(i, dict) and "bad" in i \
                and isinstance(m, dict) and m.get("err") in ("KeyError", "IndexError"):
            continue
        diffs.append((k, op, m, i))
    return diffs


def _canon_dumps(ops, outs):
    return [({"ok": canon_dump(o["ok"])} if op == ["dump"] and isinstance(o, dict) and "ok" in o else o)
            for op, o in zip(ops, outs)]


def correspondence(ctx):
    n_hist = ctx.budget(30, 150)
    steps = ctx.budget(45, 70)
    disagreements = []
    total = 0
    dist, errs, tags = {}, {}, {}
    seen = set()
    samples = []
    # corpus first: one history per case
    for ci, hist in enumerate(core.load_corpus(PROP)):
        mops = [["noop"] if op == ["reopen"] else op for op in hist]
        outs = _canon_dumps(mops, replay_history(ctx, hist, str(ci)))
        model = _canon_dumps(mops, core.run_driver(PROP, [["reset"]] + mops)[1:])
        for k, op, m, i in _compare(mops, outs, model):
            disagreements.append(Disagreement({"corpus": ci, "index": k, "op": op, "prefix": hist[:k + 1]}, m, i))
        total += len(hist)
    for h in range(n_hist):
        rng = random.Random("%s/%d/%d" % (PROP, ctx.seed, h))
        profile = ["links", "dims", "links"][h % 3]
        try:
            ops, outs, tg = run_history(ctx, rng, steps, profile, str(h))
        except core.InfraError:
            raise
        except Exception as ex:      # the generator walks the real file: a crash there is the implementation's
            disagreements.append(Disagreement({"history": h, "generator": "raised %s: %s" % (type(ex).__name__, ex)},
                                              None, type(ex).__name__))
            continue
        outs = _canon_dumps(ops, outs)
        model = _canon_dumps(ops, core.run_driver(PROP, [["reset"]] + ops)[1:])
        for k, op, m, i in _compare(ops, outs, model):
            disagreements.append(Disagreement({"history": h, "index": k, "op": op,
                                               "prefix": ops[:k + 1] if k < 400 else None}, m, i))
        total += len(ops)
        for k, v in tg.items():
            tags[k] = tags.get(k, 0) + v
        for op, o in zip(ops, outs):
            dist[op[0]] = dist.get(op[0], 0) + 1
            if "err" in o:
                errs[o["err"]] = errs.get(o["err"], 0) + 1
            if op[0] not in ("noop", "dump") and ("err" in o or o.get("ok") not in (None, [], 0, False)):
                seen.add(core.canon(op))
        if h < 2:
            samples.append({"history": h, "ops": ops[20:26], "outputs": outs[20:26]})
    return {"evaluations": total, "distinct_nontrivial": len(seen),
            "rule": "adaptive seeded histories in lockstep with a real file: 2-3 blocks with equal entity names, arrays "
                    "of rank 1-3 with exact dyadic content; link-list appends (same block / foreign same-named / wrong "
                    "kind), multi-tag positions/extents, feature data, metadata links, features, dimension descriptors "
                    "and dimension links (valid and malformed index vectors), attribute and data writes through a "
                    "randomly chosen alias path, reads through every alias path (direct, group lists, tag references, "
                    "positions/extents, feature data, source lists, metadata, dimension link), unlink/delete, reopen; "
                    "final HDF5-level dump. non-trivial = distinct op (canonical JSON) with an error or non-empty result",
            "samples": samples, "distribution": {"ops": dist, "impl_errors": errs, "branches": tags},
            "disagreements": disagreements, "exhaustive": False}


# ---------------------------------------------------------------------------------------
# oracle: the property on the implementation alone


def _h5obj(e):
    g = e._h5group
    return g.group if hasattr(g, "group") else g.dataset


def same_obj(a, b):
    """two handles stand for one HDF5 object (h5py compares object identity, not names or ids)"""
    try:
        return bool(_h5obj(a) == _h5obj(b))
    except Exception:
        return False


def _content(e):
    """id + content as seen through one handle"""
    out = {"class": type(e).__name__, "id": e.id, "name": getattr(e, "name", None), "type": getattr(e, "type", None),
           "definition": getattr(e, "definition", None)}
    if isinstance(e, nixio.DataArray):
        out["unit"], out["label"] = e.unit, e.label
        arr = np.array(e[:])
        out["shape"] = list(arr.shape)
        out["data"] = [float(v) for v in arr.reshape(-1)]
    return out


def _brief(e):
    try:
        return [getattr(e, "name", None), e.id, getattr(e, "definition", None)]
    except Exception as ex:
        return [type(ex).__name__]


COPY_BLOCK = "b1c"          # an id-keeping copy of the first block: every entity in it shares name AND id with its original
STORES = (("data_arrays", "data_array"), ("tags", "tag"), ("multi_tags", "multi_tag"), ("groups", "group"))
DF_COLS = [("t", "s"), ("v", "mV"), ("w", "kg")]
# the oracle's frames: made without units (None), with a unit per column, or with gaps
DF_UNIT_FORMS = [None, [u for _, u in DF_COLS], ["s", None, "kg"], None, [None, None, None]]


def _col_unit(frame, col):
    """the unit `DataFrame.units` shows for one column (None for a frame without units)"""
    us = frame.units
    return None if us is None else us[col]



class Scene:
    """a file with equal names in every block, pairs of DISTINCT entities that carry the SAME entity id
    (id-keeping copies: inside a block under another name, in another block under the same name, a whole copied
    block) and the oracle's own record - by entity, never by id - of which handle-getters lead to which entity"""

    def __init__(self, ctx, rng, tag, nblocks):
        self.rng = rng
        self.path = ctx.tmpfile("c05-oracle-%s.nix" % tag)
        self.f = nixio.File.open(self.path, nixio.FileMode.Overwrite)
        self.log = []
        self.fails = []
        self.evals = 0
        # (block, kind, name) -> list of (description, getter(f) -> handle); the first one is the owning container
        self.paths = {}
        self.ids = {}         # (block, kind, name) -> entity id
        self.held = {}        # (key, desc) -> handle obtained earlier through that path and kept alive
        self.lists = {}       # (block, owner kind, owner name, list) -> the entities it must hold, in order
        self.featdata = {}    # (block, tag kind, tag name, position) -> the entity its data link must lead to
        self.nscratch = 0     # short-lived entities of the stale-handle / stray-copy steps
        self.frames = {}      # block -> expected columns of the data frame "df": {"cols": [(name, unit)], "rows": [[...]]}
        f = self.f
        sec = f.create_section("sec", "t")
        sec.create_section("sub", "t")
        self.reg(None, "section", "sec", "file.sections", lambda f: f.sections["sec"])
        self.reg(None, "section", "sub", "sec.sections", lambda f: f.sections["sec"].sections["sub"])
        notes = []
        try:            # a second section with the id of `sub`
            f.copy_section(f.sections["sec"].sections["sub"], name="subcopy")
            self.reg(None, "section", "subcopy", "file.sections", lambda f: f.sections["subcopy"])
        except Exception as ex:
            notes.append("copy_section: %s" % type(ex).__name__)
        independent = BLOCKS[:nblocks]
        for k, bn in enumerate(independent):
            notes += self.build_block(bn, k == 0)
        for bn in independent[1:]:       # same name, same id, other block
            try:
                f.blocks[bn].create_data_array(copy_from=f.blocks[independent[0]].data_arrays["z"])
            except Exception as ex:
                notes.append("cross-block copy: %s" % type(ex).__name__)
        self.bnames = list(independent)
        if rng.random() < 0.6:
            try:
                f.create_block(name=COPY_BLOCK, copy_from=f.blocks[independent[0]])
                self.bnames.append(COPY_BLOCK)
            except Exception as ex:
                notes.append("block copy: %s" % type(ex).__name__)
        for bn in self.bnames:
            self.register_block(bn)
        self.log.append(["setup", self.bnames, "in every block: arrays x,y,pos,ext (+z), x2 = id-keeping copy of x, "
                         "groups g,h, tag tg (+ copy tg2), multi-tag mt (+ copy mt2), sources s/deep, frame df; "
                         "z copied by name into the other blocks; %s (when present) = id-keeping copy of %s"
                         % (COPY_BLOCK, independent[0])] + notes)
        self.distinguish()

    # -- construction ------------------------------------------------------------------
    def build_block(self, bn, first):
        rng, f = self.rng, self.f
        notes = []
        b = f.create_block(bn, "t")
        for nm in ARR_NAMES[:4] + (["z"] if first else []):
            shape = (3,) if nm in ("pos", "ext") else tuple(rng.choice(SHAPES))
            data = np.array([rng.randrange(-20, 40) / 4.0 for _ in range(int(np.prod(shape)))]).reshape(shape)
            b.create_data_array(nm, "t", data=data)
        for g in ("g", "h"):
            b.create_group(g, "t")
        b.create_tag("tg", "t", [0.0])
        b.create_multi_tag("mt", "t", positions=b.data_arrays["pos"])
        s = b.create_source("s", "t")
        s.create_source("deep", "t")
        try:
            rows = [(float(i), rng.randrange(-8, 8) / 2.0, float(rng.randrange(5))) for i in range(3)]
            df = b.create_data_frame("df", "t", col_names=[c for c, _ in DF_COLS], col_dtypes=[float] * len(DF_COLS),
                                     data=rows)
            form = rng.choice(DF_UNIT_FORMS)
            if form is not None:
                df.units = list(form)
            notes.append("frame %s/df %s" % (bn, "without units" if form is None else "units %r" % (form,)))
            self.frames[bn] = {"cols": [(c, None if form is None else form[k]) for k, (c, _) in enumerate(DF_COLS)],
                               "rows": [list(r) for r in rows], "has_units": form is not None}
        except Exception as ex:
            notes.append("create_data_frame: %s" % type(ex).__name__)
        for what in ("x2", "tg2", "mt2"):       # id-keeping copies inside the block
            try:
                if what == "x2":
                    b.create_data_array(name="x2", copy_from=b.data_arrays["x"])
                elif what == "tg2":
                    b.create_tag(name="tg2", copy_from=b.tags["tg"])
                else:
                    m2 = b.create_multi_tag(name="mt2", copy_from=b.multi_tags["mt"])
                    m2.positions = b.data_arrays["pos"]     # (the HDF5 copy duplicated the positions array with the tag)
            except Exception as ex:
                notes.append("copy %s: %s" % (what, type(ex).__name__))
        return notes

    def register_block(self, bn):
        b = self.f.blocks[bn]
        if bn == COPY_BLOCK and BLOCKS[0] in self.frames:
            self.frames[bn] = {"cols": list(self.frames[BLOCKS[0]]["cols"]),
                               "rows": [list(r) for r in self.frames[BLOCKS[0]]["rows"]],
                               "has_units": self.frames[BLOCKS[0]]["has_units"]}
        for cname, kind in STORES:
            for e in getattr(b, cname):
                self.reg(bn, kind, e.name, "block." + cname,
                         lambda f, bn=bn, cname=cname, nm=e.name: getattr(f.blocks[bn], cname)[nm])
        self.reg(bn, "source", "s", "block.sources", lambda f, bn=bn: f.blocks[bn].sources["s"])
        self.reg(bn, "source", "deep", "s.sources", lambda f, bn=bn: f.blocks[bn].sources["s"].sources["deep"])
        for mt in b.multi_tags:
            self.alias((bn, "data_array", "pos"), "slot %s/%s.positions" % (bn, mt.name),
                       lambda f, bn=bn, mn=mt.name: f.blocks[bn].multi_tags[mn].positions)

    def distinguish(self):
        """every entity gets a definition of its own; arrays that share their id with another array get data of
        their own, so that an original and its copy never read alike"""
        shared = {}
        for key, i in self.ids.items():
            shared.setdefault(i, []).append(key)
        for key in self.paths:
            e = self.paths[key][0][1](self.f)
            e.definition = "%s/%s/%s" % (key[0], key[1], key[2])
            if key[1] == "data_array" and len(shared[self.ids[key]]) > 1:
                shape = e.shape
                e.write_direct(np.array([self.rng.randrange(-400, 400) / 8.0
                                         for _ in range(int(np.prod(shape)))]).reshape(shape))
        self.log.append(["every entity gets its own definition (block/kind/name); arrays sharing an id get data of their own"])

    def reg(self, bn, kind, name, desc, getter):
        key = (bn, kind, name)
        self.paths[key] = [(desc, getter)]
        self.ids[key] = getter(self.f).id

    def alias(self, key, desc, getter):
        """`desc` now leads to `key`.  A description starting with "slot" names a link that holds one target (role
        link, feature data, metadata, dimension link): it no longer leads to any other entity.  Any other
        description names a link list, whose entries are named by id: an entry is displaced only by an entity
        with the same id."""
        for k2, ps in self.paths.items():
            if k2 != key and any(p[0] == desc for p in ps) and (desc.startswith("slot ")
                                                                or self.ids[k2] == self.ids[key]):
                ps[:] = [p for p in ps if p[0] != desc]
                self.held.pop((k2, desc), None)
        ps = self.paths[key]
        ps[:] = [p for p in ps if p[0] != desc] + [(desc, getter)]
        self.held.pop((key, desc), None)

    def unalias(self, desc, pred=lambda key: True):
        for key, ps in self.paths.items():
            if pred(key):
                ps[:] = [p for p in ps if p[0] != desc]
                self.held.pop((key, desc), None)

    def primary(self, key):
        return self.paths[key][0][1](self.f)

    def siblings(self, key):
        return [k for k in self.paths if k != key and k[1] == key[1] and self.ids[k] == self.ids[key]]

    def views(self, key):
        """every way the entity is seen right now: a freshly navigated handle per path, plus the handle that was
        obtained through the same path earlier and kept alive (a per-handle cache must not make the two differ)"""
        out = []
        for desc, getter in list(self.paths[key]):
            out.append((desc, lambda f, g=getter: g(f)))
            h = self.held.get((key, desc))
            if h is not None:
                out.append((desc + " (handle kept from earlier)", lambda f, h=h: h))
            else:
                try:
                    self.held[(key, desc)] = getter(self.f)
                except Exception:
                    pass
        return out

    def fail(self, what, observed, required, site):
        self.fails.append(Failure(what, list(self.log), observed, required, site))

    def close(self):
        try:
            self.f.close()
        except Exception:
            pass
        try:
            os.remove(self.path)
        except OSError:
            pass

    def reopen(self):
        self.held = {}
        self.f.close()
        self.f = nixio.File.open(self.path, self.rng.choice([nixio.FileMode.ReadWrite, nixio.FileMode.ReadOnly]))
        self.log.append(["reopen"])
        self.check_all("after reopen")
        self.check_lists("after reopen")
        self.check_dims()
        self.held = {}
        self.f.close()
        self.f = nixio.File.open(self.path, nixio.FileMode.ReadWrite)

    def get(self, key, which=None):
        ps = self.paths[key]
        desc, getter = ps[which if which is not None else self.rng.randrange(len(ps))]
        h = self.held.get((key, desc))
        if h is not None and which is None and self.rng.random() < 0.4:
            return desc + " (handle kept from earlier)", h
        return desc, getter(self.f)

    def pick_target(self, kind, bn, prefer=None):
        """a candidate of `kind`: same block / another block / (rarely) any kind; `prefer` = an entity whose
        same-id siblings are tried first (the pairs a decision by id cannot tell apart)"""
        rng = self.rng
        if prefer is not None and rng.random() < 0.5:
            sib = self.siblings(prefer)
            if sib:
                return rng.choice(sib)
        cands = [k for k in self.paths if k[1] == kind]
        r = rng.random()
        if r < 0.5:
            cands = [k for k in cands if k[0] == bn]
        elif r < 0.85:
            cands = [k for k in cands if k[0] != bn]
        else:
            cands = [k for k in self.paths if k[1] != kind and k[1] != "section" or rng.random() < 0.1]
        if not cands:
            return None
        if rng.random() < 0.5:          # entities that have a same-id sibling
            paired = [k for k in cands if self.siblings(k)]
            cands = paired or cands
        return rng.choice(cands)

    def check_entity(self, key, when=""):
        ps = self.views(key)
        ref = None
        for desc, getter in ps:
            self.evals += 1
            try:
                h = getter(self.f)
                c = _content(h)
            except Exception as ex:
                self.fail("reading %s %r of block %s through %s raised %s %s" % (key[1], key[2], key[0], desc,
                                                                                type(ex).__name__, when),
                          type(ex).__name__, "the entity", "alias-read")
                continue
            if ref is None:
                ref = (desc, c, h)
                continue
            if not same_obj(h, ref[2]):
                self.fail("%s leads to another object than %s: not the %s %r of block %s that was linked there %s"
                          % (desc, ref[0], key[1], key[2], key[0], when), _brief(h), _brief(ref[2]), "alias-identity")
            elif c != ref[1]:
                diff = sorted(k for k in set(c) | set(ref[1]) if c.get(k) != ref[1].get(k))
                self.fail("%s %r of block %s reads differently through %s and %s %s (%s)"
                          % (key[1], key[2], key[0], ref[0], desc, when, ",".join(diff)),
                          {k: c.get(k) for k in diff}, {k: ref[1].get(k) for k in diff}, "alias-read")
        return ref[1] if ref else None

    def check_all(self, when=""):
        for key in self.paths:
            self.check_entity(key, when)

    def list_handles(self, L):
        bn, okind, oname, cname = L
        return list(getattr(self.primary((bn, okind, oname)), cname))

    def check_list(self, L, when=""):
        exp = self.lists.get(L, [])
        self.evals += 1
        try:
            got = self.list_handles(L)
        except Exception as ex:
            self.fail("iterating %s/%s %s.%s raised %s %s" % (L + (type(ex).__name__, when)), type(ex).__name__,
                      "the entries", "append")
            return
        ok = len(got) == len(exp) and all(same_obj(h, self.primary(k)) for h, k in zip(got, exp))
        if not ok:
            self.fail("link list %s/%s %s.%s does not hold the entities that were appended (old entries without the "
                      "appended id ++ [the appended entity]) %s" % (L + (when,)), [_brief(h) for h in got],
                      [list(k) for k in exp], "append")

    def check_lists(self, when=""):
        for L in self.lists:
            self.check_list(L, when)

    # -- actions -----------------------------------------------------------------------
    def link_list(self):
        rng = self.rng
        bn = rng.choice(self.bnames)
        okind, oname, cname, kind = rng.choice([
            ("group", "g", "data_arrays", "data_array"), ("group", "h", "data_arrays", "data_array"),
            ("group", "g", "tags", "tag"), ("group", "g", "multi_tags", "multi_tag"), ("group", "g", "sources", "source"),
            ("tag", "tg", "references", "data_array"), ("multi_tag", "mt", "references", "data_array"),
            ("tag", "tg", "sources", "source"), ("data_array", "x", "sources", "source"),
            ("tag", "tg2", "references", "data_array"), ("multi_tag", "mt2", "sources", "source")])
        if (bn, okind, oname) not in self.paths:
            okind, oname, cname, kind = "group", "g", "data_arrays", "data_array"
        return bn, okind, oname, cname, kind

    def do_append(self):
        rng = self.rng
        bn, okind, oname, cname, kind = self.link_list()
        L = (bn, okind, oname, cname)
        lst = self.lists.setdefault(L, [])
        tk = self.pick_target(kind, bn, prefer=rng.choice(lst) if lst else None)
        if lst and rng.random() < 0.1:
            tk = rng.choice(lst)            # an entity the list already holds: it moves to the end
        if tk is None:
            return
        owner = self.primary((bn, okind, oname))
        cont = getattr(owner, cname)
        desc, item = self.get(tk)
        before = list(cont)
        legal = tk[0] == bn and tk[1] == kind
        ldesc = "%s/%s.%s.%s" % (bn, okind, oname, cname)
        self.log.append(["append", ldesc, list(tk), "via " + desc])
        self.evals += 1
        try:
            cont.append(item)
            accepted = True
        except (RuntimeError, TypeError) as ex:
            accepted = False
            exn = type(ex).__name__
        except Exception as ex:
            accepted = False
            exn = type(ex).__name__
            self.fail("append raised an unexpected %s" % exn, exn, "RuntimeError/TypeError or success", "append")
        if legal:
            if not accepted:
                self.fail("a %s of the same block was refused by %s.%s" % (kind, okind, cname), exn, "accepted", "append")
            else:
                self.lists[L] = [k for k in lst if self.ids[k] != self.ids[tk]] + [tk]
                self.alias(tk, ldesc, lambda f, L=L, iid=self.ids[tk]: [e for e in self.list_handles(L) if e.id == iid][0])
                self.check_list(L, "after append")
                self.check_entity(tk, "after append")
        else:
            if accepted:
                what = "foreign" if tk[1] == kind else "wrong-kind"
                self.fail("%s item (%s %r of block %s) accepted by %s.%s of block %s" % (what, tk[1], tk[2], tk[0], okind,
                                                                                       cname, bn),
                          "accepted", "refused", "append-" + what)
                try:
                    del getattr(self.primary((bn, okind, oname)), cname)[item.id]
                except Exception:
                    pass
                gone = [k for k in lst if self.ids[k] == self.ids.get(tk)]
                self.lists[L] = [k for k in lst if k not in gone]
                for k in gone:
                    self.paths[k][:] = [p for p in self.paths[k] if p[0] != ldesc]
                    self.held.pop((k, ldesc), None)
            else:
                after = self.list_handles(L)
                if len(after) != len(before) or not all(same_obj(a, b) for a, b in zip(after, before)):
                    self.fail("refused append changed the list", [_brief(h) for h in after], [_brief(h) for h in before],
                              "append-refused-changed")

    def do_role(self):
        rng = self.rng
        bn = rng.choice(self.bnames)
        role = rng.choice(["positions", "extents"])
        mname = rng.choice([k[2] for k in self.paths if k[0] == bn and k[1] == "multi_tag"])
        rdesc = "slot %s/%s.%s" % (bn, mname, role)
        cur = next((k for k, ps in self.paths.items() if k[0] == bn and any(p[0] == rdesc for p in ps)), None)
        tk = self.pick_target("data_array", bn, prefer=cur)
        if cur is not None and rng.random() < 0.12:
            tk = cur                        # the array the link leads to already
        if tk is None:
            return
        mt = self.primary((bn, "multi_tag", mname))
        desc, item = self.get(tk)
        legal = tk[0] == bn and tk[1] == "data_array"
        before = getattr(mt, role)
        self.log.append(["set " + role, bn, mname, list(tk), "via " + desc])
        self.evals += 1
        try:
            setattr(mt, role, item)
            accepted = True
        except Exception as ex:
            accepted = False
            exn = type(ex).__name__
        now = getattr(self.primary((bn, "multi_tag", mname)), role)
        if legal:
            if not accepted:
                self.fail("array of the same block refused as %s" % role, exn, "accepted", "role")
            elif now is None or not same_obj(now, item):
                self.fail("%s does not yield the array that was assigned" % role, None if now is None else _brief(now),
                          _brief(item), "role")
            else:
                self.alias(tk, rdesc, lambda f, bn=bn, mname=mname, role=role: getattr(f.blocks[bn].multi_tags[mname], role))
                self.check_entity(tk, "after set " + role)
        else:
            if accepted:
                self.fail("%s item (%s %r of block %s) accepted as %s of block %s's multi-tag"
                          % ("foreign" if tk[1] == "data_array" else "wrong-kind", tk[1], tk[2], tk[0], role, bn),
                          "accepted", "refused", "role-foreign")
                self.unalias(rdesc)
                setattr(mt, role, self.primary((bn, "data_array", "pos")))
                self.alias((bn, "data_array", "pos"), rdesc,
                           lambda f, bn=bn, mname=mname, role=role: getattr(f.blocks[bn].multi_tags[mname], role))
            elif (now is None) != (before is None) or (now is not None and (not same_obj(now, before)
                                                                            or type(now) is not type(before))):
                self.fail("refused %s assignment changed the link" % role, None if now is None else _brief(now),
                          None if before is None else _brief(before), "role-refused-changed")

    def feat_getter(self, fk):
        bn, tkind, tname, n0 = fk
        return lambda f: getattr(f.blocks[bn], STORE_OF[tkind])[tname].features[n0].data

    def do_feature(self):
        rng = self.rng
        bn = rng.choice(self.bnames)
        tkind, tname = rng.choice([("tag", "tg"), ("multi_tag", "mt")])
        cands = [k for k in self.paths if k[1] == "data_array"]
        r = rng.random()
        cands = [k for k in cands if (k[0] == bn) == (r < 0.55)] or cands
        tk = rng.choice(cands)
        tg = self.primary((bn, tkind, tname))
        desc, item = self.get(tk)
        legal = tk[0] == bn
        n0 = len(tg.features)
        self.log.append(["create_feature", bn, tname, list(tk), "via " + desc])
        self.evals += 1
        try:
            tg.create_feature(item, rng.choice(["tagged", "untagged", "indexed"]))
            accepted = True
        except Exception as ex:
            accepted = False
            exn = type(ex).__name__
        n1 = len(self.primary((bn, tkind, tname)).features)
        if legal and not accepted:
            self.fail("feature on an array of the same block refused", exn, "accepted", "feature")
        if legal and accepted:
            fk = (bn, tkind, tname, n0)
            self.featdata[fk] = tk
            self.alias(tk, "slot %s/%s.features[%d].data" % (bn, tname, n0), self.feat_getter(fk))
            self.check_entity(tk, "after create_feature")
        if not legal and accepted:
            self.fail("feature data from another block accepted", "accepted", "refused", "feature-foreign")
            del self.primary((bn, tkind, tname)).features[n0]
        if not accepted and n1 != n0:
            self.fail("refused create_feature changed the feature list", n1, n0, "feature-refused-changed")

    def do_feature_data(self):
        """re-point the data link of an existing feature"""
        rng = self.rng
        if not self.featdata:
            return self.do_feature()
        fk = rng.choice(sorted(self.featdata))
        bn, tkind, tname, n0 = fk
        tk = self.pick_target("data_array", bn, prefer=self.featdata[fk])
        if rng.random() < 0.12:
            tk = self.featdata[fk]          # the array the link leads to already
        if tk is None:
            return
        ft = self.primary((bn, tkind, tname)).features[n0]
        desc, item = self.get(tk)
        legal = tk[0] == bn and tk[1] == "data_array"
        before = ft.data
        self.log.append(["set feature data", bn, tname, n0, list(tk), "via " + desc])
        self.evals += 1
        try:
            ft.data = item
            accepted = True
        except Exception as ex:
            accepted = False
            exn = type(ex).__name__
        now = self.feat_getter(fk)(self.f)
        sdesc = "slot %s/%s.features[%d].data" % (bn, tname, n0)
        if legal:
            if not accepted:
                self.fail("array of the same block refused as feature data", exn, "accepted", "feature")
            elif not same_obj(now, item):
                self.fail("feature.data does not yield the array that was assigned", _brief(now), _brief(item), "feature-data")
            else:
                self.featdata[fk] = tk
                self.alias(tk, sdesc, self.feat_getter(fk))
                self.check_entity(tk, "after set feature data")
        else:
            if accepted:
                self.fail("%s item (%s %r of block %s) accepted as data of a feature of block %s"
                          % ("foreign" if tk[1] == "data_array" else "wrong-kind", tk[1], tk[2], tk[0], bn),
                          "accepted", "refused", "feature-foreign")
                ft.data = self.primary(self.featdata[fk])
            elif not same_obj(now, before) or type(now) is not type(before):
                self.fail("refused feature data assignment changed the link", [type(now).__name__] + _brief(now),
                          [type(before).__name__] + _brief(before), "feature-refused-changed")

    def do_feature_frame(self):
        """a DataFrame assigned as data of an existing feature whose data is an array: the block's own frame is accepted
        by an untagged / indexed feature (feature.data is then that frame; the array is assigned back afterwards), a
        frame of another block, or any frame on a tagged feature, is refused - and then `feature.data` is in every
        respect what it was: the same object, seen as the same class, reading the same"""
        rng = self.rng
        if not self.featdata or not self.frames:
            return self.do_feature()
        fk = rng.choice(sorted(self.featdata))
        bn, tkind, tname, n0 = fk
        fb = bn if (bn in self.frames and rng.random() < 0.65) else rng.choice(sorted(self.frames))
        ft = self.primary((bn, tkind, tname)).features[n0]
        frame = self.f.blocks[fb].data_frames["df"]
        tagged = ft.link_type == nixio.LinkType.Tagged
        legal = fb == bn and not tagged
        before = ft.data
        cbefore = _content(before)
        self.log.append(["set feature data", bn, tname, n0, "the data frame df of block %s" % fb,
                         "feature link type %s" % ft.link_type.value])
        self.evals += 1
        try:
            ft.data = frame
            accepted = True
        except Exception as ex:
            accepted = False
            exn = type(ex).__name__
        try:
            now = self.feat_getter(fk)(self.f)
        except Exception as ex:
            self.fail("feature.data raised %s after a DataFrame was assigned (%s)" % (type(ex).__name__,
                      "accepted" if accepted else "refused"), type(ex).__name__, "a data object", "feature-data")
            now = None
        if legal:
            if not accepted:
                self.fail("the block's own data frame was refused as data of an %s feature" % ft.link_type.value, exn,
                          "accepted", "feature")
            elif now is None or not isinstance(now, nixio.DataFrame) or not same_obj(now, frame):
                self.fail("feature.data does not yield the data frame that was assigned",
                          None if now is None else [type(now).__name__] + _brief(now), ["DataFrame"] + _brief(frame),
                          "feature-data")
        else:
            if accepted:
                self.fail("%s was accepted as data of a %s feature of block %s"
                          % ("a data frame of block %s" % fb if fb != bn else "a data frame", ft.link_type.value, bn),
                          "accepted", "refused", "feature-foreign" if fb != bn else "feature-tagged-frame")
            elif now is not None:
                if not same_obj(now, before) or type(now) is not type(before):
                    self.fail("the refused assignment of a data frame changed what feature.data yields",
                              [type(now).__name__] + _brief(now), [type(before).__name__] + _brief(before),
                              "feature-refused-changed")
                else:
                    cnow = _content(now)
                    if cnow != cbefore:
                        diff = sorted(k for k in cnow if cnow[k] != cbefore.get(k))
                        self.fail("after the refused assignment of a data frame feature.data reads differently (%s)"
                                  % ",".join(diff), {k: cnow[k] for k in diff}, {k: cbefore.get(k) for k in diff},
                                  "feature-refused-changed")
        if accepted:
            # the array the oracle has on record goes back in (a legal assignment)
            self.log.append(["set feature data", bn, tname, n0, list(self.featdata[fk]), "(back to the array)"])
            ft.data = self.primary(self.featdata[fk])
        self.check_entity(self.featdata[fk], "after a data frame was offered to the feature")

    def do_metadata(self):
        rng = self.rng
        keys = [k for k in self.paths if k[1] not in ("section",)]
        ok = rng.choice(keys)
        label = "slot metadata of %s/%s/%s" % ok
        cur = next((k for k, ps in self.paths.items() if any(p[0] == label for p in ps)), None)
        secs = [k for k in self.paths if k[1] == "section"]
        sk = rng.choice(secs)
        if cur is not None and rng.random() < 0.5 and self.siblings(cur):
            sk = rng.choice(self.siblings(cur))
        self.link_metadata(ok, sk)

    def link_metadata(self, ok, sk):
        """`owner.metadata = section`, kept on the oracle's books (the slot leads to that section from now on)"""
        label = "slot metadata of %s/%s/%s" % ok
        odesc, owner = self.get(ok)
        sdesc, sec = self.get(sk)
        self.log.append(["set metadata", list(ok), "via " + odesc, list(sk), "via " + sdesc])
        self.evals += 1
        owner.metadata = sec
        self.alias(sk, label, lambda f, ok=ok: self.paths[ok][0][1](f).metadata)
        for d, g in self.views(ok):
            m = g(self.f).metadata
            if m is None or not same_obj(m, sec):
                self.fail("metadata set through %s is not the section seen through %s" % (odesc, d),
                          None if m is None else _brief(m), _brief(sec), "alias-metadata")
        self.check_entity(sk, "after metadata link")

    def do_mutate(self):
        rng = self.rng
        key = rng.choice(list(self.paths))
        desc, e = self.get(key)
        attr = rng.choice(["definition", "type", "unit", "label"] if key[1] == "data_array" else ["definition", "type"])
        val = rng.choice(UNITS if attr == "unit" else [v for v in STRS if not (attr == "type" and v is None)])
        self.log.append(["set", list(key), attr, val, "via " + desc])
        setattr(e, attr, val)
        for d, g in self.views(key):
            self.evals += 1
            got = getattr(g(self.f), attr)
            if got != val:
                self.fail("%s = %r written through %s reads %r through %s" % (attr, val, desc, got, d), got, val,
                          "alias-write")
        if attr in ("unit", "label"):
            self.check_dims()

    def do_calib(self):
        """calibration set and cleared again through one path: every other path (fresh or kept handle) reads the
        same content at each stage; the array is left uncalibrated"""
        rng = self.rng
        key = rng.choice([k for k in self.paths if k[1] == "data_array"])
        self.check_entity(key, "before a calibration change")
        desc, e = self.get(key)
        coeffs = rng.choice([(1.0, 2.0), (0.5,), (0.0, 0.0, 1.0), None])
        origin = rng.choice([None, 0.5, -2.0]) if coeffs is not None else rng.choice([0.5, -2.0])
        self.log.append(["set calibration", list(key), coeffs, origin, "via " + desc])
        e.polynom_coefficients = coeffs
        e.expansion_origin = origin
        self.check_entity(key, "after a calibration change through %s" % desc)
        desc2, e2 = self.get(key)
        self.log.append(["clear calibration", list(key), "via " + desc2])
        e2.polynom_coefficients = None
        e2.expansion_origin = None
        self.check_entity(key, "after clearing the calibration through %s" % desc2)

    def do_write(self):
        rng = self.rng
        key = rng.choice([k for k in self.paths if k[1] == "data_array"])
        desc, e = self.get(key)
        shape = e.shape
        data = np.array([rng.randrange(-20, 40) / 4.0 for _ in range(int(np.prod(shape)))]).reshape(shape)
        self.log.append(["write data", list(key), [float(v) for v in data.reshape(-1)], "via " + desc])
        e.write_direct(data)
        for d, g in self.views(key):
            self.evals += 1
            got = np.array(g(self.f)[:])
            if got.shape != data.shape or not np.array_equal(got, data):
                self.fail("data written through %s is not what %s reads" % (desc, d), [float(v) for v in got.reshape(-1)],
                          [float(v) for v in data.reshape(-1)], "alias-data")
        self.check_dims()

    def do_frame_write(self):
        """rewrite one column of a block's data frame: dimensions linked to it follow"""
        rng = self.rng
        bns = [bn for bn in self.bnames if bn in self.frames]
        if not bns:
            return
        bn = rng.choice(bns)
        fr_ = self.frames[bn]
        c = rng.randrange(len(fr_["cols"]))
        col = [rng.randrange(-8, 8) / 2.0 for _ in fr_["rows"]]
        self.log.append(["write_column", bn, "df", c, col])
        self.f.blocks[bn].data_frames["df"].write_column(col, index=c)
        for r, v in zip(fr_["rows"], col):
            r[c] = v
        self.check_dims()

    # -- handles that do not stand for a member of the block ----------------------------
    LIST_TABLE = [("group", "g", "data_arrays", "data_array"), ("group", "h", "data_arrays", "data_array"),
                  ("group", "g", "tags", "tag"), ("group", "g", "multi_tags", "multi_tag"),
                  ("group", "g", "sources", "source"), ("group", "h", "sources", "source"),
                  ("tag", "tg", "references", "data_array"), ("multi_tag", "mt", "references", "data_array"),
                  ("tag", "tg", "sources", "source"), ("data_array", "x", "sources", "source"),
                  ("tag", "tg2", "references", "data_array"), ("multi_tag", "mt2", "sources", "source")]

    def list_desc(self, L):
        return "%s/%s.%s.%s" % L

    def members_of(self, bn, kind):
        """the block's own entities of one kind, as the block shows them now (sources: the whole source tree)"""
        b = self.f.blocks[bn]
        if kind == "source":
            return list(b.find_sources())
        return list(getattr(b, STORE_OF[kind]))

    def is_member(self, e, bn, kind):
        return any(same_obj(e, o) for o in self.members_of(bn, kind))

    def restore_list(self, L):
        """after a wrongly accepted item: the list gets back the entries the oracle recorded for it"""
        try:
            cont = getattr(self.primary(L[:3]), L[3])
            for e in list(cont):
                del cont[e.id]
            for k in self.lists.get(L, []):
                cont.append(self.primary(k))
        except Exception:
            pass

    def legal_append(self, L, tk):
        cont = getattr(self.primary(L[:3]), L[3])
        lst = self.lists.setdefault(L, [])
        self.log.append(["append", self.list_desc(L), list(tk), "via its block"])
        cont.append(self.primary(tk))
        self.lists[L] = [k for k in lst if self.ids[k] != self.ids[tk]] + [tk]
        self.alias(tk, self.list_desc(L),
                   lambda f, L=L, iid=self.ids[tk]: [e for e in self.list_handles(L) if e.id == iid][0])

    def sinks(self, bn, kind):
        out = [("list", (bn, okind, oname, cname)) for okind, oname, cname, k in self.LIST_TABLE
               if k == kind and (bn, okind, oname) in self.paths]
        if kind == "data_array":
            for key in self.paths:
                if key[0] == bn and key[1] == "multi_tag":
                    out += [("role", (bn, key[2], "positions")), ("role", (bn, key[2], "extents"))]
            out += [("featdata", fk) for fk in self.featdata if fk[0] == bn]
            out.append(("create_feature", (bn, "tag", "tg")))
        return out

    def owner_via(self, b, key):
        """the owner of a link list / role link, reached through the Block object `b` the offered handle came from
        (a program keeps ONE block object and takes everything from it) or, when b is None, navigated afresh"""
        if b is None:
            return self.primary(key)
        return getattr(b, STORE_OF[key[1]])[key[2]]

    def offer(self, item, kind, bn, what, many=3, b=None, sinks=None):
        """`item` is a handle that does NOT stand for a member of block `bn` (`what` says why): every link list of
        its kind, positions / extents and feature data of that block must refuse it and stay as they are.  With
        `sinks` given, the item is offered to exactly those (lists / links that take ANOTHER kind than the item's)"""
        rng = self.rng
        if sinks is None:
            sinks = rng.sample(self.sinks(bn, kind), min(len(self.sinks(bn, kind)), many))
        if b is not None and rng.random() < 0.25:
            b = None
        item_kind = kind
        for sort, where in sinks:
            self.evals += 1
            if sort == "list":
                L = where
                kind = next((k for ok_, on_, cn_, k in self.LIST_TABLE if (ok_, on_, cn_) == L[1:]), item_kind)
                cont = getattr(self.owner_via(b, L[:3]), L[3])
                before = list(cont)
                mode = rng.choice(["append", "append", "extend", "extend with a member"])
                items = [item]
                if mode == "extend with a member":
                    free = [o for o in self.members_of(bn, kind) if not any(same_obj(o, h) for h in before)]
                    if free:
                        items = [rng.choice(free), item]
                        rng.shuffle(items)
                    else:
                        mode = "extend"
                self.log.append([mode, self.list_desc(L), what] + (["position %d of %d items" % (items.index(item) + 1, len(items))]
                                                                    if len(items) > 1 else []))
                try:
                    if mode == "append":
                        cont.append(item)
                    else:
                        cont.extend(items)
                    accepted = True
                except Exception:
                    accepted = False
                after = self.list_handles(L)
                same = len(after) == len(before) and all(same_obj(a, b) for a, b in zip(after, before))
                if accepted:
                    self.fail("%s was accepted by %s of block %s (%s): the list now holds an entity that is not the "
                              "block's member" % (what, self.list_desc(L), bn, mode), [_brief(h) for h in after],
                              "refused, list unchanged: %r" % [_brief(h) for h in before], "append-nonmember")
                elif not same:
                    self.fail("the refused %s of %s changed %s" % (mode, what, self.list_desc(L)),
                              [_brief(h) for h in after], [_brief(h) for h in before], "append-refused-changed")
                if accepted or not same:
                    self.restore_list(L)
            elif sort == "role":
                _, mname, role = where
                mt = self.owner_via(b, (bn, "multi_tag", mname))
                before = getattr(mt, role)
                self.log.append(["set " + role, bn, mname, what])
                try:
                    setattr(mt, role, item)
                    accepted = True
                except Exception:
                    accepted = False
                now = getattr(self.primary((bn, "multi_tag", mname)), role)
                changed = (now is None) != (before is None) or (now is not None and not same_obj(now, before))
                if accepted:
                    self.fail("%s was accepted as %s of multi-tag %s/%s" % (what, role, bn, mname),
                              None if now is None else _brief(now), "refused, link unchanged", "role-nonmember")
                elif changed:
                    self.fail("the refused assignment of %s changed %s of multi-tag %s/%s" % (what, role, bn, mname),
                              None if now is None else _brief(now), None if before is None else _brief(before),
                              "role-refused-changed")
                if accepted or changed:
                    try:
                        setattr(mt, role, before)
                    except Exception:
                        pass
            elif sort == "featdata":
                fk = where
                ft = self.owner_via(b, (fk[0], fk[1], fk[2])).features[fk[3]]
                before = ft.data
                self.log.append(["set feature data", fk[0], fk[2], fk[3], what])
                try:
                    ft.data = item
                    accepted = True
                except Exception:
                    accepted = False
                now = self.feat_getter(fk)(self.f)
                if accepted:
                    self.fail("%s was accepted as data of feature %d of %s/%s" % (what, fk[3], fk[0], fk[2]), _brief(now),
                              "refused, link unchanged", "feature-nonmember")
                elif not same_obj(now, before):
                    self.fail("the refused assignment of %s changed the data of feature %d of %s/%s"
                              % (what, fk[3], fk[0], fk[2]), _brief(now), _brief(before), "feature-refused-changed")
                if accepted or not same_obj(now, before):
                    try:
                        ft.data = self.primary(self.featdata[fk])
                    except Exception:
                        pass
            else:
                _, tkind, tname = where
                tg = self.owner_via(b, (bn, tkind, tname))
                n0 = len(tg.features)
                self.log.append(["create_feature", bn, tname, what])
                try:
                    tg.create_feature(item, rng.choice(["tagged", "untagged", "indexed"]))
                    accepted = True
                except Exception:
                    accepted = False
                n1 = len(self.primary((bn, tkind, tname)).features)
                if accepted:
                    self.fail("%s was accepted as data of a new feature of %s/%s" % (what, bn, tname), "accepted", "refused",
                              "feature-nonmember")
                    try:
                        del self.primary((bn, tkind, tname)).features[n0]
                    except Exception:
                        pass
                elif n1 != n0:
                    self.fail("the refused create_feature with %s changed the feature list" % what, n1, n0,
                              "feature-refused-changed")

    def make_scratch(self, b, kind, name):
        rng = self.rng
        if kind == "data_array":
            return b.create_data_array(name, "scratch", data=[rng.randrange(100) / 4.0 for _ in range(3)])
        if kind == "tag":
            return b.create_tag(name, "scratch", [0.0])
        if kind == "multi_tag":
            return b.create_multi_tag(name, "scratch", positions=b.data_arrays["pos"])
        return b.create_source(name, "scratch")

    def do_stale(self):
        """a handle kept across the deletion of its entity (and, sometimes, the creation of another entity under the
        same name): it stands for no member of the block any more"""
        rng = self.rng
        bn = rng.choice(self.bnames)
        b = self.f.blocks[bn]
        kind = rng.choice(["data_array", "data_array", "data_array", "tag", "multi_tag", "source"])
        self.nscratch += 1
        name = "scratch%d" % self.nscratch
        store = "sources" if kind == "source" else STORE_OF[kind]
        made = self.make_scratch(b, kind, name)
        route = rng.choice(["the handle create_* returned", "a handle fetched from the block", "a handle fetched from a link list"])
        handle = made
        if route == "a handle fetched from the block":
            handle = getattr(b, store)[name]
        elif route == "a handle fetched from a link list":
            lists = [s[1] for s in self.sinks(bn, kind) if s[0] == "list"]
            if lists:
                L = rng.choice(lists)
                cont = getattr(self.owner_via(b, L[:3]), L[3])
                cont.append(made)            # (the deletion below takes the entry out of the list again)
                handle = cont[made.id]
                route += " (%s)" % self.list_desc(L)
        self.log.append(["create %s %r in block %s, keep %s" % (kind, name, bn, route)])
        how = rng.choice(["name", "handle"])
        if how == "name":
            del getattr(b, store)[name]
        else:
            del getattr(b, store)[made]
        what = "the kept handle of the deleted %s %r" % (kind, name)
        again = rng.random() < 0.5
        if again:
            self.make_scratch(b, kind, name)
            what += " (another %s was created under that name since)" % kind
        self.log.append(["delete %s %r from block %s by %s" % (kind, name, bn, how)] + (["create another one under that name"] if again else []))
        if self.is_member(handle, bn, kind):
            # a nixio handle is (parent group, link name, opened object): once its link is gone it looks its name up
            # again, so after the re-creation it stands for the NEW entity - a member of the block; nothing to refuse
            self.log.append(["the kept handle now stands for the entity created under its name"])
            if again:
                del getattr(b, store)[name]
            return
        self.offer(handle, kind, bn, what, b=b)
        if again:
            del getattr(b, store)[name]
            self.log.append(["delete the second %r" % name])
        self.check_lists("after offering a stale handle")

    def do_stray(self):
        """entities that live only inside a copied tag / multi-tag: the HDF5 copy duplicates what the tag links to, so
        the copy's references / positions / extents / sources / feature data are entities with the name and id of a
        member of a block, but they are not the block's members"""
        rng = self.rng
        bn = rng.choice(self.bnames)
        src_bn = bn if rng.random() < 0.7 else rng.choice(self.bnames)
        tkind, tname = rng.choice([("tag", "tg"), ("tag", "tg"), ("multi_tag", "mt")])
        if (src_bn, tkind, tname) not in self.paths:
            return
        # the original refers to something
        for cname, kind in (("references", "data_array"), ("sources", "source")):
            L = (src_bn, tkind, tname, cname)
            if not self.lists.get(L) and rng.random() < 0.7:
                cands = [k for k in self.paths if k[0] == src_bn and k[1] == kind]
                if cands:
                    self.legal_append(L, rng.choice(cands))
        b = self.f.blocks[bn]
        self.nscratch += 1
        cname_ = "copy%d" % self.nscratch
        src = self.primary((src_bn, tkind, tname))
        self.log.append(["create_%s(name=%r, copy_from=%s/%s) in block %s" % (tkind, cname_, src_bn, tname, bn)])
        if tkind == "tag":
            c = b.create_tag(name=cname_, copy_from=src)
        else:
            c = b.create_multi_tag(name=cname_, copy_from=src)
        strays = []
        for e in c.references:
            strays.append(("data_array", e, "%s.references[%r]" % (cname_, e.name)))
        for e in c.sources:
            strays.append(("source", e, "%s.sources[%r]" % (cname_, e.name)))
        for i, ft in enumerate(c.features):
            try:
                d = ft.data
            except Exception:
                continue
            if isinstance(d, nixio.DataArray):
                strays.append(("data_array", d, "%s.features[%d].data" % (cname_, i)))
        if tkind == "multi_tag":
            for role in ("positions", "extents"):
                try:
                    r = getattr(c, role)
                except Exception:
                    r = None
                if r is not None:
                    strays.append(("data_array", r, "%s.%s" % (cname_, role)))
        rng.shuffle(strays)
        for kind, e, desc in strays[:3]:
            if self.is_member(e, bn, kind):
                continue                    # (the copy refers to the block's own entity: nothing to refuse)
            self.offer(e, kind, bn, "%s %r reached as %s (an entity inside the copied %s, not a member of block %s)"
                       % (kind, e.name, desc, tkind, bn), many=2, b=b)
        del getattr(b, STORE_OF[tkind])[cname_]
        self.log.append(["delete %r again" % cname_])
        self.check_lists("after offering entities from inside a copied tag")

    def do_deleted_block(self):
        """handles of entities whose whole block was deleted, offered to the lists of a living block"""
        rng = self.rng
        bn = rng.choice(self.bnames)
        self.nscratch += 1
        nb = self.f.create_block("scratchblock%d" % self.nscratch, "t")
        kind = rng.choice(["data_array", "data_array", "tag", "source"])
        name = rng.choice(["x", "tg", "s", "pos", "lonely"])
        if kind == "multi_tag" or kind == "tag":
            name = "tg"
        elif kind == "source":
            name = rng.choice(["s", "lonely"])
        elif name in ("tg", "s"):
            name = "x"
        h = self.make_scratch(nb, kind, name)
        self.log.append(["create block %r with %s %r, keep the handle, delete the block" % (nb.name, kind, name)])
        del self.f.blocks[nb.name]
        self.offer(h, kind, bn, "the kept handle of %s %r of a deleted block" % (kind, name))
        self.check_lists("after offering a handle from a deleted block")

    # -- entities of the wrong kind that hang below / are linked from the block's own structure ------------
    def section_family(self, m, why, below, out):
        """a section some entity of the block links to as metadata, and what hangs below it in the file: its
        subsections, the section it links to, its properties - none of them is an array / tag / multi-tag / source"""
        seen = []
        todo = [(m, why)]
        while todo and len(seen) < 12:
            sec, d = todo.pop(0)
            if any(same_obj(sec, o) for o in seen):
                continue
            seen.append(sec)
            out.append(("section", sec, "Section %r = %s" % (sec.name, d), below))
            try:        # the same section fetched through the file's section tree (another handle, another parent)
                for o in self.f.find_sections(filtr=lambda x, i=sec.id: x.id == i):
                    if same_obj(o, sec):
                        out.append(("section", o, "Section %r fetched from the file's section tree = %s" % (sec.name, d), below))
                        break
            except Exception:
                pass
            for p in sec.props:
                out.append(("property", p, "Property %r of %s" % (p.name, d), below))
            for sub in sec.sections:
                todo.append((sub, "subsection %r of %s" % (sub.name, d)))
            try:
                lk = sec.link
            except Exception:
                lk = None
            if lk is not None:
                todo.append((lk, "the section linked (Section.link) from %s" % d))

    def linked_below(self, bn):
        """(kind, handle, description, kind of the block member it hangs from) for what is reachable from the members
        of block `bn` through the links the file holds: metadata sections (+ subsections, linked sections, properties),
        sources / references / positions / extents / feature data of the entities, arrays and frames linked by
        dimensions, the features themselves, the block and its groups"""
        b = self.f.blocks[bn]
        out = [("block", b, "the block %r itself" % bn, "block")]
        m = b.metadata
        if m is not None:
            self.section_family(m, "metadata of block %s" % bn, "block", out)

        def entity(e, kind, d):
            out.append((kind, e, d, kind))
            try:
                m = e.metadata
            except Exception:
                m = None
            if m is not None:
                self.section_family(m, "metadata of " + d, kind, out)
            if kind != "source" and hasattr(e, "sources"):
                for s in e.sources:
                    out.append(("source", s, "Source %r reached as %s.sources" % (s.name, d), kind))

        for s in b.find_sources():
            entity(s, "source", "source %r of block %s" % (s.name, bn))
        for da in b.data_arrays:
            d = "array %r of block %s" % (da.name, bn)
            entity(da, "data_array", d)
            for i, dim in enumerate(da.dimensions):
                try:
                    lk = dim.dimension_link if getattr(dim, "has_link", False) else None
                except Exception:
                    lk = None
                if lk is not None:      # (the link object of a dimension: it has an id and lies below the array)
                    out.append(("dimension_link", lk, "the DimensionLink of dimension %d of %s" % (i + 1, d), "data_array"))
        for fr_ in b.data_frames:
            entity(fr_, "data_frame", "data frame %r of block %s" % (fr_.name, bn))
        for g in b.groups:
            d = "group %r of block %s" % (g.name, bn)
            entity(g, "group", d)
            for cname, k in (("data_arrays", "data_array"), ("tags", "tag"), ("multi_tags", "multi_tag")):
                for e in getattr(g, cname):
                    out.append((k, e, "%s %r reached as %s.%s" % (k, e.name, d, cname), "group"))
        for cname, kind in (("tags", "tag"), ("multi_tags", "multi_tag")):
            for t in getattr(b, cname):
                d = "%s %r of block %s" % (kind, t.name, bn)
                entity(t, kind, d)
                for e in t.references:
                    out.append(("data_array", e, "array %r reached as %s.references" % (e.name, d), kind))
                for i, ft in enumerate(t.features):
                    out.append(("feature", ft, "feature %d of %s" % (i, d), kind))
                    try:
                        x = ft.data
                    except Exception:
                        continue
                    k = "data_frame" if isinstance(x, nixio.DataFrame) else "data_array"
                    out.append((k, x, "%s %r reached as data of feature %d of %s" % (k, x.name, i, d), kind))
                if kind == "multi_tag":
                    for role in ("positions", "extents"):
                        try:
                            x = getattr(t, role)
                        except Exception:
                            x = None
                        if x is not None:
                            out.append(("data_array", x, "array %r reached as %s.%s" % (x.name, d, role), kind))
        return out

    def all_sinks(self, bn):
        """every link list / role link / feature data link of the block with the kind(s) it takes"""
        out = []
        for okind, oname, cname, k in self.LIST_TABLE:
            if (bn, okind, oname) in self.paths:
                out.append((("list", (bn, okind, oname, cname)), (k,)))
        for key in self.paths:
            if key[0] == bn and key[1] == "multi_tag":
                out += [(("role", (bn, key[2], r)), ("data_array",)) for r in ("positions", "extents")]
        out += [(("featdata", fk), ("data_array", "data_frame")) for fk in self.featdata if fk[0] == bn]
        out.append((("create_feature", (bn, "tag", "tg")), ("data_array", "data_frame")))
        return out

    def do_wrong_kind(self):
        """entities of the WRONG kind that a membership test could mistake for members because they hang below the
        structure it looks at (the metadata section of one of the block's sources lies below the block's `sources`
        group in the file, an array lies below the tag that refers to it ...): every link list, positions / extents and
        feature data take only their own kind, refuse anything else and stay as they are"""
        rng = self.rng
        bn = rng.choice(self.bnames)
        secs = [k for k in self.paths if k[1] == "section"]
        if secs and rng.random() < 0.7:          # something of the block gets metadata
            kind = rng.choice(["source", "source", "source", "data_array", "tag", "multi_tag", "group"])
            owners = [k for k in self.paths if k[0] == bn and k[1] == kind]
            if owners:
                self.link_metadata(rng.choice(owners), rng.choice(secs))
        if len(secs) > 1 and rng.random() < 0.3:          # a section links to another section
            a, c = rng.sample(secs, 2)
            sa, sc_ = self.primary(a), self.primary(c)
            if not same_obj(sa, sc_):
                self.log.append(["Section.link", list(a), "->", list(c)])
                sa.link = sc_
        if secs and rng.random() < 0.3:
            sk = rng.choice(secs)
            sec = self.primary(sk)
            if "p" not in [p.name for p in sec.props]:
                self.log.append(["create_property", list(sk), "p"])
                sec.create_property("p", [1.0])
        cands = self.linked_below(bn)
        sinks = self.all_sinks(bn)
        b = self.f.blocks[bn]
        for _ in range(4):
            sink, takes = rng.choice(sinks)
            skind = takes[0]
            pool = [c for c in cands if c[0] not in takes]
            if rng.random() < 0.6:              # what hangs below the members of the kind this sink takes
                pool = [c for c in pool if c[3] == skind] or pool
            if rng.random() < 0.6:              # kinds no list takes at all
                pool = [c for c in pool if c[0] in ("section", "property", "feature", "block", "group", "dimension_link")] or pool
            if not pool:
                continue
            kind, item, desc, _below = rng.choice(pool)
            self.offer(item, kind, bn, "%s (a %s, not a %s)" % (desc, kind, " / ".join(takes)), b=b, sinks=[sink])
        self.check_lists("after offering entities of the wrong kind")

    # -- dimensions --------------------------------------------------------------------
    def dims_setup(self):
        self.dimrec = {}          # (block, array, i) -> {"kind", "ticks"/"labels"/"link": (target key, index) / "frame": (block, column)}

    def dim_unlinked(self, dk, rec):
        self.unalias("slot dimension link %s/%s#%d" % dk)
        rec.pop("link", None)
        rec.pop("frame", None)

    def do_dim(self):
        rng = self.rng
        # mostly stay with the arrays that already have descriptors (a link must exist before it can be replaced)
        recs = []
        if self.dimrec and rng.random() < 0.75:
            linked = [k for k in self.dimrec if "link" in self.dimrec[k] or "frame" in self.dimrec[k]]
            dk0 = rng.choice(linked) if linked and rng.random() < 0.6 else rng.choice(sorted(self.dimrec))
            akey = (dk0[0], "data_array", dk0[1])
            recs = [dk0]
        else:
            akey = rng.choice([k for k in self.paths if k[1] == "data_array"])
        adesc, a = self.get(akey)
        if not recs:
            i = len(a.dimensions) + 1
            if rng.random() < 0.65:
                ticks = sorted(rng.randrange(-8, 8) / 2.0 for _ in range(rng.randrange(1, 4)))
                self.log.append(["append_range_dimension", list(akey), ticks, "via " + adesc])
                a.append_range_dimension(ticks, "lbl", "s")
                self.dimrec[(akey[0], akey[2], i)] = {"kind": "range", "ticks": ticks, "unit": "s", "label": "lbl"}
            else:
                labels = rng.choice([["a", "b"], ["é"]])
                self.log.append(["append_set_dimension", list(akey), labels, "via " + adesc])
                a.append_set_dimension(labels)
                self.dimrec[(akey[0], akey[2], i)] = {"kind": "set", "labels": labels}
            self.check_dims()
            return
        dk = rng.choice(recs)
        rec = self.dimrec[dk]
        dim = a.dimensions[dk[2] - 1]
        ldesc = "slot dimension link %s/%s#%d" % dk
        r = rng.random()
        if r < 0.5:
            tkey = None
            if "link" in rec and rng.random() < 0.5:       # re-link: the same array, or another array with the same id
                tkey = rng.choice(self.siblings(rec["link"][0]) + [rec["link"][0]])
            if tkey is None:
                cands = [k for k in self.paths if k[1] == "data_array"]
                if rng.random() < 0.5:
                    cands = [k for k in cands if self.siblings(k)] or cands
                tkey = rng.choice(cands)
            tdesc, t = self.get(tkey)
            shape = list(t.shape)
            bad = rng.random() < 0.25
            iv = [rng.randrange(n) for n in shape]
            iv[rng.randrange(len(iv))] = -1
            if bad:
                iv = rng.choice([iv + [0], [0 if x == -1 else x for x in iv], [-1] + iv, [-2 if x != -1 else x for x in iv]
                                 if len(iv) > 1 else [0]])
            legal = len(iv) == len(shape) and iv.count(-1) == 1 and sum(1 for x in iv if x < 0) == 1
            self.log.append(["link_data_array", list(dk), list(tkey), iv, "via " + adesc + " / " + tdesc])
            self.evals += 1
            try:
                dim.link_data_array(t, iv)
                accepted = True
            except Exception as ex:
                accepted = False
                exn = type(ex).__name__
            if legal and not accepted:
                self.fail("a well-formed dimension link was refused", exn, "accepted", "dimlink")
            if not legal and accepted:
                self.fail("a malformed index vector %r was accepted for an array of shape %r" % (iv, shape), "accepted",
                          "refused", "dimlink-malformed")
            if accepted:
                self.dim_unlinked(dk, rec)
                if rec["kind"] == "range":
                    rec.pop("ticks", None)
                rec["link"] = (tkey, iv)
                self.alias(tkey, ldesc, lambda f, dk=dk: nixio.DataArray(
                    f, f.blocks[dk[0]],
                    f.blocks[dk[0]].data_arrays[dk[1]].dimensions[dk[2] - 1].dimension_link._linked_group()))
        elif r < 0.62 and self.frames:
            bn = rng.choice(sorted(self.frames))
            ncols = len(self.frames[bn]["cols"])
            c = rng.choice([0, 1, 2, ncols, -1]) if rng.random() < 0.25 else rng.randrange(ncols)
            legal = 0 <= c < ncols
            self.log.append(["link_data_frame", list(dk), bn, "df", c, "via " + adesc])
            self.evals += 1
            try:
                dim.link_data_frame(self.f.blocks[bn].data_frames["df"], c)
                accepted = True
            except Exception as ex:
                accepted = False
                exn = type(ex).__name__
            if legal and not accepted:
                self.fail("a dimension link to column %d of a data frame was refused" % c, exn, "accepted", "dimlink")
            if not legal and accepted:
                self.fail("column %d of a frame with %d columns was accepted by link_data_frame" % (c, ncols), "accepted",
                          "refused", "dimlink-malformed")
            if legal and accepted:
                self.dim_unlinked(dk, rec)
                if rec["kind"] == "range":
                    rec.pop("ticks", None)
                rec["frame"] = (bn, c)
        elif r < 0.8 and rec["kind"] == "range":
            ticks = [rng.randrange(-8, 8) / 2.0 for _ in range(rng.randrange(1, 4))]
            if rng.random() < 0.75:
                ticks.sort()
            note = ""
            if ("link" in rec or "frame" in rec) and rng.random() < 0.5:
                # "freezing": the explicit ticks are exactly the values the link yields at this moment - an
                # assignment of the value the getter returns has its full effect (the link is replaced)
                cur = self.current_ticks(dim, rec)
                if cur is not None:
                    ticks, note = cur, " (= the values the linked dimension reports now)"
            legal = all(b >= a for a, b in zip(ticks, ticks[1:]))
            self.log.append(["set ticks" + note, list(dk), ticks, "via " + adesc])
            self.evals += 1
            try:
                dim.ticks = ticks
                accepted = True
            except ValueError:
                accepted = False
            if legal != accepted:
                self.fail("ticks %r %s" % (ticks, "accepted" if accepted else "refused"), accepted, legal, "ticks")
            if accepted:
                # unit and label had been written to the linked array, the dimension keeps its own
                self.dim_unlinked(dk, rec)
                rec["ticks"] = ticks
        elif r < 0.9 and ("link" in rec or "frame" in rec):
            self.log.append(["remove_link", list(dk)])
            dim.remove_link()
            self.dim_unlinked(dk, rec)
        elif "frame" in rec and rec["kind"] == "range":
            self.frame_unit_step(dk, rec, dim)
        elif "link" in rec and rec["kind"] == "range":
            val = rng.choice(["mV", "s", None, self.primary(rec["link"][0]).unit])
            self.log.append(["set unit through the dimension", list(dk), val])
            dim.unit = val
            tkey = rec["link"][0]
            got = self.primary(tkey).unit
            self.evals += 1
            if got != val:
                self.fail("unit set through a linked dimension is not the array's unit", got, val, "dimlink-unit")
        self.check_dims()

    def current_ticks(self, dim, rec):
        """the ticks a linked range dimension reports right now, as plain floats; when they do not ascend (explicit
        ticks have to) the linked array / frame column is first given ascending content through its owner"""
        def read():
            try:
                return [float(v) for v in dim.ticks]
            except Exception:
                return None
        cur = read()
        if cur is None:
            return None
        if any(b < a for a, b in zip(cur, cur[1:])):
            if "link" in rec:
                tkey = rec["link"][0]
                t = self.primary(tkey)
                data = np.sort(np.array(t[:]).reshape(-1)).reshape(t.shape)   # every axis vector of it ascends
                self.log.append(["write data", list(tkey), [float(v) for v in data.reshape(-1)], "via its block"])
                t.write_direct(data)
            else:
                bn, c = rec["frame"]
                fr_ = self.frames[bn]
                col = sorted(float(r[c]) for r in fr_["rows"])
                self.log.append(["write_column", bn, "df", c, col])
                self.f.blocks[bn].data_frames["df"].write_column(col, index=c)
                for r, v in zip(fr_["rows"], col):
                    r[c] = v
            cur = read()
            if cur is None or any(b < a for a, b in zip(cur, cur[1:])):
                return None
        return cur

    def check_frame_units(self, bn, why):
        """`DataFrame.units` of the block's frame against the oracle's record (None: the frame has no units)"""
        fr_ = self.frames[bn]
        self.evals += 1
        got = self.f.blocks[bn].data_frames["df"].units
        got = None if got is None else list(got)
        want = [u for _, u in fr_["cols"]] if fr_["has_units"] else None
        if got != want:
            self.fail("the units of data frame %s/df are not what was assigned (%s)" % (bn, why), got, want, "frame-units")

    def frame_unit_step(self, dk, rec, dim):
        """the unit of a frame column, assigned through the range dimension linked to it (a text, the empty text,
        None; the frame with or without units) or to the frame itself: an accepted write to the FRAME, seen through
        the dimension, through `DataFrame.units` and through every other dimension linked to the frame"""
        rng = self.rng
        bn, c = rec["frame"]
        fr_ = self.frames[bn]
        if rng.random() < 0.75:
            val = rng.choice([None, "", "mV", "s", "kg"])
            self.log.append(["set unit through the dimension linked to a frame column", list(dk), [bn, "df", c], val,
                             "frame has units" if fr_["has_units"] else "frame WITHOUT units"])
            self.evals += 1
            try:
                dim.unit = val
            except Exception as ex:
                self.fail("assigning unit %r through a dimension linked to column %d of a data frame %s raised %s: %s"
                          % (val, c, "with units" if fr_["has_units"] else "without units", type(ex).__name__, ex),
                          type(ex).__name__, "accepted (the column's unit in the frame's units)", "dimlink-unit")
                return
            fr_["cols"][c] = (fr_["cols"][c][0], val or None)
            fr_["has_units"] = True
            self.check_frame_units(bn, "unit %r assigned through dimension %s/%s#%d" % ((val,) + dk))
        else:
            units = [rng.choice([None, "mV", "s", "kg"]) for _ in fr_["cols"]]
            self.log.append(["frame.units =", bn, "df", units])
            self.f.blocks[bn].data_frames["df"].units = units
            fr_["cols"] = [(nm, u) for (nm, _), u in zip(fr_["cols"], units)]
            fr_["has_units"] = True
            self.check_frame_units(bn, "assigned to the frame")

    def do_frame_unit(self):
        """a unit write to a frame column through a range dimension linked to it (the link is made when none exists)"""
        rng = self.rng
        cands = [dk for dk, rec in self.dimrec.items() if "frame" in rec and rec["kind"] == "range"]
        if not cands:
            if not self.frames:
                return
            akey = rng.choice([k for k in self.paths if k[1] == "data_array"])
            adesc, a = self.get(akey)
            bn = rng.choice(sorted(self.frames))
            c = rng.randrange(len(self.frames[bn]["cols"]))
            i = len(a.dimensions) + 1
            dk = (akey[0], akey[2], i)
            self.log.append(["append_range_dimension; link_data_frame", list(dk), bn, "df", c, "via " + adesc])
            d = a.append_range_dimension()
            d.link_data_frame(self.f.blocks[bn].data_frames["df"], c)
            self.dimrec[dk] = {"kind": "range", "frame": (bn, c)}
            cands = [dk]
        dk = rng.choice(cands)
        dim = self.f.blocks[dk[0]].data_arrays[dk[1]].dimensions[dk[2] - 1]
        self.frame_unit_step(dk, self.dimrec[dk], dim)
        self.check_dims()

    def check_dims(self):
        for dk, rec in self.dimrec.items():
            self.evals += 1
            try:
                dim = self.f.blocks[dk[0]].data_arrays[dk[1]].dimensions[dk[2] - 1]
                if "link" in rec:
                    tkey, iv = rec["link"]
                    t = self.primary(tkey)
                    cur = np.array(t[:])
                    sel = tuple(slice(None) if x == -1 else x for x in iv)
                    try:
                        exp = [float(v) for v in cur[sel]]
                    except IndexError:
                        exp = None
                    if not dim.has_link:
                        self.fail("linked dimension reports has_link False", False, True, "dimlink-state")
                        continue
                    if rec["kind"] == "range" and "ticks" in dim._h5group:
                        self.fail("a linked range dimension still stores explicit ticks", "ticks + link", "link only",
                                  "dimlink-exclusive")
                    if not bool(dim.dimension_link._linked_group().group == _h5obj(t)):
                        self.fail("dimension %s/%s#%d is not linked to the array that was handed to link_data_array "
                                  "(%s %r of block %s)" % (dk + (tkey[1], tkey[2], tkey[0])),
                                  dim.dimension_link._linked_group().get_attr("name"), tkey[2], "dimlink-identity")
                    try:
                        got = [float(v) for v in (dim.ticks if rec["kind"] == "range" else dim.labels)]
                    except IndexError:
                        got = None
                    if got != exp:
                        self.fail("linked %s dimension does not report the selected vector of the current data of the "
                                  "array it was linked to" % rec["kind"], got, exp, "dimlink-values")
                    if rec["kind"] == "range":
                        if dim.unit != t.unit or dim.label != t.label:
                            self.fail("linked range dimension does not report the unit/label of the array it was linked to",
                                      [dim.unit, dim.label], [t.unit, t.label], "dimlink-unit")
                        if not dim.is_alias:
                            self.fail("linked range dimension is not an alias", False, True, "dimlink-state")
                elif "frame" in rec:
                    bn, c = rec["frame"]
                    fr_ = self.frames[bn]
                    exp = [float(r[c]) for r in fr_["rows"]]
                    if not dim.has_link:
                        self.fail("dimension linked to a frame column reports has_link False", False, True, "dimlink-state")
                        continue
                    if rec["kind"] == "range" and "ticks" in dim._h5group:
                        self.fail("a range dimension linked to a frame column still stores explicit ticks", "ticks + link",
                                  "link only", "dimlink-exclusive")
                    if not bool(dim.dimension_link._linked_group().group
                                == _h5obj(self.f.blocks[bn].data_frames["df"])):
                        self.fail("dimension %s/%s#%d is not linked to the data frame that was handed to link_data_frame"
                                  % dk, dim.dimension_link._linked_group().get_attr("name"), "df of block " + bn,
                                  "dimlink-identity")
                    got = [float(v) for v in (dim.ticks if rec["kind"] == "range" else dim.labels)]
                    if got != exp:
                        self.fail("%s dimension linked to column %d of a data frame does not report that column's current "
                                  "values" % (rec["kind"], c), got, exp, "dimlink-values")
                    if rec["kind"] == "range":
                        want = [fr_["cols"][c][1], fr_["cols"][c][0]]
                        if [dim.unit, dim.label] != want:
                            self.fail("range dimension linked to a frame column does not report the column's unit and name",
                                      [dim.unit, dim.label], want, "dimlink-unit")
                else:
                    if dim.has_link:
                        self.fail("dimension without a link reports has_link True", True, False, "dimlink-state")
                        continue
                    if rec["kind"] == "range":
                        got = [float(v) for v in dim.ticks]
                        if got != rec.get("ticks", []):
                            self.fail("range dimension does not report its explicit ticks", got, rec.get("ticks", []),
                                      "ticks")
                    else:
                        got = list(dim.labels)
                        if got != rec["labels"]:
                            self.fail("set dimension does not report its labels", got, rec["labels"], "labels")
            except Exception as ex:
                self.fail("reading dimension %r raised %s: %s" % (dk, type(ex).__name__, ex), type(ex).__name__,
                          "a value", "dim-read")

    def refused_link_keeps_ticks(self):
        """fixed defect: a refused link_data_array removed the ticks"""
        bn = self.bnames[0]
        a = self.primary((bn, "data_array", "y"))
        d = a.append_range_dimension([1.0, 2.0])
        i = len(a.dimensions)
        self.dimrec[(bn, "y", i)] = {"kind": "range", "ticks": [1.0, 2.0]}
        self.log.append(["append_range_dimension [1,2]; link_data_array with a wrong rank", bn, "y"])
        t = self.primary((bn, "data_array", "pos"))
        try:
            d.link_data_array(t, [0, -1])
            self.fail("rank mismatch accepted by link_data_array", "accepted", "refused", "dimlink-malformed")
        except ValueError:
            pass
        self.evals += 1
        self.check_dims()


def _copy_scenario(ctx, tag):
    """id-keeping copy of a whole block: every copied entity shares name AND id with its original"""
    path = ctx.tmpfile("c05-oracle-copy-%s.nix" % tag)
    fails = []
    f = nixio.File.open(path, nixio.FileMode.Overwrite)
    log = [["block b1 with arrays x,pos, group g, tag tg, multi-tag mt, sources s/deep; b2 = id-keeping copy of b1"]]
    try:
        b1 = f.create_block("b1", "t")
        b1.create_data_array("x", "t", data=[1.0, 2.0])
        pos = b1.create_data_array("pos", "t", data=[1.0])
        g = b1.create_group("g", "t")
        tg = b1.create_tag("tg", "t", [0.0])
        mt = b1.create_multi_tag("mt", "t", positions=pos)
        s = b1.create_source("s", "t")
        s.create_source("deep", "t")
        ft = tg.create_feature(b1.data_arrays["x"], "untagged")
        b2 = f.create_block(name="b2", copy_from=b1, keep_copy_id=True)
        if b2.data_arrays["x"].id != b1.data_arrays["x"].id:
            return fails, 0
        n = 0
        trials = [
            ("group.data_arrays", lambda: g.data_arrays.append(b2.data_arrays["x"]), lambda: [e.id for e in g.data_arrays]),
            ("group.tags", lambda: g.tags.append(b2.tags["tg"]), lambda: [e.id for e in g.tags]),
            ("group.multi_tags", lambda: g.multi_tags.append(b2.multi_tags["mt"]), lambda: [e.id for e in g.multi_tags]),
            ("tag.references", lambda: tg.references.append(b2.data_arrays["x"]), lambda: [e.id for e in tg.references]),
            ("group.sources", lambda: g.sources.append(b2.sources["s"]), lambda: [e.id for e in g.sources]),
            ("group.sources(deep)", lambda: g.sources.append(b2.sources["s"].sources["deep"]),
             lambda: [e.id for e in g.sources]),
            ("tag.sources", lambda: tg.sources.append(b2.sources["s"].sources["deep"]), lambda: [e.id for e in tg.sources]),
            ("data_array.sources", lambda: b1.data_arrays["x"].sources.append(b2.sources["s"]),
             lambda: [e.id for e in b1.data_arrays["x"].sources]),
            ("multi_tag.positions", lambda: setattr(mt, "positions", b2.data_arrays["pos"]),
             lambda: [mt.positions.definition]),
            ("multi_tag.extents", lambda: setattr(mt, "extents", b2.data_arrays["pos"]),
             lambda: [None if mt.extents is None else mt.extents.id]),
            ("feature.data", lambda: setattr(ft, "data", b2.data_arrays["x"]), lambda: [ft.data.definition]),
            ("create_feature", lambda: tg.create_feature(b2.data_arrays["x"], "untagged"), lambda: [len(tg.features)]),
        ]
        b2.data_arrays["x"].definition = "the copy"
        b2.data_arrays["pos"].definition = "the copy"
        for label, act, view in trials:
            n += 1
            before = view()
            try:
                act()
                fails.append(Failure("an id-keeping copy in another block (same name, same id) was accepted by %s" % label,
                                     log + [[label]], "accepted", "refused", "copy-foreign"))
            except (RuntimeError, TypeError):
                pass
            after = view()
            if after != before:
                fails.append(Failure("refused %s changed the list/link" % label, log + [[label]], after, before,
                                     "copy-foreign-changed"))
        # the originals are still accepted, and what the list yields is the original, not the copy
        for label, act in (("group.data_arrays", lambda: g.data_arrays.append(b1.data_arrays["x"])),
                           ("group.sources", lambda: g.sources.append(b1.sources["s"].sources["deep"]))):
            try:
                act()
            except Exception as ex:
                fails.append(Failure("an entity of the same block was refused by %s (%s)" % (label, type(ex).__name__),
                                     log + [["append original", label]], type(ex).__name__, "accepted", "append"))
                return fails, n
        b1.data_arrays["x"].definition = "original"
        n += 2
        if g.data_arrays[0].definition != "original":
            fails.append(Failure("group list yields the copy instead of the original", log, g.data_arrays[0].definition,
                                 "original", "copy-alias"))
        b1.sources["s"].sources["deep"].definition = "orig-src"
        if g.sources[0].definition != "orig-src":
            fails.append(Failure("source list yields the copy instead of the original", log, g.sources[0].definition,
                                 "orig-src", "copy-alias"))
    finally:
        try:
            f.close()
        except Exception:
            pass
        try:
            os.remove(path)
        except OSError:
            pass
    return fails, n


def audit_file(f, log):
    """model-free audit of a whole file: every link leads to the block's own entity (same HDF5
    object, same content), every linked dimension reports the selected vector of the current data"""
    fails = []
    n = 0

    for b in f.blocks:
        # the block's own entities, found by OBJECT (two entities of a block may carry the same id: id-keeping copies)
        own = {c: list(getattr(b, c)) for c in ("data_arrays", "tags", "multi_tags")}
        own["sources"] = list(b.find_sources())

        def chk(e, store, where):
            o = next((o for o in own[store] if same_obj(o, e)), None)
            if o is None:
                fails.append(Failure("%s of block %s leads to an entity that is not the block's own %s" % (where, b.name,
                                                                                                          store),
                                     list(log), [getattr(e, "name", None), e.id], "an entity of block " + b.name,
                                     "audit-foreign"))
            elif _content(o) != _content(e):
                fails.append(Failure("%s of block %s reads differently from the block's own entity" % (where, b.name),
                                     list(log), _content(e), _content(o), "audit-alias"))

        holders = [(g, "group " + g.name, ("data_arrays", "tags", "multi_tags", "sources")) for g in b.groups]
        holders += [(t, "tag " + t.name, ("references", "sources")) for t in b.tags]
        holders += [(t, "multi-tag " + t.name, ("references", "sources")) for t in b.multi_tags]
        holders += [(a, "array " + a.name, ("sources",)) for a in b.data_arrays]
        for h, hname, cnames in holders:
            for c in cnames:
                for e in getattr(h, c):
                    n += 1
                    chk(e, "data_arrays" if c == "references" else c, "%s.%s" % (hname, c))
        for t in list(b.tags) + list(b.multi_tags):
            for i, ft in enumerate(t.features):
                try:
                    d = ft.data
                except RuntimeError:
                    continue
                n += 1
                if isinstance(d, nixio.DataArray):
                    chk(d, "data_arrays", "%s.features[%d].data" % (t.name, i))
        for t in b.multi_tags:
            for role in ("positions", "extents"):
                try:
                    r = getattr(t, role)
                except RuntimeError:
                    r = None
                if r is not None:
                    n += 1
                    chk(r, "data_arrays", "multi-tag %s.%s" % (t.name, role))
        for a in b.data_arrays:
            for i, d in enumerate(a.dimensions):
                dl = d.dimension_link
                if dl is None or len(dl._h5group) == 0:
                    continue
                n += 1
                if isinstance(d, RangeDimension) and "ticks" in d._h5group:
                    fails.append(Failure("range dimension %s#%d has explicit ticks and a link" % (a.name, i + 1), list(log),
                                         "ticks + link", "one of them", "audit-exclusive"))
                if dl._data_object_type == "DataFrame":
                    tgt = nixio.DataFrame(f, b, dl._linked_group())
                    col = int(dl.index)
                    exp = [float(r[col]) for r in tgt._h5group.get_data("data")]
                    got = [float(v) for v in (d.ticks if isinstance(d, RangeDimension) else d.labels)]
                    if got != exp:
                        fails.append(Failure("dimension %s#%d linked to a frame column does not report the column's current "
                                             "values" % (a.name, i + 1), list(log), got, exp, "audit-dimlink"))
                    if isinstance(d, RangeDimension):
                        want = [_col_unit(tgt, col), tgt.column_names[col]]
                        try:
                            got = [d.unit, d.label]
                        except Exception as ex:
                            got = "%s: %s" % (type(ex).__name__, ex)
                        if got != want:
                            fails.append(Failure("range dimension %s#%d linked to a frame column does not report the "
                                                 "column's unit and name" % (a.name, i + 1), list(log), got, want,
                                                 "audit-dimlink"))
                    continue
                tgt = nixio.DataArray(f, b, dl._linked_group())
                cur = np.array(tgt[:])
                sel = tuple(slice(None) if x == -1 else int(x) for x in dl.index)
                try:
                    exp = [float(v) for v in cur[sel]]
                    got = [float(v) for v in (d.ticks if isinstance(d, RangeDimension) else d.labels)]
                except IndexError:
                    continue
                if got != exp:
                    fails.append(Failure("linked dimension %s#%d does not report the selected vector of the current data"
                                         % (a.name, i + 1), list(log), got, exp, "audit-dimlink"))
                if isinstance(d, RangeDimension) and (d.unit != tgt.unit or d.label != tgt.label):
                    fails.append(Failure("linked range dimension %s#%d does not report the array's unit/label"
                                         % (a.name, i + 1), list(log), [d.unit, d.label], [tgt.unit, tgt.label],
                                         "audit-dimlink"))
    return fails, n


def _audit_hint(ctx, hint, tag):
    """replay the history of a model/implementation disagreement on the implementation and audit the file"""
    ops = hint.get("prefix") if isinstance(hint, dict) else None
    if not ops:
        return [], 0
    path = ctx.tmpfile("c05-hint-%s.nix" % tag)
    impl = Impl5(path)
    fails, n = [], 0
    try:
        for k, op in enumerate(ops):
            if op == ["reopen"] or op == ["noop"]:
                impl.reopen("a")
            else:
                impl.run(op)
            if op[0] in ("append", "set_role", "create_feature", "dim_link", "dim_set_ticks", "da_write", "set_attr",
                         "dim_set_attr") or k == len(ops) - 1:
                with contextlib.redirect_stdout(io.StringIO()):
                    fs, m = audit_file(impl.f, ops[:k + 1])
                n += m
                if fs:
                    fails += fs
                    break
    except Exception:
        pass
    finally:
        impl.close()
        try:
            os.remove(path)
        except OSError:
            pass
    return fails, n


def _frame_unit_fixed(ctx):
    """fixed defect (nixio `fix:` "unit of a dimension linked to a frame column"): the unit of a range dimension
    linked to a column of a frame WITHOUT units could neither be read nor assigned (TypeError: 'NoneType' object is
    not subscriptable / iterable), None could not be assigned even when the frame had units (a list holding None
    went to the attribute), and an entry without unit read '' through the dimension but None through the frame"""
    from collections import OrderedDict
    path = ctx.tmpfile("c05-oracle-frame-unit.nix")
    log = [["create_block b; frames u (col_dict x:int, y:float only - no units) and v (same columns, units ['s', None]); "
            "array a = [1.0, 2.0] with two range dimensions: #1 link_data_frame(u, 0), #2 link_data_frame(v, 1)"]]
    fails = []
    evals = 0
    f = nixio.File.open(path, nixio.FileMode.Overwrite)
    try:
        b = f.create_block("b", "t")
        u = b.create_data_frame("u", "t", col_dict=OrderedDict([("x", int), ("y", float)]))
        v = b.create_data_frame("v", "t", col_dict=OrderedDict([("x", int), ("y", float)]))
        v.units = ["s", None]
        a = b.create_data_array("a", "t", data=[1.0, 2.0])
        ru = a.append_range_dimension()
        ru.link_data_frame(u, 0)
        rv = a.append_range_dimension()
        rv.link_data_frame(v, 1)

        def units(df):
            us = df.units
            return None if us is None else list(us)

        def assign(dim, val):
            dim.unit = val
            return True

        steps = [
            ("read a.dimensions[0].unit / .label, u.units (frame without units)", lambda: [ru.unit, ru.label, units(u)],
             [None, "x", None]),
            ("read a.dimensions[1].unit / .label, v.units (column without unit)", lambda: [rv.unit, rv.label, units(v)],
             [None, "y", ["s", None]]),
            ("a.dimensions[0].unit = 'mV' (frame without units)", lambda: assign(ru, "mV") and [ru.unit, units(u)],
             ["mV", ["mV", None]]),
            ("a.dimensions[0].unit = None", lambda: assign(ru, None) and [ru.unit, units(u)], [None, [None, None]]),
            ("a.dimensions[1].unit = 'kg' (column without unit)", lambda: assign(rv, "kg") and [rv.unit, units(v)],
             ["kg", ["s", "kg"]]),
            ("a.dimensions[1].unit = None (frame with units)", lambda: assign(rv, None) and [rv.unit, units(v)],
             [None, ["s", None]]),
            ("a.dimensions[1].unit = '' (frame with units)", lambda: assign(rv, "") and [rv.unit, units(v)],
             [None, ["s", None]]),
            ("v.units = ['ms', 'mV']; read a.dimensions[1].unit", lambda: setattr(v, "units", ["ms", "mV"]) or rv.unit, "mV"),
        ]
        for what, fn, want in steps:
            evals += 1
            log.append([what])
            try:
                got = fn()
            except Exception as ex:
                fails.append(Failure("%s raised %s: %s" % (what, type(ex).__name__, ex), list(log), type(ex).__name__,
                                     want, "dimlink-unit"))
                continue
            if got != want:
                fails.append(Failure("%s: the dimension and the frame do not show the unit that was assigned" % what,
                                     list(log), got, want, "dimlink-unit"))
    finally:
        try:
            f.close()
        except Exception:
            pass
        try:
            os.remove(path)
        except OSError:
            pass
    return fails, evals


def _scene_run(ctx, rng, steps, tag):
    sc = Scene(ctx, rng, tag, rng.choice([2, 3]))
    try:
        sc.dims_setup()
        sc.refused_link_keeps_ticks()
        acts = [(sc.do_append, 0.26), (sc.do_role, 0.1), (sc.do_feature, 0.07), (sc.do_metadata, 0.07),
                (sc.do_mutate, 0.16), (sc.do_write, 0.1), (sc.do_dim, 0.22), (sc.reopen, 0.04),
                (sc.do_calib, 0.05), (sc.do_feature_data, 0.06), (sc.do_frame_write, 0.03), (sc.do_frame_unit, 0.06),
                (sc.do_stale, 0.05), (sc.do_stray, 0.04), (sc.do_deleted_block, 0.015), (sc.do_feature_frame, 0.04),
                (sc.do_wrong_kind, 0.06)]
        tot = sum(w for _, w in acts)
        for _ in range(steps):
            r = rng.random() * tot
            acc = 0.0
            for fn, w in acts:
                acc += w
                if r < acc:
                    break
            try:
                with contextlib.redirect_stdout(io.StringIO()):
                    fn()
            except Exception as ex:
                sc.fail("step raised %s: %s" % (type(ex).__name__, ex), type(ex).__name__, "no exception", "oracle-step")
            if len(sc.fails) > 6:
                break
        sc.check_all("at the end")
        sc.check_lists("at the end")
        sc.check_dims()
        fs, m = audit_file(sc.f, sc.log)
        sc.fails += fs
        sc.evals += m
        sc.reopen()
    finally:
        sc.close()
    return sc.fails, sc.evals


def oracle(ctx, broken, hints):
    n = ctx.budget(12, 80) * (4 if broken else 1)
    steps = ctx.budget(60, 100)
    failures = []
    evals = 0
    try:
        fs, e = _copy_scenario(ctx, "0")
    except Exception as ex:      # a scenario that cannot even be built on this tree is reported, not an infra error
        fs, e = [Failure("the id-keeping-copy scenario raised %s: %s" % (type(ex).__name__, ex),
                         [["copy scenario"]], type(ex).__name__, "no exception", "oracle-step")], 0
    failures += fs
    evals += e
    try:
        fs, e = _frame_unit_fixed(ctx)
    except Exception as ex:
        fs, e = [Failure("the frame-column unit scenario raised %s: %s" % (type(ex).__name__, ex),
                         [["frame unit scenario"]], type(ex).__name__, "no exception", "oracle-step")], 0
    failures += fs
    evals += e
    for hi, hint in enumerate(hints[:6]):          # the disagreeing histories first
        fs, e = _audit_hint(ctx, hint, str(hi))
        failures += fs
        evals += e
    for k in range(n):
        rng = random.Random("C05-oracle/%d/%d" % (ctx.seed, k))
        try:
            fs, e = _scene_run(ctx, rng, steps, str(k))
        except Exception as ex:
            fs, e = [Failure("building the scene (blocks with equal names, arrays, group, tag, multi-tag, sources) raised "
                             "%s: %s" % (type(ex).__name__, ex), [["scene setup", k]], type(ex).__name__, "no exception",
                             "oracle-step")], 0
        failures += fs
        evals += e
        if len(failures) > 12:
            break
    best = {}
    for f in failures:
        key = (f.site, f.what[:60])
        if key not in best or len(core.canon(f.input)) < len(core.canon(best[key].input)):
            best[key] = f
    out = sorted(best.values(), key=lambda f: len(core.canon(f.input)))
    return {"evaluations": evals, "failures": out, "scenarios": n + 2}


def matches_known(entry, failure):
    return False       # no open findings for C05


def reproduces(ctx, entry):
    return False


def replay_failure(ctx, fj):
    res = oracle(ctx, True, [])
    for f in res["failures"]:
        if f.site == fj.get("site") and f.what[:40] == (fj.get("what") or "")[:40]:
            return f
    for f in res["failures"]:
        if f.site == fj.get("site"):
            return f
    return None
