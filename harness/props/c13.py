"""C13 — tree searches, parents and 'referring' lists reflect the stored structure.

Model: lean/NixModel/Pure/Tree.lean (ownership forest + links, histories of create / link / unlink /
delete / reopen operations, queries find / parent / parent_source / parent_block / referring).
The queries are answered by lean/NixModel/Pure/TreeShape.lean interpreting lean/NixModel/Generated/FindShape.lean, which
harness/extract/findshape.py regenerates from the source on every run.
Line protocol (one JSON array per line, see lean/Driver/C13.lean).  Entities are addressed by *key* =
number of successful create calls before the one that made them; both sides count on their own.

A correspondence / corpus *case* is a whole history: a list of protocol lines (state starts empty).
"""
import os

from ..extract import findshape as _ex
from ..extract import c13_idlookup as _ex_ids
from ..lib import core
from ..lib.core import Failure, Disagreement

PROP = "C13"
LEAN_MODULE = "NixModel.Props.C13"
THEOREMS = [
    "Nix.C13.find_bfs",
    "Nix.C13.find_mem",
    "Nix.C13.find_once",
    "Nix.C13.find_unlimited",
    "Nix.C13.reachable_wf",
    "Nix.C13.parent",
    "Nix.C13.parent_source",
    "Nix.C13.parent_block",
    "Nix.C13.referring_inverse",
    "Nix.C13.referring_sources_inverse",
    "Nix.C13.source_referring_inverse",
    "Nix.C13.referring_once",
    # the same about the shape of the code as harness/extract/findshape.py reads it (Generated/FindShape.lean)
    "Nix.C13.find_methods",
    "Nix.C13.find_code",
    "Nix.C13.find_mem_once_code",
    "Nix.C13.find_related_code",
    "Nix.C13.parent_code",
    "Nix.C13.parent_source_code",
    "Nix.C13.referring_code",
    "Nix.C13.referring_objects_code",
    "Nix.C13.source_referring_code",
    # ids as texts (caller-supplied ids in any spelling): the look-up chain as harness/extract/c13_idlookup.py reads it
    "Nix.C13.id_lookup_code",
    "Nix.C13.parent_ids_code",
    "Nix.C13.parent_supplied_code",
    "Nix.C13.parent_history_code",
    "Nix.C13.parent_source_ids_code",
    "Nix.C13.referring_ids_match",
    "Nix.C13.referring_ids_code",
    "Nix.C13.find_related_ids_code",
]
ASSUMPTIONS = [
    "entities are identified by a key (creation counter) standing for the uuid; uuid4 freshness is assumed; ids "
    "supplied by the caller (create_section(oid=...), any spelling uuid.UUID reads) are pairwise different UUID values "
    "(two spellings of one UUID, or a supplied id equal to an existing one, are outside: duplicate ids, C20/C04)",
    "depth limits are naturals (a negative limit is outside the documented meaning and outside the model)",
    "limit=None is sys.maxsize = 2^63-1; 'unlimited => whole subtree' carries the hypothesis height <= maxsize",
    "names are non-empty, '/'-free and not UUID-like; types non-empty (name rules and name/id dispatch belong to C03)",
    "copies: only id-renewing section copies (copy_section(keep_id=False), deep or shallow, also into the own subtree) "
    "through re-fetched handles; same-id copies and copies through link-reached handles belong to C20/C04; the builtin "
    "NameError of a refused copy is reported as DuplicateName; handles of deleted entities are not queried",
    "children of a container iterate in HDF5 creation order (the oracle reads the creation-order index directly)",
]
TRUSTED_EXTRA = ["harness/extract/findshape.py renders the shape of util/find.py (_find_sections/_find_sources), the four "
                 "find_* wrappers, Section.find_related / parent, Source.parent_source / _find_parent_recursive / "
                 "parent_block and every referring_* property as constants (Generated/FindShape.lean); everything it "
                 "does not parameterise is matched literally (ExtractError otherwise)",
                 "harness/extract/c13_idlookup.py renders what H5Group.get_by_id compares the stored entity_id with and what "
                 "Section.create_new stores for a supplied oid (Generated/IdLookup.lean); Container.__contains__, "
                 "H5Group.__contains__, Entity.id / __eq__, util.is_uuid are matched literally; lean/NixModel/Pure/TreeIds.lean "
                 "interprets it (its str(uuid.UUID(text)) is pinned against CPython by the correspondence)",
                 "lean/NixModel/Pure/TreeShape.lean (interpreter of those constants, run by the driver) and the "
                 "hand-written forest model lean/NixModel/Pure/Tree.lean, tied to the code by differential histories"]


def extract(repo):
    out = dict(_ex.extract(repo))
    out.update(_ex_ids.extract(repo))
    return out

HKINDS = ["group", "data_array", "tag", "multi_tag"]
HCONT = {"group": "groups", "data_array": "data_arrays", "tag": "tags", "multi_tag": "multi_tags"}
NAMES = ["a", "b", "c", "x"]
WIDE_NAMES = NAMES + ["d", "e", "f", "g", "h", "i", "j", "k"]   # some histories: wide trees
TYPES = ["t1", "t2"]
POSNAME = "__pos__"
P_OID = [0.0, 0.0, 0.1, 0.5, 0.9]     # per history: share of sections created with a caller-supplied id
QUERY_OPS = ("find", "find_related", "parent", "parent_source", "parent_block", "referring", "canon")


def _errname(e):
    import nixio.exceptions as X
    if isinstance(e, X.DuplicateName):
        return "DuplicateName"
    if isinstance(e, NameError):
        # copy_section refuses an existing name at the destination with the builtin NameError; C13 is not about
        # the class of that refusal: reported under the model's duplicateName
        return "DuplicateName"
    for cls, nm in ((KeyError, "KeyError"), (IndexError, "IndexError"), (RuntimeError, "RuntimeError"),
                    (ValueError, "ValueError"), (TypeError, "TypeError"), (AttributeError, "AttributeError")):
        if isinstance(e, cls):
            return nm
    return type(e).__name__


class Dead(Exception):
    """the key does not denote a live entity of the required kind (protocol-level KeyError)"""


def make_filter(spec):
    k = spec[0]
    if k == "all":
        return lambda x: True
    if k == "none":
        return lambda x: False
    if k == "name":
        return lambda x: x.name == spec[1]
    if k == "type":
        return lambda x: x.type == spec[1]
    if k == "not_name":
        return lambda x: x.name != spec[1]
    if k == "name_or_type":
        return lambda x: x.name == spec[1] or x.type == spec[2]
    if k == "name_and_type":
        return lambda x: x.name == spec[1] and x.type == spec[2]
    raise ValueError("filter")


def raw_filter(spec):
    """the same filters on (name, type) pairs read straight from HDF5 attributes (oracle)"""
    k = spec[0]
    if k == "all":
        return lambda n, t: True
    if k == "none":
        return lambda n, t: False
    if k == "name":
        return lambda n, t: n == spec[1]
    if k == "type":
        return lambda n, t: t == spec[1]
    if k == "not_name":
        return lambda n, t: n != spec[1]
    if k == "name_or_type":
        return lambda n, t: n == spec[1] or t == spec[2]
    if k == "name_and_type":
        return lambda n, t: n == spec[1] and t == spec[2]
    raise ValueError("filter")


# ---------------------------------------------------------------------------------------
# the implementation side: a history executed on a real NIX file through the public API


class Impl:
    def __init__(self, path):
        import nixio
        self.nixio = nixio
        self.path = path
        if os.path.exists(path):
            os.remove(path)
        self.f = nixio.File.open(path, nixio.FileMode.Overwrite)
        self.reg = {}        # key -> {"kind", "hkind", "path", "id"}
        self.cached = {}     # key -> handle returned by Section.create_section / File.create_section
        self.id2key = {}
        self.next = 0
        self.ncopies = 0
        self.nimports = 0
        self.names = NAMES
        self.p_oid = 0.0     # share of create_section calls that supply the id (set per history by the generators)

    def close(self):
        try:
            self.f.close()
        except Exception:
            pass

    # -- navigation (always fresh handles, by iterating containers and comparing names) -----
    @staticmethod
    def _child(container, name):
        for x in container:
            if x.name == name:
                return x
        return None

    def _nav(self, ent):
        kind, path = ent["kind"], ent["path"]
        if kind == "section":
            cur = self._child(self.f.sections, path[0])
            for nm in path[1:]:
                if cur is None:
                    return None
                cur = self._child(cur.sections, nm)
            return cur
        blk = self._child(self.f.blocks, path[0])
        if blk is None or kind == "block":
            return blk
        if kind == "source":
            cur = self._child(blk.sources, path[1])
            for nm in path[2:]:
                if cur is None:
                    return None
                cur = self._child(cur.sources, nm)
            return cur
        return self._child(getattr(blk, HCONT[ent["hkind"]]), path[1])

    def get(self, key, kinds):
        ent = self.reg.get(key)
        if ent is None or ent["kind"] not in kinds:
            raise Dead()
        h = self._nav(ent)
        if h is None or h.id != ent["id"]:
            raise Dead()
        return ent, h

    def via(self, key, kinds, via):
        """the handle the description `via` reaches: "fresh" (containers, by name), "cached" (returned by
        create_section), "found" (element of a find_* result), ["md", e] (e.metadata), ["link", h] (element of
        h.sources)"""
        ent, h = self.get(key, kinds)
        if via == "fresh":
            return ent, h
        if via == "cached":
            return ent, self.cached.get(key, h)
        if via == "found":
            if ent["kind"] == "section":
                res = self.f.find_sections()
            elif ent["kind"] == "source":
                res = self._child(self.f.blocks, ent["path"][0]).find_sources()
            else:
                raise Dead()
            for x in res:
                if x.id == ent["id"]:
                    return ent, x
            raise Dead()
        if via[0] == "md":
            try:
                _, e = self.get(via[1], ("block", "holder", "source"))
            except Dead:
                raise Dead()
            m = e.metadata
            if m is None or m.id != ent["id"] or ent["kind"] != "section":
                raise Dead()
            return ent, m
        if via[0] == "link":
            _, hold = self.get(via[1], ("holder",))
            for x in hold.sources:
                if x.id == ent["id"]:
                    return ent, x
            raise Dead()
        raise ValueError("via")

    def _register(self, kind, path, handle, hkind=None):
        k = self.next
        self.next += 1
        self.reg[k] = {"kind": kind, "hkind": hkind, "path": path, "id": handle.id}
        self.id2key[handle.id] = k
        return k

    def _sweep(self):
        for k in list(self.reg):
            ent = self.reg[k]
            h = self._nav(ent)
            if h is None or h.id != ent["id"]:
                del self.reg[k]
                self.cached.pop(k, None)

    def _keys(self, ents):
        return [self.id2key.get(e.id, "?") for e in ents]

    def _key(self, e):
        return None if e is None else self.id2key.get(e.id, "?")

    # -- one protocol line -----------------------------------------------------------------
    def do(self, line):
        try:
            return {"ok": self._do(line)}
        except Dead:
            return {"err": "KeyError"}
        except Exception as e:  # canonicalise by class
            return {"err": _errname(e)}

    def _do(self, line):
        op = line[0]
        f = self.f
        if op == "create_block":
            b = f.create_block(line[1], line[2])
            return self._register("block", [line[1]], b)
        if op == "create_section":
            # optional 5th element: the id the caller supplies (`oid=`), any text (stored as given when
            # util.is_uuid accepts it, otherwise the library makes an id)
            kw = {"oid": line[4]} if len(line) > 4 else {}
            if kw and isinstance(kw["oid"], list):
                import uuid
                kw["oid"] = uuid.UUID(kw["oid"][1])        # ["uuid", text]: the id as a uuid.UUID object
            if line[1] is None:
                s = f.create_section(line[2], line[3], **kw)
                k = self._register("section", [line[2]], s)
            else:
                ent, p = self.get(line[1], ("section",))
                s = p.create_section(line[2], line[3], **kw)
                k = self._register("section", ent["path"] + [line[2]], s)
            self.cached[k] = s
            return k
        if op == "create_source":
            ent, p = self.get(line[1], ("block", "source"))
            s = p.create_source(line[2], line[3])
            return self._register("source", ent["path"] + [line[2]], s)
        if op == "create_holder":
            ent, b = self.get(line[1], ("block",))
            hk, name, typ = line[2], line[3], line[4]
            if hk == "group":
                h = b.create_group(name, typ)
            elif hk == "data_array":
                h = b.create_data_array(name, typ, data=[0.0])
            elif hk == "tag":
                h = b.create_tag(name, typ, [0.0])
            else:
                if self._child(b.multi_tags, name) is not None:
                    raise self.nixio.exceptions.DuplicateName("create_multi_tag")
                pos = self._child(b.data_arrays, POSNAME)
                if pos is None:
                    pos = b.create_data_array(POSNAME, "hidden", data=[0.0])
                h = b.create_multi_tag(name, typ, positions=pos)
            return self._register("holder", ent["path"] + [name], h, hkind=hk)
        if op == "set_metadata":
            _, s = self.get(line[2], ("section",))
            _, e = self.get(line[1], ("block", "holder", "source"))
            e.metadata = s
            return None
        if op == "del_metadata":
            _, e = self.get(line[1], ("block", "holder", "source"))
            del e.metadata
            return None
        if op in ("link_source", "unlink_source"):
            _, h = self.get(line[1], ("holder",))
            _, s = self.get(line[2], ("source",))
            if op == "link_source":
                h.sources.append(s)
            else:
                del h.sources[s]
            return None
        if op == "delete":
            ent, h = self.get(line[1], ("section", "source", "holder", "block"))
            kind, path = ent["kind"], ent["path"]
            if kind == "block":
                del f.blocks[h]
            elif kind == "holder":
                b = self._child(f.blocks, path[0])
                del getattr(b, HCONT[ent["hkind"]])[h]
            elif kind == "section":
                if len(path) == 1:
                    del f.sections[h]
                else:
                    par = self._nav({"kind": "section", "path": path[:-1]})
                    del par.sections[h]
            else:
                par = self._nav({"kind": "source" if len(path) > 2 else "block", "path": path[:-1]})
                del par.sources[h]
            self._sweep()
            return None
        if op == "copy_section":
            # id-renewing copy through re-fetched handles; the copy of the entity with key k gets key k + N,
            # N = the id supply before the call, which then doubles (see Pure/Tree.lean, copyNode)
            sent, src = self.get(line[1], ("section",))
            if line[2] is None:
                dpath, dest = [], f
            else:
                dent, dest = self.get(line[2], ("section",))
                dpath = dent["path"]
            before = [(k, dict(e)) for k, e in self.reg.items() if e["kind"] == "section"]
            cp = dest.copy_section(src, children=bool(line[4]), keep_id=False, name=line[3])
            nm = line[3] or sent["path"][-1]
            n0 = self.next
            sp = sent["path"]
            for k, e in before:
                if e["path"][:len(sp)] != sp or (not line[4] and len(e["path"]) != len(sp)):
                    continue
                npath = dpath + [nm] + e["path"][len(sp):]
                h = self._nav({"kind": "section", "path": npath})
                self.reg[k + n0] = {"kind": "section", "hkind": None, "path": npath, "id": h.id}
                self.id2key[h.id] = k + n0
            self.next = 2 * n0
            self.ncopies += 1
            return line[1] + n0
        if op == "import_section":
            # a tree built in another file (ids supplied by the caller or made by the library there) is copied in
            # with its ids kept: dest.copy_section(top, children=True, keep_id=True); keys in preorder
            if line[1] is None:
                dpath, dest = [], f
            else:
                dent, dest = self.get(line[1], ("section",))
                dpath = dent["path"]
            other = self.path + ".imp"
            if os.path.exists(other):
                os.remove(other)
            g = self.nixio.File.open(other, self.nixio.FileMode.Overwrite)
            try:
                def build(par, node):
                    kw = {} if node[2] is None else {"oid": node[2]}
                    sec = par.create_section(node[0], node[1], **kw)
                    for kid in node[3]:
                        build(sec, kid)
                    return sec
                top = build(g, line[2])
                dest.copy_section(top, children=True, keep_id=True)
            finally:
                g.close()
                os.remove(other)
            first = self.next

            def reg(node, path):
                h = self._nav({"kind": "section", "path": path})
                self._register("section", path, h)
                for kid in node[3]:
                    reg(kid, path + [kid[0]])
            reg(line[2], dpath + [line[2][0]])
            self.nimports += 1
            return first
        if op == "copy_block":
            # oracle scenes only (not part of the modelled history language): an id-keeping copy of a block inside
            # its own file, File.create_block(name=..., copy_from=block) with keep_copy_id left at its default; the
            # copy of the entity with key k gets the next free key, in the order of the keys
            sent, src = self.get(line[1], ("block",))
            f.create_block(name=line[2], copy_from=src)
            old, first = sent["path"][0], self.next
            for k in sorted(self.reg):
                e = self.reg[k]
                if k < first and e["kind"] != "section" and e["path"][0] == old:
                    self.reg[self.next] = {"kind": e["kind"], "hkind": e["hkind"], "path": [line[2]] + e["path"][1:],
                                           "id": e["id"]}
                    self.next += 1
            self.nblockcopies = getattr(self, "nblockcopies", 0) + 1
            return first
        if op == "reopen":
            f.close()
            self.cached = {}
            self.f = self.nixio.File.open(self.path, self.nixio.FileMode.ReadWrite)
            return None
        if op == "canon":
            # the canonical text of an id, CPython's own (pins `canonText?` of Pure/TreeIds.lean)
            import uuid
            return str(uuid.UUID(line[1]))
        # ---- queries ----
        if op == "set_link":
            _, s = self.get(line[1], ("section",))
            if line[2] is None:
                s.link = None
            else:
                _, t = self.get(line[2], ("section",))
                s.link = t
            return None
        if op == "find":
            root, filt, limit = line[1], make_filter(line[2]), line[3]
            if root == "file":
                return self._keys(f.find_sections(filtr=filt, limit=limit))
            ent, h = self.via(root, ("section", "source", "block"), line[4] if len(line) > 4 else "fresh")
            if ent["kind"] == "section":
                return self._keys(h.find_sections(filtr=filt, limit=limit))
            return self._keys(h.find_sources(filtr=filt, limit=limit))
        if op == "find_related":
            ent, h = self.via(line[1], ("section",), line[2])
            return self._keys(h.find_related(filtr=make_filter(line[3])))
        if op == "parent":
            ent, h = self.via(line[1], ("section",), line[2])
            return self._key(h.parent)
        if op in ("parent_source", "parent_block"):
            ent, h = self.via(line[1], ("source",), line[2])
            return self._key(h.parent_source if op == "parent_source" else h.parent_block)
        if op == "referring":
            ent, h = self.via(line[1], ("section", "source"), line[3] if len(line) > 3 else "fresh")
            what = line[2]
            return self._keys(getattr(h, "referring_" + what))
        raise ValueError("unknown op")


# ---------------------------------------------------------------------------------------
# history generator (adaptive: consults the implementation-side registry for live keys)


def _depth_of(impl, key):
    ent = impl.reg[key]
    return len(ent["path"]) - (1 if ent["kind"] == "section" else 2)


def _rand_filter(rng):
    r = rng.random()
    if r < 0.35:
        return ["all"]
    if r < 0.6:
        return ["name", rng.choice(NAMES)]
    if r < 0.72:
        return ["type", rng.choice(TYPES)]
    if r < 0.8:
        return ["not_name", rng.choice(NAMES)]
    if r < 0.88:
        return ["name_or_type", rng.choice(NAMES), rng.choice(TYPES)]
    if r < 0.96:
        return ["name_and_type", rng.choice(NAMES), rng.choice(TYPES)]
    return ["none"]


SPELLINGS = ("lower", "upper", "braces", "urn", "hex", "upper_braces", "urn_upper", "mixed", "upper_hex",
             "braces_hex")


def spell_uuid(rng, how=None):
    """a fresh RFC 4122 id in one of the spellings uuid.UUID (hence util.is_uuid) reads; the value is random
    (128 bits from the run's generator), so ids never repeat - also not in another spelling"""
    import uuid
    u = str(uuid.UUID(int=rng.getrandbits(128), version=4))
    how = how or rng.choice(SPELLINGS)
    if how == "lower":
        return u
    if how == "upper":
        return u.upper()
    if how == "braces":
        return "{" + u + "}"
    if how == "urn":
        return "urn:uuid:" + u
    if how == "hex":
        return u.replace("-", "")
    if how == "upper_braces":
        return "{" + u.upper() + "}"
    if how == "urn_upper":
        return "urn:uuid:" + u.upper()
    if how == "upper_hex":
        return u.replace("-", "").upper()
    if how == "braces_hex":
        return "{" + u.replace("-", "") + "}"
    return "".join(c.upper() if rng.random() < 0.5 else c for c in u)     # mixed case


def oid_kind(o):
    """spelling class of a supplied id (for the distribution report)"""
    if isinstance(o, list):
        return "uuid-object"
    if not is_uuid_text(o):
        return "no-id"
    k = []
    if o.startswith("urn:"):
        k.append("urn")
    if "{" in o:
        k.append("braces")
    if "-" not in o.replace("urn:uuid:", ""):
        k.append("hex")
    if o != o.lower() and o.replace("urn:uuid:", "") == o.replace("urn:uuid:", "").upper():
        k.append("upper")
    elif o != o.lower():
        k.append("mixed")
    return "+".join(k) or "canonical"


def is_uuid_text(t):
    import uuid
    try:
        uuid.UUID(t)
        return True
    except ValueError:
        return False


def gen_canon_lines(rng, n):
    """`["canon", text]` lines: spellings uuid.UUID reads (and near misses)"""
    import uuid
    out = []
    for _ in range(n):
        r = rng.random()
        if r < 0.4:
            t = spell_uuid(rng)
        else:
            h = "%032x" % rng.getrandbits(rng.choice([128, 128, 100, 64, 8]))
            if rng.random() < 0.5:
                h = "".join(c.upper() if rng.random() < 0.5 else c for c in h)
            k = rng.random()
            if k < 0.15:
                pre = rng.choice(["0x", "0X", "+", " ", "\t", "0x_", "-", " +0x"])
                h = pre + h[len(pre):]
            elif k < 0.3:
                i = rng.randrange(1, 30)
                h = h[:i] + "_" + h[i + 1:]
            elif k < 0.4:
                h = h[:31] + rng.choice([" ", "\n", "g", "_", "x"])
            elif k < 0.5:
                d = rng.choice(["\u0660", "\u0966", "\uff10", "\U0001d7ce"])
                i = rng.randrange(0, 32)
                h = h[:i] + chr(ord(d) + rng.randrange(10)) + h[i + 1:]
            elif k < 0.6:
                h = h[:rng.choice([30, 31])] if rng.random() < 0.5 else h + rng.choice(["0", "00", "ab"])
            # hyphens anywhere, braces and prefixes in any number
            for _j in range(rng.choice([0, 0, 1, 4, 6])):
                i = rng.randrange(0, len(h) + 1)
                h = h[:i] + "-" + h[i:]
            if rng.random() < 0.3:
                h = rng.choice(["{", "{{", "}{", ""]) + h + rng.choice(["}", "}}", ""])
            if rng.random() < 0.3:
                h = rng.choice(["urn:uuid:", "urn:", "uuid:", "URN:UUID:", "urn:uuid:urn:"]) + h
            t = h
        out.append(["canon", t])
    return out


def gen_op(impl, rng, phase):
    """one protocol line, mostly valid in the current implementation state"""
    for _ in range(8):
        line = _gen_op(impl, rng, phase)
        # re-draw most lines whose key arguments cannot be live (keeps the malformed share small)
        keys = [x for x in line[1:3] if isinstance(x, int)]
        for x in line[2:]:
            if isinstance(x, list) and x and x[0] in ("md", "link"):
                keys.append(x[1])
        if all(k in impl.reg for k in keys) or rng.random() < 0.25:
            return line
    return line


def _gen_op(impl, rng, phase):
    reg = impl.reg
    NAMES = impl.names
    by = {"section": [], "source": [], "block": [], "holder": []}
    for k, e in reg.items():
        by[e["kind"]].append(k)
    live = list(reg)

    def some(kind, bad=0.04):
        if rng.random() < bad or not by[kind]:
            if rng.random() < 0.5 and live:
                return rng.choice(live)             # maybe wrong kind
            return rng.randint(0, impl.next + 1)    # maybe dead / never created
        return rng.choice(by[kind])

    def maxdepth(kind):
        return max([_depth_of(impl, k) for k in by[kind]] or [0])

    r = rng.random()
    if phase == "build":
        r *= 0.62
        if not by["block"] and rng.random() < 0.5:
            return ["create_block", rng.choice(NAMES), rng.choice(TYPES)]
    # ---- state changes -------------------------------------------------------------------
    if r < 0.16:
        par = None if (rng.random() < 0.3 or not by["section"]) else some("section")
        if par is not None and rng.random() < 0.5:
            par = max(by["section"] or [par], key=lambda k: (_depth_of(impl, k), rng.random()))  # go deep
        line = ["create_section", par, rng.choice(NAMES), rng.choice(TYPES)]
        # ids supplied by the caller (a tree imported from another system): every spelling uuid.UUID reads;
        # now and then a text that is no id at all (the library then makes one itself)
        if rng.random() < impl.p_oid:
            line.append(spell_uuid(rng) if rng.random() < 0.95 else rng.choice(["", "not-an-id", "1234", "g" * 32]))
            if rng.random() < 0.1 and is_uuid_text(line[4]):
                line[4] = ["uuid", line[4]]              # handed over as uuid.UUID object
        return line
    if r < 0.20:
        if len(by["block"]) >= 3 and rng.random() < 0.8:
            return ["create_source", some("block"), rng.choice(NAMES), rng.choice(TYPES)]
        return ["create_block", rng.choice(NAMES), rng.choice(TYPES)]
    if r < 0.33:
        pool = by["source"] + by["block"]
        par = rng.choice(pool) if pool and rng.random() > 0.04 else some("block")
        return ["create_source", par, rng.choice(NAMES), rng.choice(TYPES)]
    if r < 0.41:
        return ["create_holder", some("block"), rng.choice(HKINDS), rng.choice(NAMES), rng.choice(TYPES)]
    if r < 0.50:
        pool = by["block"] + by["holder"] + by["source"]
        e = rng.choice(pool) if pool and rng.random() > 0.04 else some("holder")
        return ["set_metadata", e, some("section")]
    if r < 0.52:
        pool = by["block"] + by["holder"] + by["source"]
        e = rng.choice(pool) if pool and rng.random() > 0.04 else some("holder")
        return ["del_metadata", e]
    if r < 0.60:
        h = some("holder")
        s = some("source")
        if h in reg and reg[h]["kind"] == "holder" and rng.random() < 0.85:
            same = [k for k in by["source"] if reg[k]["path"][0] == reg[h]["path"][0]]
            if same:
                s = rng.choice(same)
        return ["link_source", h, s]
    if r < 0.62:
        return ["unlink_source", some("holder"), some("source")]
    if r < 0.655:
        return ["delete", rng.choice(live) if live and rng.random() > 0.1 else rng.randint(0, impl.next + 1)]
    if r < 0.67:
        return ["reopen"]
    if r < 0.685:
        return ["set_link", some("section"), None if rng.random() < 0.2 else some("section")]
    if r < 0.70 and impl.ncopies < 4 and by["section"]:
        dest = None if rng.random() < 0.3 else some("section")
        return ["copy_section", some("section"), dest, "" if rng.random() < 0.6 else rng.choice(NAMES),
                rng.random() < 0.75]
    if r < 0.71 and impl.nimports < 3:
        def tree(depth):
            kids = []
            if depth < 3:
                for nm in rng.sample(NAMES[:4], rng.choice([0, 0, 1, 1, 2, 3])):
                    kid = tree(depth + 1)
                    kid[0] = nm
                    kids.append(kid)
            return [rng.choice(NAMES), rng.choice(TYPES), spell_uuid(rng) if rng.random() < 0.8 else None, kids]
        dest = None if rng.random() < 0.35 else some("section")
        return ["import_section", dest, tree(1)]
    # ---- queries -------------------------------------------------------------------------
    def sec_via(k, p_cached=0.2, p_md=0.3, p_found=0.15):
        """a handle description for the section k: re-fetched, cached, found, or through a metadata link"""
        c = rng.random()
        if c < p_cached:
            return "cached"
        if c < p_cached + p_found:
            return "found"
        if c < p_cached + p_found + p_md:
            refs = []
            if k in reg and reg[k]["kind"] == "section":
                try:
                    _, h = impl.get(k, ("section",))
                    refs = [x for x in impl._keys(h.referring_objects) if x != "?"]
                except Exception:
                    refs = []
            pool = by["block"] + by["holder"] + by["source"]
            if refs and rng.random() < 0.9:
                return ["md", rng.choice(refs)]
            if pool:
                return ["md", rng.choice(pool)]
        return "fresh"

    def src_via(k, p_link=0.4, p_found=0.15):
        c = rng.random()
        if c < p_found:
            return "found"
        if c < p_found + p_link and by["holder"]:
            hs = []
            if k in reg and reg[k]["kind"] == "source":
                for hk in by["holder"]:
                    try:
                        _, hh = impl.get(hk, ("holder",))
                        if any(s.id == reg[k]["id"] for s in hh.sources):
                            hs.append(hk)
                    except Exception:
                        pass
            return ["link", rng.choice(hs) if hs and rng.random() < 0.9 else rng.choice(by["holder"])]
        return "fresh"

    q = rng.random()
    if q < 0.05:
        k = some("section")
        if by["section"] and rng.random() < 0.6:   # prefer sections that have a parent and siblings
            k = max(by["section"], key=lambda x: (min(_depth_of(impl, x), 1), rng.random()))
        return ["find_related", k, sec_via(k, p_found=0.1), _rand_filter(rng)]
    if q < 0.36:
        c = rng.random()
        if c < 0.25:
            root, md = "file", maxdepth("section") + 1
        elif c < 0.45:
            root, md = some("block"), maxdepth("source") + 1
        elif c < 0.75:
            root, md = some("section"), maxdepth("section")
        else:
            root, md = some("source"), maxdepth("source")
        limit = None if rng.random() < 0.2 else rng.randint(0, md + 1)
        if rng.random() < 0.03:
            limit = rng.choice([10 ** 6, 2 ** 63 - 1, 2 ** 63])
        line = ["find", root, _rand_filter(rng), limit]
        if root != "file" and root in reg and rng.random() < 0.35:
            kind = reg[root]["kind"]
            if kind == "section":
                line.append(sec_via(root))
            elif kind == "source":
                line.append(src_via(root))
        return line
    if q < 0.56:
        k = some("section")
        return ["parent", k, sec_via(k, 0.25, 0.3, 0.1)]
    if q < 0.78:
        k = some("source")
        return [rng.choice(["parent_source", "parent_source", "parent_block"]), k, src_via(k)]
    if rng.random() < 0.6:
        k = some("section")
        line = ["referring", k,
                rng.choice(["blocks", "groups", "data_arrays", "tags", "multi_tags", "sources", "sources", "objects"])]
        if rng.random() < 0.3:
            line.append(sec_via(k))
        return line
    k = some("source")
    line = ["referring", k, rng.choice(["groups", "data_arrays", "tags", "multi_tags", "objects"])]
    if rng.random() < 0.3:
        line.append(src_via(k))
    return line


def gen_history(ctx, path, nbuild, nmixed, on_state=None):
    """build a history while running it on the implementation; returns (lines, impl outputs)"""
    rng = ctx.rng
    impl = Impl(path)
    if rng.random() < 0.3:
        impl.names = WIDE_NAMES
    impl.p_oid = rng.choice(P_OID)
    lines, outs = [], []
    try:
        for i in range(nbuild + nmixed):
            line = gen_op(impl, rng, "build" if i < nbuild else "mixed")
            out = impl.do(line)
            lines.append(line)
            outs.append(out)
            if on_state is not None and line[0] not in QUERY_OPS:
                on_state(impl, lines)
    finally:
        impl.close()
    return lines, outs


def run_history(path, lines):
    impl = Impl(path)
    try:
        return [impl.do(l) for l in lines]
    finally:
        impl.close()


def run_model(histories):
    flat = []
    for h in histories:
        flat.append(["reset"])
        flat.extend(h)
    out = core.run_driver(PROP, flat)
    res, i = [], 0
    for h in histories:
        res.append(out[i + 1:i + 1 + len(h)])
        i += 1 + len(h)
    return res


def first_diff(model, impl):
    for i, (m, x) in enumerate(zip(model, impl)):
        if m != x:
            return i
    return None


def shrink(ctx, lines, idx):
    """drop the queries before the differing line, then state ops one at a time (keys are creation
    counters, so a create is only dropped when nothing after it succeeds in creating)"""
    cand = [l for l in lines[:idx] if l[0] not in QUERY_OPS] + [lines[idx]]
    path = ctx.tmpfile("c13-shrink.nix")

    def differs(h):
        try:
            m = run_model([h])[0]
            x = run_history(path, h)
        except Exception:
            return False
        return m[-1] != x[-1] and first_diff(m, x) == len(h) - 1
    if not differs(cand):
        return lines[:idx + 1]
    i = len(cand) - 2
    rounds = 0
    while i >= 0 and rounds < 60:
        op = cand[i][0]
        if not op.startswith("create") and op not in ("copy_section", "import_section"):
            t = cand[:i] + cand[i + 1:]
            rounds += 1
            if differs(t):
                cand = t
        i -= 1
    return cand


def _nontrivial(line, out):
    if "err" in out:
        return True
    v = out.get("ok")
    op = line[0]
    if op == "find":
        return bool(v) and (line[3] is not None or line[2] != ["all"])
    if op in ("parent", "parent_source"):
        return v is not None
    if op in ("referring", "find_related"):
        return bool(v)
    if op == "canon":
        return v != line[1]
    return op in ("delete", "reopen", "unlink_source", "del_metadata", "parent_block", "copy_section", "import_section")


def correspondence(ctx):
    corpus = core.load_corpus(PROP)
    histories, impl_outs = [], []
    dist = {"ops": {}, "impl_errors": {}, "history_len": {}, "max_depth": {}, "entities": {}}
    path = ctx.tmpfile("c13-corr.nix")
    for h in corpus:
        histories.append(h)
        impl_outs.append(run_history(path, h))
    n_hist = ctx.budget(160, 1500)
    for i in range(n_hist):
        nb = ctx.rng.choice([8, 14, 22, 30])
        nm = ctx.rng.choice([15, 30, 50])
        stats = {}

        def on_state(impl, lines, stats=stats):
            d = 0
            for k in impl.reg:
                d = max(d, _depth_of(impl, k))
            stats["depth"] = max(stats.get("depth", 0), d)
            stats["n"] = max(stats.get("n", 0), len(impl.reg))
        lines, outs = gen_history(ctx, path, nb, nm, on_state)
        histories.append(lines)
        impl_outs.append(outs)
        b = "%d" % (10 * ((nb + nm) // 10))
        dist["history_len"][b] = dist["history_len"].get(b, 0) + 1
        dist["max_depth"][str(stats.get("depth", 0))] = dist["max_depth"].get(str(stats.get("depth", 0)), 0) + 1
        nb_ = "%d" % (10 * (stats.get("n", 0) // 10))
        dist["entities"][nb_] = dist["entities"].get(nb_, 0) + 1
    canon = gen_canon_lines(ctx.rng, ctx.budget(400, 4000))
    histories.append(canon)
    impl_outs.append(run_history(path, canon))
    model_outs = run_model(histories)
    disagreements = []
    seen = set()
    evaluations = 0
    for h, m, x in zip(histories, model_outs, impl_outs):
        evaluations += len(h)
        state_ops = []
        for line, xo in zip(h, x):
            op = line[0]
            key = op if op != "find" else "find/%s/%s" % (
                "file" if line[1] == "file" else "key", "none" if line[3] is None else "lim")
            if op in ("parent", "parent_source", "parent_block", "find_related"):
                key = "%s/%s" % (op, line[2] if isinstance(line[2], str) else line[2][0])
            if op == "create_section" and len(line) > 4:
                key = "create_section/oid-%s" % oid_kind(line[4])
            if op == "find" and len(line) > 4:
                key += "/via-%s" % (line[4] if isinstance(line[4], str) else line[4][0])
            if op == "referring" and len(line) > 3:
                key = "referring/via-%s" % (line[3] if isinstance(line[3], str) else line[3][0])
            dist["ops"][key] = dist["ops"].get(key, 0) + 1
            if "err" in xo:
                ek = "%s:%s" % (op, xo["err"])
                dist["impl_errors"][ek] = dist["impl_errors"].get(ek, 0) + 1
            if op in QUERY_OPS:
                if _nontrivial(line, xo):
                    seen.add(core.canon([state_ops, line]))
            else:
                state_ops = state_ops + [line]
                if _nontrivial(line, xo):
                    seen.add(core.canon(state_ops))
        d = first_diff(m, x)
        if d is not None:
            small = shrink(ctx, h, d) if len(disagreements) < 3 else h[:d + 1]
            mm = run_model([small])[0][-1]
            xx = run_history(path, small)[-1]
            disagreements.append(Disagreement(small, mm, xx))
    disagreements.sort(key=lambda d: len(core.canon(d.case)))
    samples = []
    if histories:
        k = ctx.rng.randrange(len(histories))
        samples = [{"case": histories[k][:12], "model": model_outs[k][:12]}]
    return {"evaluations": evaluations, "distinct_nontrivial": len(seen),
            "rule": "histories of create/link/unlink/set/del metadata/delete/reopen/copy_section(keep_id=False, deep or "
                    "shallow, <= 4 per history)/Section.link operations interleaved with "
                    "find / find_related / parent / parent_source / parent_block / referring queries, generated adaptively against "
                    "the live file (per history 0 / 10 / 50 / 90 % of the sections created with a caller-supplied id in one of "
                    "10 spellings uuid.UUID reads, 5% of those texts no id at all; a stream of ['canon', text] lines pins "
                    "str(uuid.UUID(text)) of the model against CPython; names from a pool of 4 so that they repeat across subtrees and levels, 30% of the histories "
                    "with 12 names for wide trees, limits "
                    "0..depth+1 and None, 7 filter shapes, queries (all kinds) through cached, re-fetched, found (element of a "
                    "find_* result), metadata-link and source-link handles, ~4% "
                    "dead or wrong-kind keys); every line is compared model vs nixio. evaluations = protocol lines; "
                    "non-trivial = error outcome, non-empty find with a limit or a filter, non-None parent, non-empty "
                    "referring list, delete/reopen/unlink; distinct by (state-changing prefix, query)",
            "samples": samples, "distribution": dist, "disagreements": disagreements, "exhaustive": False}


# ---------------------------------------------------------------------------------------
# property oracle on the implementation: the stored structure is read with bare h5py
# (creation-order link index, attributes, hard links) and compared with what the API answers


def _crt_names(g):
    import h5py
    names = []
    if len(g) == 0:
        return names
    g.id.links.iterate(lambda n: names.append(n.decode() if isinstance(n, bytes) else n) or None,
                       idx_type=h5py.h5.INDEX_CRT_ORDER, order=h5py.h5.ITER_INC)
    return names


def _attr(g, name):
    v = g.attrs.get(name)
    if isinstance(v, bytes):
        v = v.decode()
    return v


def _raw_tree(g, sub):
    """[(id, name, type, md_id, children)] of the entities stored under h5 group g, creation order"""
    out = []
    for nm in _crt_names(g):
        c = g[nm]
        kids = _raw_tree(c[sub], sub) if sub in c else []
        md = _attr(c["metadata"], "entity_id") if "metadata" in c else None
        out.append({"id": _attr(c, "entity_id"), "name": _attr(c, "name"), "type": _attr(c, "type"),
                    "md": md, "children": kids, "h5": c.name})
    return out


def raw_structure(h5):
    """independent description of the stored structure"""
    st = {"sections": _raw_tree(h5["metadata"], "sections"), "blocks": []}
    data = h5["data"]
    for bn in _crt_names(data):
        bg = data[bn]
        blk = {"id": _attr(bg, "entity_id"), "h5": bg.name,
               "md": _attr(bg["metadata"], "entity_id") if "metadata" in bg else None,
               "sources": _raw_tree(bg["sources"], "sources") if "sources" in bg else [], "holders": []}
        for hk in HKINDS:
            cont = HCONT[hk]
            if cont not in bg:
                continue
            for hn in _crt_names(bg[cont]):
                hg = bg[cont][hn]
                srcs = []
                if "sources" in hg:
                    srcs = [_attr(hg["sources"][x], "entity_id") for x in hg["sources"]]
                blk["holders"].append({"id": _attr(hg, "entity_id"), "kind": hk,
                                       "md": _attr(hg["metadata"], "entity_id") if "metadata" in hg else None,
                                       "srcs": srcs})
        st["blocks"].append(blk)
    return st


def _levels(roots, count):
    """the first `count` levels below (and including) roots, breadth first; count None = all"""
    out = []
    cur = list(roots)
    i = 0
    while cur and (count is None or i < count):
        out.extend(cur)
        cur = [c for n in cur for c in n["children"]]
        i += 1
    return out


def _height(roots):
    h = 0
    cur = list(roots)
    while cur:
        h += 1
        cur = [c for n in cur for c in n["children"]]
    return h


def _all_nodes(roots, parent=None, acc=None):
    acc = [] if acc is None else acc
    for n in roots:
        acc.append((n, parent))
        _all_nodes(n["children"], n, acc)
    return acc


def _h5name(e):
    """the HDF5 path of the object behind an entity handle (ids may be shared by the blocks of one file: a block
    made by File.create_block(copy_from=...) keeps the ids of the original and of everything in it)"""
    try:
        return e._h5group.group.name
    except Exception:
        return None


def _in_block(x, rb):
    nm = _h5name(x)
    return x.id if nm is not None and nm.startswith(rb["h5"] + "/") else "%s at %s" % (x.id, nm)


ORACLE_FILTERS = [["all"], ["name", "a"], ["name", "b"], ["type", "t1"], ["name_and_type", "a", "t2"], ["not_name", "x"]]


def check_state(impl, history, failures, tag, full=True, rng=None):
    """compare every C13 observable of the current file with the raw structure; appends Failures"""
    f = impl.f
    st = raw_structure(f._h5file)
    n_eval = 0
    lim_f = len(failures) + 5

    def fail(what, query, observed, required, site):
        if len(failures) < lim_f:
            failures.append(Failure(what, {"history": history, "reopened": tag == "reopened", "query": query},
                                    observed, required, site))

    filters = ORACLE_FILTERS if full else [["all"], rng.choice(ORACLE_FILTERS[1:])]

    def node_filters():
        # searches started at an inner node: every limit, the plain filter and two of the others
        return filters if len(filters) <= 3 or rng is None else [filters[0]] + rng.sample(filters[1:], 2)

    def check_find(api_root, finder, roots, root_is_node, qroot, filters=filters):
        nonlocal n_eval
        h = _height(roots)
        for limit in list(range(0, h + 2)) + [None]:
            for fs in filters:
                count = None if limit is None else (limit + 1 if root_is_node else limit)
                rf = raw_filter(fs)
                want = [n["id"] for n in _levels(roots, count) if rf(n["name"], n["type"])]
                try:
                    got = [x.id for x in getattr(api_root, finder)(filtr=make_filter(fs), limit=limit)]
                except Exception as e:
                    got = "%s: %s" % (type(e).__name__, e)
                n_eval += 1
                if got != want:
                    fail("find result is not the breadth-first enumeration within the depth limit",
                         ["find", qroot, fs, limit], got, want, "util/find.py")

    # -- find from the file and from every section ---------------------------------------
    check_find(f, "find_sections", st["sections"], False, "file")
    handles = {}

    def walk_api(container, sub, raws):
        for h, r in zip(list(container), raws):
            handles[r["id"]] = h
            walk_api(getattr(h, sub), sub, r["children"])
    walk_api(f.sections, "sections", st["sections"])
    secs = _all_nodes(st["sections"])
    for n, par in secs:
        h = handles.get(n["id"])
        if h is None or h.id != n["id"]:
            fail("container iteration does not follow the stored creation order", ["iter", n["id"]], None, n["id"],
                 "container.py")
            continue
        if full or rng.random() < 0.3:
            check_find(h, "find_sections", [n], True, ["section", n["name"]], node_filters())
        # parent: re-fetched handle
        want = None if par is None else par["id"]
        n_eval += 1
        try:
            p = h.parent
            got = None if p is None else p.id
        except Exception as e:
            got = "%s: %s" % (type(e).__name__, e)
        if got != want:
            fail("Section.parent (re-fetched handle) is not the containing section", ["parent", n["id"], "fresh"],
                 got, want, "section.py:parent")
    # parent through cached create handles
    byid = {n["id"]: par for n, par in secs}
    for k, ch in list(impl.cached.items()):
        ent = impl.reg.get(k)
        if ent is None or ent["id"] not in byid:
            continue
        par = byid[ent["id"]]
        want = None if par is None else par["id"]
        n_eval += 1
        try:
            p = ch.parent
            got = None if p is None else p.id
        except Exception as e:
            got = "%s: %s" % (type(e).__name__, e)
        if got != want:
            fail("Section.parent (handle returned by create_section) is not the containing section",
                 ["parent", ent["id"], "cached"], got, want, "section.py:parent")

    # -- blocks ------------------------------------------------------------------------------
    inv = {}   # section id -> kind -> [referrer ids]

    def note(sec_id, kind, ent_id):
        if sec_id is not None:
            inv.setdefault(sec_id, {}).setdefault(kind, []).append(ent_id)
    api_blocks = list(f.blocks)
    if [b.id for b in api_blocks] != [b["id"] for b in st["blocks"]]:
        fail("blocks are not listed in stored order", ["iter", "blocks"], [b.id for b in api_blocks],
             [b["id"] for b in st["blocks"]], "file.py")
        return n_eval
    # ids shared between blocks (id-keeping block copies): then the objects are told apart by their HDF5 paths
    allids = [rb["id"] for rb in st["blocks"]] + [n["id"] for rb in st["blocks"] for n, _p in _all_nodes(rb["sources"])]
    shared = len(set(allids)) != len(allids)
    for b, rb in zip(api_blocks, st["blocks"]):
        note(rb["md"], "blocks", rb["id"])
        check_find(b, "find_sources", rb["sources"], False, ["block", rb["id"]])
        shandles = {}

        def walk_src(container, raws):
            for h, r in zip(list(container), raws):
                shandles[r["id"]] = h
                walk_src(h.sources, r["children"])
        walk_src(b.sources, rb["sources"])
        hold = {}
        for hk in HKINDS:
            for h in getattr(b, HCONT[hk]):
                hold[h.id] = h
        for rh in rb["holders"]:
            note(rh["md"], HCONT[rh["kind"]], rh["id"])
        for n, par in _all_nodes(rb["sources"]):
            note(n["md"], "sources", n["id"])
            h = shandles.get(n["id"])
            if h is None or h.id != n["id"]:
                fail("container iteration does not follow the stored creation order", ["iter", n["id"]], None,
                     n["id"], "container.py")
                continue
            if full or rng.random() < 0.3:
                check_find(h, "find_sources", [n], True, ["source", n["name"]], node_filters())
            cands = [("fresh", h)]
            for rh in rb["holders"]:
                if n["id"] in rh["srcs"] and rh["id"] in hold:
                    for s in hold[rh["id"]].sources:
                        if s.id == n["id"]:
                            cands.append((["link", rh["id"]], s))
            want = None if par is None else par["id"]
            qid = n["id"] if not shared else [n["id"], n["h5"]]
            for via, hh in cands:
                n_eval += 2
                want_s = want
                try:
                    p = hh.parent_source
                    got = None if p is None else p.id
                    if shared and p is not None and got == want and _h5name(p) != par["h5"]:
                        got, want_s = [got, _h5name(p)], [want, par["h5"]]
                except Exception as e:
                    got = "%s: %s" % (type(e).__name__, e)
                if got != want_s:
                    fail("Source.parent_source is not the containing source", ["parent_source", qid, via], got,
                         want_s, "source.py:parent_source")
                want_b = rb["id"]
                try:
                    pb = hh.parent_block
                    got = pb.id
                    if shared and got == want_b and _h5name(pb) != rb["h5"]:
                        got, want_b = [got, _h5name(pb)], [want_b, rb["h5"]]
                except Exception as e:
                    got = "%s: %s" % (type(e).__name__, e)
                if got != want_b:
                    fail("Source.parent_block is not the containing block", ["parent_block", qid, via], got,
                         want_b, "source.py:parent_block")
            # referring lists of the source = inverse of the stored `sources` links
            allref = []
            for hk in HKINDS:
                want_l = sorted(rh["id"] for rh in rb["holders"] if rh["kind"] == hk and n["id"] in rh["srcs"])
                allref += want_l
                n_eval += 1
                try:
                    got_l = sorted((_in_block(x, rb) if shared else x.id) for x in getattr(h, "referring_" + HCONT[hk]))
                except Exception as e:
                    got_l = "%s: %s" % (type(e).__name__, e)
                if got_l != want_l:
                    fail("Source.referring_%s is not the inverse of the stored source links" % HCONT[hk],
                         ["referring", qid, HCONT[hk]], got_l, want_l, "source.py:referring_" + HCONT[hk])
            n_eval += 1
            try:
                got_l = sorted((_in_block(x, rb) if shared else x.id) for x in h.referring_objects)
            except Exception as e:
                got_l = "%s: %s" % (type(e).__name__, e)
            if got_l != sorted(allref):
                fail("Source.referring_objects is not the inverse of the stored source links",
                     ["referring", qid, "objects"], got_l, sorted(allref), "source.py:referring_objects")
    # metadata handles reached through links: parent must still be the container
    for b, rb in zip(api_blocks, st["blocks"]):
        ents = [b] + [h for hk in HKINDS for h in getattr(b, HCONT[hk])] + b.find_sources()
        for e in ents:
            m = e.metadata
            if m is None:
                continue
            if m.id not in byid:
                fail("metadata link points to a section that is not in the metadata tree", ["metadata", e.id], m.id,
                     "a stored section", "h5group.py:delete_all")
                continue
            par = byid[m.id]
            want = None if par is None else par["id"]
            n_eval += 1
            try:
                p = m.parent
                got = None if p is None else p.id
            except Exception as ex:
                got = "%s: %s" % (type(ex).__name__, ex)
            if got != want:
                fail("Section.parent (handle reached through a metadata link) is not the containing section",
                     ["parent", m.id, ["md", e.id]], got, want, "section.py:parent")
    # -- referring lists of every section = inverse of the stored metadata links -------------
    for n, _par in secs:
        h = handles.get(n["id"])
        if h is None:
            continue
        total = []
        for kind in ("blocks", "groups", "data_arrays", "tags", "multi_tags", "sources"):
            want_l = sorted(inv.get(n["id"], {}).get(kind, []))
            total += want_l
            n_eval += 1
            try:
                got_l = sorted(x.id for x in getattr(h, "referring_" + kind))
            except Exception as e:
                got_l = "%s: %s" % (type(e).__name__, e)
            if got_l != want_l:
                fail("Section.referring_%s is not the inverse of the stored metadata links" % kind,
                     ["referring", n["id"], kind], got_l, want_l, "section.py:referring_" + kind)
        n_eval += 1
        try:
            got_l = sorted(x.id for x in h.referring_objects)
        except Exception as e:
            got_l = "%s: %s" % (type(e).__name__, e)
        if got_l != sorted(total):
            fail("Section.referring_objects is not the inverse of the stored metadata links",
                 ["referring", n["id"], "objects"], got_l, sorted(total), "section.py:referring_objects")
    return n_eval


def oracle_history(ctx, path, lines, failures, full=True, every_filter=False):
    """run the state-changing lines of a history, then check the final state before and after reopen"""
    state = [l for l in lines if l[0] not in QUERY_OPS]
    impl = Impl(path)
    n = 0
    try:
        for l in state:
            impl.do(l)
        rng = None if (every_filter and full) else ctx.rng
        n += check_state(impl, state, failures, "live", full, rng)
        impl.do(["reopen"])
        n += check_state(impl, state, failures, "reopened", full, rng)
    finally:
        impl.close()
    return n


# fixed cases: minimal inputs of the defects repaired by fix: commits (a regression is a VIOLATION again)
FIXED_CASES = [
    # parent by name: z/a/a re-fetched got z; a/a re-fetched got z
    [["create_section", None, "z", "t1"], ["create_section", None, "a", "t1"], ["create_section", 0, "a", "t1"],
     ["create_section", 2, "a", "t2"], ["create_section", 1, "a", "t1"], ["reopen"]],
    # parent_source of a nested source named like a top-level one; referring_sources of nested sources;
    # referring_groups of a source; find limit=0 from file and block
    [["create_section", None, "s", "t1"], ["create_block", "b", "t1"], ["create_source", 1, "x", "t1"],
     ["create_source", 2, "x", "t1"], ["create_source", 3, "y", "t2"], ["create_holder", 1, "data_array", "d", "t1"],
     ["create_holder", 1, "group", "g", "t1"], ["link_source", 5, 3], ["link_source", 6, 4], ["set_metadata", 3, 0],
     ["set_metadata", 4, 0], ["set_metadata", 5, 0]],
    # copies (ids renewed): z/a/a, z copied into its own subtree below z/a/a, z/a copied to the top under its own
    # name, shallow copy next to it; metadata links to an original and to a copy
    [["create_section", None, "z", "t1"], ["create_section", 0, "a", "t1"], ["create_section", 1, "a", "t2"],
     ["copy_section", 0, 2, "", True], ["copy_section", 1, None, "", True], ["copy_section", 3, None, "b", False],
     ["create_block", "b", "t1"], ["create_source", 24, "x", "t1"], ["set_metadata", 25, 4], ["set_metadata", 24, 1],
     ["set_link", 4, 1]],
    # id-keeping copies of a block inside its file (File.create_block(copy_from=...): the copy holds sources and
    # linking objects with the ids of the original), links diverge afterwards; the copy is named after / before the
    # original; a copy of the copy
    [["create_section", None, "s", "t1"], ["create_block", "b", "t1"], ["create_source", 1, "x", "t1"],
     ["create_source", 2, "y", "t1"], ["create_source", 3, "z", "t2"], ["create_source", 1, "w", "t2"],
     ["create_holder", 1, "data_array", "d", "t1"], ["link_source", 6, 4], ["set_metadata", 4, 0],
     ["copy_block", 1, "c"], ["create_holder", 7, "data_array", "e", "t1"], ["link_source", 13, 10],
     ["create_holder", 7, "tag", "t", "t1"], ["link_source", 14, 11], ["create_holder", 7, "group", "g", "t1"],
     ["link_source", 15, 11], ["create_source", 9, "q", "t1"], ["create_holder", 1, "multi_tag", "m", "t1"],
     ["link_source", 17, 3]],
    [["create_block", "b", "t1"], ["create_source", 0, "x", "t1"], ["create_source", 1, "x", "t2"],
     ["create_holder", 0, "tag", "t", "t1"], ["link_source", 3, 2], ["copy_block", 0, "a"],
     ["unlink_source", 7, 6], ["link_source", 7, 5], ["create_holder", 0, "group", "g", "t1"], ["link_source", 8, 1],
     ["copy_block", 4, "z"], ["create_holder", 9, "data_array", "d", "t2"], ["link_source", 13, 11],
     ["link_source", 13, 10], ["delete", 1]],
]


def diverge_block_copy(impl, rng, lines):
    """oracle scenes: copy one block of the file with its ids kept, then let the links of the blocks diverge"""
    blocks = [k for k, e in impl.reg.items() if e["kind"] == "block"]
    if not blocks:
        return
    taken = set(impl.reg[k]["path"][0] for k in blocks)
    free = [nm for nm in ["0"] + WIDE_NAMES + ["zz"] if nm not in taken]
    orig = max(blocks, key=lambda k: (sum(1 for e in impl.reg.values() if e["path"][0] == impl.reg[k]["path"][0]
                                          and e["kind"] != "section"), rng.random()))
    if rng.random() < 0.3:
        orig = rng.choice(blocks)
    line = ["copy_block", orig, rng.choice(free)]
    out = impl.do(line)
    lines.append(line)
    if "ok" not in out:
        return
    pair = [orig, out["ok"]]
    for _ in range(rng.choice([4, 8, 14])):
        bk = rng.choice(pair)
        if bk not in impl.reg:
            break
        bname = impl.reg[bk]["path"][0]
        srcs = [k for k, e in impl.reg.items() if e["kind"] == "source" and e["path"][0] == bname]
        holds = [k for k, e in impl.reg.items() if e["kind"] == "holder" and e["path"][0] == bname]
        r = rng.random()
        if r < 0.25 or not holds:
            line = ["create_holder", bk, rng.choice(HKINDS), rng.choice(WIDE_NAMES), rng.choice(TYPES)]
        elif r < 0.65 and srcs:
            line = ["link_source", rng.choice(holds), rng.choice(srcs)]
        elif r < 0.75 and srcs:
            line = ["unlink_source", rng.choice(holds), rng.choice(srcs)]
        elif r < 0.87:
            line = ["create_source", rng.choice(srcs + [bk]), rng.choice(impl.names), rng.choice(TYPES)]
        else:
            line = gen_op(impl, rng, "build")
            if line[0] in QUERY_OPS:
                continue
        impl.do(line)
        lines.append(line)


def oracle(ctx, broken, hints):
    failures = []
    path = ctx.tmpfile("c13-oracle.nix")
    n = 0
    hist = 0
    for h in FIXED_CASES + core.load_corpus(PROP):
        n += oracle_history(ctx, path, h, failures, every_filter=True)
        hist += 1
    for h in hints[:20]:
        n += oracle_history(ctx, path, h, failures)
        hist += 1
    budget = 400 if broken and not ctx.quick() else (80 if broken else ctx.budget(20, 300))
    for i in range(budget):
        if len(failures) >= 5:
            break
        nb = ctx.rng.choice([10, 20, 30])
        nm = ctx.rng.choice([5, 15, 30])
        lines = []

        def on_state(impl, ls, lines=lines):
            pass
        # build without queries, checking intermediate states now and then
        rng = ctx.rng
        impl = Impl(path)
        if rng.random() < 0.3:
            impl.names = WIDE_NAMES
        impl.p_oid = rng.choice(P_OID)
        try:
            for j in range(nb + nm):
                line = gen_op(impl, rng, "build" if j < nb else "mixed")
                if line[0] in QUERY_OPS:
                    continue
                impl.do(line)
                lines.append(line)
                if rng.random() < 0.08:
                    n += check_state(impl, list(lines), failures, "live", False, rng)
            if i % 3 == 1:
                # every third scene: an id-keeping block copy whose links diverge afterwards
                diverge_block_copy(impl, rng, lines)
            n += check_state(impl, list(lines), failures, "live", True, rng)
            impl.do(["reopen"])
            n += check_state(impl, list(lines), failures, "reopened", i % 3 == 0 or i % 6 == 1, rng)
        finally:
            impl.close()
        hist += 1
    failures.sort(key=lambda f: len(core.canon(f.input)))
    return {"evaluations": n, "histories": hist, "failures": failures}


def matches_known(entry, failure):
    return False


def replay_failure(ctx, fj):
    inp = fj["input"]
    failures = []
    path = ctx.tmpfile("c13-replay.nix")
    oracle_history(ctx, path, inp["history"], failures, every_filter=True)
    for f in failures:
        if f.input["query"] == inp["query"] or f.what == fj["what"]:
            return f
    return failures[0] if failures else None


READY = True
MANIFEST = {
    "level_text": "Kernel-checked theorems over (a) a Lean model of the ownership forest of sections/sources with "
                  "metadata and source links and (b) the shape of nixio's own code as an ast translator reads it from "
                  "util/find.py, section.py, source.py, block.py, file.py on every run (Generated/FindShape.lean: "
                  "comparison operators, level constants, limit defaulting, containment keys, containers scanned by every "
                  "referring_* property, lists joined by referring_objects), interpreted by Pure/TreeShape.lean: each of the "
                  "four find_* methods returns, for every forest, filter and limit (0 and None included), the level-order "
                  "enumeration restricted to the depth limit and the filter (each entity once when ids are unique; None = "
                  "whole subtree); every state reachable by any history of create / link / unlink / delete / reopen / "
                  "id-renewing copy_section operations has unique ids and correct cached parents, hence Section.parent, "
                  "Source.parent_source and parent_block are the containing entity through every kind of handle, "
                  "find_related lists parent, siblings, self and children, and the referring lists (per kind and "
                  "referring_objects, of sections and of sources) are exactly the inverse of the stored links. Ids as texts: "
                  "the look-up chain behind `self.id in container` (Container.__contains__ -> H5Group.get_by_id -> name "
                  "fall-back, Generated/IdLookup.lean) compares the key as given and create_section(oid=...) stores the text as "
                  "given, hence Section.parent / Source.parent_source / find_related / the referring lists evaluated on the "
                  "stored id texts are what the key-level theorems say, for every assignment of pairwise different id texts "
                  "in any spelling uuid.UUID reads, and for every history whose create_section calls supply such ids "
                  "(Pure/TreeIdsHist.lean, parent_history_code).",
    "level_note": "The interpreter of the extracted shape is what the correspondence driver executes; statements the "
                  "translator does not parameterise are matched literally (an unexpected statement is a broken tie, not a "
                  "silent pass). The forest model and the interpreter are tied to the code by differential histories on "
                  "real HDF5 files (names repeated across subtrees and levels, sections with caller-supplied ids in upper case / "
                  "braces / urn / without hyphens / mixed case, copies, handles that are cached / re-fetched "
                  "/ found / reached through metadata and source links, reopen). The property oracle (raw HDF5 structure "
                  "against every observable) additionally runs scenes that are outside the modelled history language: "
                  "id-keeping copies of a block inside its file (File.create_block(copy_from=...), both blocks then hold "
                  "sources and linking objects with equal ids) whose links diverge afterwards; there parent_block / "
                  "parent_source / Source.referring_* are compared by HDF5 object, not only by id. Partial aspects: a look-up that would "
                  "canonicalise both the key and the stored id is outside what the id-text theorems accept (idempotence of "
                  "the modelled str(uuid.UUID(.)) is not proved); limits are naturals; "
                  "'unlimited' assumes tree height <= sys.maxsize; ids are creation counters (uuid4 freshness assumed); "
                  "copies with kept ids, copies through link-reached handles and name/id dispatch for UUID-like names are "
                  "outside (C20/C03); data frames are outside the property's quantifier (Section has no "
                  "referring_data_frames). Four defects were repaired in /repo in earlier rounds (parent by name, nested "
                  "referring_sources, limit=0 from File/Block, Source.referring_groups).",
    "technique": "Lean 4 proof (induction over queue/levels, invariant over operation histories, decidable canonicity of "
                 "ast-extracted code shapes) with differential correspondence on generated histories",
}
