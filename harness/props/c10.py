"""C10 — metadata properties hold typed value lists; sections behave like ordered dicts.

Anchors: nixio/property.py, nixio/section.py, nixio/datatype.py, nixio/hdf5/h5dataset.py
(+ container.py / h5group.py for the lookups behind `section.props`).

A *case* is a history: {"ops": [op, ...]} executed on one fresh section of one fresh file.  The same
op lines go to the Lean model driver (`nixdriver C10`).  After every op the result *and* the complete
section state (all properties with dtype, values as bit patterns, optional attributes; child
sections) are compared.

Kept objects (round 3): a history may keep `Property` objects (`hold` / `createh`, used later by `hget` / `hset` /
`hextend` / `hclear` / `hsetattr` / `hsetodml`) while the same property is written through other objects, and it runs
every section-level call through one of several `Section` objects of the same section (annotation `{"@": {"sec": n}}`
as last element of an op; the model has one section, so the annotation is stripped from the model's line).  In an
*eager* history every kept object is read after every operation, in a *lazy* one only by its `hget` operations.

Encoding (shared with lean/Driver/C10.lean): strings are arrays of code points, ints and float bit
patterns are decimal strings, a Python value is {"c": class, "v": payload} (+ "w"/"raw"/"k" telling
the harness which concrete numpy width / odd object to build — the model does not read those).
"""
import decimal
import os
import struct
import uuid

import numpy as np

from ..lib import core
from ..lib.core import Failure, Disagreement
from ..extract import propvals as _ex

PROP = "C10"
LEAN_MODULE = "NixModel.Props.C10"
THEOREMS = [
    "Nix.C10.C10_type_fixed",
    "Nix.C10.C10_dtype_at_creation",
    "Nix.C10.C10_read_last_stored",
    "Nix.C10.C10_extend_appends",
    "Nix.C10.C10_clear_empties",
    "Nix.C10.C10_other_properties_untouched",
    "Nix.C10.C10_reads_change_nothing",
    "Nix.C10.C10_refused_unchanged",
    "Nix.C10.C10_any_refusal_unchanged",
    "Nix.C10.C10_kept_object_refusal_unchanged",
    "Nix.C10.C10_check_precedes_write",
    "Nix.C10.C10_wrong_or_mixed_refused",
    "Nix.C10.C10_bool_is_not_int",
    "Nix.C10.C10_attrs_independent",
    "Nix.C10.C10_dict_consistent",
    "Nix.C10.C10_dict_setitem_getitem",
    "Nix.C10.C10_dict_delitem",
    "Nix.C10.C10_get_dtype_is_source_chain",
    "Nix.C10.C10_values_setter_is_source_order",
    "Nix.C10.C10_extend_values_is_source_order",
    "Nix.C10.C10_delete_values_is_source_order",
    "Nix.C10.C10_source_checks_precede_writes",
    "Nix.C10.C10_dict_is_source_order",
    "Nix.C10.C10_kept_objects_refine_lookups",
    "Nix.C10.C10_kept_object_reads_current",
    "Nix.C10.C10_kept_object_write_read",
    "Nix.C10.C10_kept_object_sees_lookup_write",
    "Nix.C10.C10_kept_object_extend_appends",
    "Nix.C10.C10_kept_object_stays_bound",
]
ASSUMPTIONS = [
    "the state of the model is one section of a file written by the current nixio (format >= 1.1.1); persistence "
    "across close/open, HDF5 resize/fill values, creation-order iteration and vlen-string conversion are "
    "h5py/libhdf5 behaviour represented by the model's list operations and tied by the correspondence runs only",
    "ids come from a fresh supply: a string chosen by the caller never equals an entity id; `oid=` and `copy_from=` "
    "of create_property are outside the model",
    "uuid.UUID() acceptance is modelled for the plain spellings (urn:/uuid: prefix, braces, hyphens, 32 hex digits); "
    "the extra spellings int(s, 16) accepts (sign, 0x, underscores, blanks, non-ASCII digits) are outside the model",
    "keys containing '/' or equal to '.' (h5py path semantics), integer/bool keys for `in`/`[]`/`[]=` on the section, "
    "top-level bytes / set / dict / range / iterator inputs, tuples assigned through section[key] = (...), lone "
    "surrogates in text, NaN payloads of float16/float32 *scalars* (quieted by the C cast) are outside the model",
    "floating point values are compared as IEEE bit patterns; np.floatN scalars are represented by their exact "
    "widening to double",
    "a refusal with ValueError (value of a class get_dtype does not know: None, bytes, complex, nested list; text "
    "containing a NUL character, which an HDF5 variable-length string cannot hold) is modelled as the code behaves; the "
    "property's 'type error' clause is checked for candidates whose elements all belong to the four supported types",
    "a kept Property object is modelled as a name for a property id (the only state such an object carries is the HDF5 "
    "dataset it stands for); an object whose property was deleted, and every object after the file was closed, is "
    "outside the model (dropped from the table of kept objects on both sides)",
]
TRUSTED_EXTRA = [
    "hand-written model lean/NixModel/Pure/PropVals.lean (+ PropHandles.lean: kept Property objects) of property.py / "
    "section.py / datatype.py / container lookups; the value-list methods, the get_dtype chain and the collections behind "
    "the dictionary methods are proved to be the interpretation (Pure/PropShape.lean) of the statement lists "
    "harness/extract/propvals.py regenerates from the source on every run",
]
READY = True
MANIFEST = {
    "level_text": "Kernel-checked theorems over a Lean model of Property value lists and Section dictionary access, "
                  "for every reachable state (inductive invariant over arbitrary histories of create / assign / "
                  "extend / clear / attribute / dict-style operations, issued through fresh lookups and through "
                  "Property objects kept from earlier lookups, in any interleaving): dtype fixed at creation and every "
                  "stored cell of that dtype; a successful assignment reads back exactly the converted input - through "
                  "every kept object of the property as well -, extend appends after what is stored now; every check "
                  "precedes resize and write, so every refused call (TypeError, ValueError, OverflowError, lookup "
                  "errors) leaves the whole section unchanged; wrong-typed or mixed candidates are refused at every "
                  "element position (bool is not int); len/items/iteration/contains/getitem/setitem/delitem agree with "
                  "the property and subsection lists. The value-list methods, the get_dtype chain and the dictionary "
                  "methods of the model are proved equal to the interpretation of statement lists regenerated from "
                  "property.py / datatype.py / section.py by an ast translator on every run, and 'every refusing "
                  "statement precedes the first write' is decided on those lists. The model is also tied to nixio by differential execution of random "
                  "histories on real HDF5 files (several Section objects and kept Property objects of the same "
                  "entities taking turns), comparing the whole section state after every call.",
    "level_note": "Trusted: Lean kernel; axioms propext/Classical.choice/Quot.sound; the hand-written model and the "
                  "harness. Partial: persistence across reopen and HDF5 storage behaviour are tied by correspondence "
                  "only; objects of deleted properties / of a closed file are outside the model. The three findings "
                  "open after round 2 (NUL text refused after the resize, trailing NUL dropped, bare uint64 scalar "
                  "wrapping) are repaired in /repo (38c9f56, 578a510) and the full refusal theorem is proved.",
    "technique": "Lean 4 proof (inductive invariant over operation histories, refinement of histories with kept objects "
                 "to histories of fresh lookups, interpretation of source-generated statement lists) with an ast "
                 "translator tie and differential correspondence on real HDF5 files",
}



def extract(repo):
    """statement lists of Property.values (setter) / extend_values / delete_values, the isinstance chain of
    DataType.get_dtype, the collections behind the Section dictionary methods -> Generated/PropValsShape.lean"""
    return _ex.extract(repo)


INT64_MIN, INT64_MAX = -2 ** 63, 2 ** 63 - 1
MAIN_DTYPES = ("bool", "int64", "float64", "string")
KIND_OF_DTYPE = {"bool": "bool", "int64": "int", "float64": "float", "string": "str"}
INT_DTYPES = ["int8", "int16", "int32", "int64", "uint8", "uint16", "uint32", "uint64"]
FLOAT_DTYPES = ["float32", "float64"]
ALL_DTYPES = ["bool"] + INT_DTYPES + FLOAT_DTYPES + ["string"]
ATTR_NAMES = ["definition", "unit", "uncertainty", "reference", "dependency", "dependency_value", "value_origin"]
ODML = ["boolean", "int", "float", "string", "text", "url", "person", "datetime", "date", "time"]
UUID_NAME = "0123456789abcdef0123456789abcdef"


# ---------------------------------------------------------------------------------------
# encoding helpers


def cps(s):
    return [ord(c) for c in s]


def from_cps(a):
    return "".join(chr(c) for c in a)


def dbits(x):
    return struct.unpack("<Q", struct.pack("<d", float(x)))[0]


def from_dbits(b):
    return struct.unpack("<d", struct.pack("<Q", int(b)))[0]


def fbits32(x):
    return struct.unpack("<I", np.float32(x).tobytes())[0]


def jbool(b):
    return {"c": "bool", "v": bool(b)}


def jint(i):
    return {"c": "int", "v": str(int(i))}


def jfloatbits(bits):
    return {"c": "float", "v": str(int(bits))}


def jfloat(x):
    return jfloatbits(dbits(x))


def jstr(s):
    return {"c": "str", "v": cps(s)}


def jnpbool(b):
    return {"c": "npBool", "v": bool(b)}


def jnpint(w, i):
    return {"c": "npInt", "v": str(int(i)), "w": w}


def jnpfloat(w, raw):
    """numpy floating scalar of width w with raw bit pattern; v = bits of its widening to double"""
    x = _npfloat(w, raw)
    return {"c": "npFloat", "v": str(dbits(float(x))), "w": w, "raw": str(int(raw))}


def jnpstr(s):
    return {"c": "npStr", "v": cps(s)}


def jother(kind):
    return {"c": "other", "k": kind}


def _npfloat(w, raw):
    raw = int(raw)
    if w == "float16":
        return np.frombuffer(struct.pack("<H", raw), dtype=np.float16)[0]
    if w == "float32":
        return np.frombuffer(struct.pack("<I", raw), dtype=np.float32)[0]
    return np.frombuffer(struct.pack("<Q", raw), dtype=np.float64)[0]


def pyval(pv):
    c = pv["c"]
    if c == "bool":
        return bool(pv["v"])
    if c == "int":
        return int(pv["v"])
    if c == "float":
        return from_dbits(pv["v"])
    if c == "str":
        return from_cps(pv["v"])
    if c == "npBool":
        return np.bool_(pv["v"])
    if c == "npInt":
        return np.dtype(pv["w"]).type(int(pv["v"]))
    if c == "npFloat":
        return _npfloat(pv["w"], pv["raw"])
    if c == "npStr":
        return np.str_(from_cps(pv["v"]))
    k = pv.get("k", "none")
    return {"none": None, "bytes": b"xy", "complex": 1 + 2j, "decimal": decimal.Decimal("1.5"),
            "list": [1, 2], "tuple": (1, 2), "dict": {"a": 1}, "ndarray": np.array([1, 2]),
            "type": np.int32, "emptylist": []}[k]


def cell_value(c):
    if "b" in c:
        return bool(c["b"])
    if "i" in c:
        return int(c["i"])
    if "s" in c:
        return from_cps(c["s"])
    raise ValueError("float cells are built from bits")


def ndarray(nd):
    dt, shape, data = nd["dt"], tuple(nd["shape"]), nd["data"]
    if dt == "ustr":
        if data:
            a = np.array([from_cps(c["s"]) for c in data])
        else:
            a = np.array([], dtype=np.str_)
    elif dt == "other":
        a = np.array([complex(1, 2)] * len(data), dtype=np.complex128)
    elif dt == "float64":
        a = np.array([int(c["f"]) for c in data], dtype=np.uint64).view(np.float64)
    elif dt == "float32":
        a = np.array([int(c["f"]) for c in data], dtype=np.uint32).view(np.float32)
    elif dt == "bool":
        a = np.array([bool(c["b"]) for c in data], dtype=np.bool_)
    else:
        a = np.array([int(c["i"]) for c in data], dtype=np.dtype(dt))
    return a.reshape(shape)


def typearg(s):
    import nixio
    if s.startswith("np:"):
        d = s[3:]
        if d == "string":
            return nixio.DataType.String
        if d == "bool":
            return nixio.DataType.Bool
        return np.dtype(d).type
    return {"bool": bool, "int": int, "float": float, "str": str}[s]


def build_input(inp):
    if inp is None:
        return None
    if "scalar" in inp:
        return pyval(inp["scalar"])
    if "list" in inp:
        lst = [pyval(v) for v in inp["list"]]
        return tuple(lst) if inp.get("tuple") else lst
    if "nd" in inp:
        return ndarray(inp["nd"])
    if "type" in inp:
        return typearg(inp["type"])
    raise ValueError("bad input")


def attrval(v):
    if v is None:
        return None
    if "str" in v:
        return from_cps(v["str"])
    if "num" in v:
        k = v["num"].get("k", "float")
        x = from_dbits(v["num"]["bits"])
        if k == "bool":
            return bool(x)
        if k == "int":
            return int(x)
        if k == "npfloat32":
            return np.float32(x)
        if k == "npint":
            return np.int16(int(x))
        return x
    if "other" in v:
        return ["x"] if v["other"] else []
    raise ValueError("bad attr value")


def err_name(e):
    from nixio.exceptions import DuplicateName
    if isinstance(e, DuplicateName):
        return "DuplicateName"
    for cls, nm in ((KeyError, "KeyError"), (IndexError, "IndexError"), (OverflowError, "OverflowError"),
                    (ValueError, "ValueError"), (TypeError, "TypeError"), (AttributeError, "AttributeError"),
                    (RuntimeError, "RuntimeError")):
        if isinstance(e, cls):
            return nm
    return type(e).__name__


def dtype_name(dt):
    import nixio
    if dt is nixio.DataType.String or dt == nixio.DataType.String:
        return "string"
    return np.dtype(dt).name


def cell_of(v, dt=None):
    """canonical cell of a value read back from nixio"""
    if isinstance(v, (bool, np.bool_)):
        return {"b": bool(v)}
    if isinstance(v, np.float32):
        return {"f": str(fbits32(v))}
    if isinstance(v, np.float16):
        return {"f": str(struct.unpack("<H", v.tobytes())[0])}
    if isinstance(v, (float, np.floating)):
        return {"f": str(dbits(v))}
    if isinstance(v, (int, np.integer)):
        return {"i": str(int(v))}
    if isinstance(v, str):
        return {"s": cps(v)}
    return {"?": repr(v)}


# ---------------------------------------------------------------------------------------
# the implementation side


class Impl:
    """one history on one fresh section of one fresh file of the real nixio"""

    def __init__(self, path, eager=True):
        import nixio
        self.nix = nixio
        self.path = path
        if os.path.exists(path):
            os.remove(path)
        self.file = nixio.File.open(path, nixio.FileMode.Overwrite)
        self.sec = self.file.create_section("s", "t")
        self.idmap = {}
        self.rev = {}
        self.next = 0
        self.eager = eager
        self.secs = [self.sec]      # Section objects of the one section, obtained at different times
        self.nsec = 0
        self.handles = {}           # kept Property objects
        self.hids = {}              # handle -> canonical id of its property

    def close(self):
        try:
            self.file.close()
        except Exception:
            pass
        try:
            os.remove(self.path)
        except OSError:
            pass

    def _canon_id(self, real):
        if real not in self.idmap:
            self.idmap[real] = self.next
            self.rev[self.next] = real
            self.next += 1
        return self.idmap[real]

    def key(self, k):
        if "n" in k:
            return from_cps(k["n"])
        if "id" in k:
            n = int(k["id"])
            return self.rev.get(n, "00000000-0000-4000-8000-%012d" % n)
        return int(k["i"])

    def prop_json(self, p):
        a = {}
        for n in ATTR_NAMES:
            v = getattr(p, n)
            if n == "uncertainty":
                a[n] = None if v is None else str(dbits(v))
            else:
                a[n] = None if v is None else cps(v)
        o = p.odml_type
        a["odml_type"] = None if o is None else o.value
        return {"name": cps(p.name), "id": self._canon_id(p.id), "dtype": dtype_name(p.data_type),
                "vals": [cell_of(v) for v in p.values], "attrs": a}

    def prop_json_fast(self, p):
        """same record as prop_json, the optional attributes read in one pass from the dataset's attribute table
        (the getters themselves are exercised by the `get` operations)"""
        at = dict(p._h5dataset.dataset.attrs.items())

        def dec(v):
            return v.decode() if isinstance(v, bytes) else v
        a = {}
        for n in ATTR_NAMES:
            v = dec(at.get(n))
            if n == "uncertainty":
                a[n] = None if v is None else str(dbits(v))
            else:
                a[n] = None if v is None else cps(v)
        o = dec(at.get("odml_type"))
        a["odml_type"] = o if o else None
        return {"name": cps(dec(at.get("name"))), "id": self._canon_id(dec(at.get("entity_id"))),
                "dtype": dtype_name(p.data_type), "vals": [cell_of(v) for v in p.values], "attrs": a}

    def dump(self, handles=False):
        fresh = self.file.sections["s"]          # a new Section object: nothing kept between calls
        props = [self.prop_json_fast(p) for p in fresh.props]
        secs = [{"name": cps(s.name), "id": self._canon_id(s.id)} for s in fresh.sections]
        st = {"props": props, "secs": secs}
        if handles:
            # a kept object whose property was deleted is no longer spoken about (model: pruned)
            live = set(p["id"] for p in props)
            for hid in [h for h in self.handles if self.hids[h] not in live]:
                del self.handles[hid]
                del self.hids[hid]
            if self.eager:
                st["handles"] = dict((str(hid), self.prop_json(h)) for hid, h in self.handles.items())
        return st

    def _section(self, ann):
        """the Section object this call goes through"""
        how = ann.get("newsec")
        if how:
            f = self.file
            if how == "name":
                s = f.sections["s"]
            elif how == "pos":
                s = f.sections[0]
            elif how == "find":
                s = f.find_sections(lambda x: x.name == "s")[0]
            else:
                s = f.sections[self.sec.id]
            if len(self.secs) < 4:
                self.secs.append(s)
            else:
                self.secs[1 + self.nsec % 3] = s
                self.nsec += 1
            return s
        return self.secs[ann.get("sec", 0) % len(self.secs)]

    def _fetch(self, sec, key, how):
        """a Property object for section.props[key], obtained the way `how` says"""
        nix = self.nix
        p = sec.props[key]
        pid = p.id
        if how == "iter":
            cands = list(sec.props)
        elif how == "items":
            cands = [x for _, x in sec.items() if isinstance(x, nix.Property)]
        elif how == "contitems":
            cands = [x for _, x in sec.props.items()]
        elif how == "iterself":
            cands = [x for x in sec if isinstance(x, nix.Property)]
        else:
            return p
        for q in cands:
            if q.id == pid:
                return q
        return p

    def _do(self, op):
        op, ann = split_ann(op)
        nix, sec = self.nix, self._section(ann)
        kind = op[0]
        if kind == "hold":
            h = self._fetch(sec, self.key(op[2]), ann.get("how", "getitem"))
            if ann.get("read"):
                h.values
            self.handles[op[1]] = h
            self.hids[op[1]] = self._canon_id(h.id)
            return self.prop_json(h)
        if kind == "createh":
            h = sec.create_property(from_cps(op[2]), build_input(op[3]))
            if ann.get("read"):
                h.values
            self.handles[op[1]] = h
            self.hids[op[1]] = self._canon_id(h.id)
            return None
        if kind == "drop":
            self.handles.pop(op[1], None)
            self.hids.pop(op[1], None)
            return None
        if kind in ("hset", "hextend", "hclear", "hsetattr", "hsetodml", "hget"):
            h = self.handles[op[1]]           # an unknown handle: KeyError, as in the model's protocol
            if kind == "hset":
                h.values = build_input(op[2])
            elif kind == "hextend":
                h.extend_values(build_input(op[2]))
            elif kind == "hclear":
                h.delete_values()
            elif kind == "hsetattr":
                setattr(h, op[2], attrval(op[3]))
            elif kind == "hsetodml":
                from nixio.property import OdmlType
                h.odml_type = OdmlType(op[2]) if isinstance(op[2], str) else op[2]
            else:
                return self.prop_json(h)
            return None
        if kind == "iter":
            return [[cps(x.name), "prop" if isinstance(x, nix.Property) else "sec"] for x in sec]
        if kind == "create":
            sec.create_property(from_cps(op[1]), build_input(op[2]))
            return None
        if kind == "set":
            sec.props[self.key(op[1])].values = build_input(op[2])
            return None
        if kind == "extend":
            sec.props[self.key(op[1])].extend_values(build_input(op[2]))
            return None
        if kind == "clear":
            sec.props[self.key(op[1])].delete_values()
            return None
        if kind == "setattr":
            setattr(sec.props[self.key(op[1])], op[2], attrval(op[3]))
            return None
        if kind == "setodml":
            from nixio.property import OdmlType
            sec.props[self.key(op[1])].odml_type = OdmlType(op[2]) if isinstance(op[2], str) else op[2]
            return None
        if kind == "get":
            return self.prop_json(sec.props[self.key(op[1])])
        if kind == "mksec":
            sec.create_section(from_cps(op[1]), from_cps(op[2]))
            return None
        if kind == "getitem":
            r = sec[self.key(op[1])]
            if isinstance(r, nix.Section):
                return {"section": {"name": cps(r.name), "id": self._canon_id(r.id)}}
            if isinstance(r, list):
                return {"values": [cell_of(v) for v in r]}
            return {"scalar": cell_of(r)}
        if kind == "setitem":
            v = op[2]
            if isinstance(v, dict) and "S" in v:
                sec[from_cps(op[1])] = nix.section.S(from_cps(v["S"]))
            else:
                sec[from_cps(op[1])] = build_input(v)
            return None
        if kind == "delitem":
            del sec[self.key(op[1])]
            return None
        if kind == "contains":
            return bool(self.key(op[1]) in sec)
        if kind == "len":
            return len(sec)
        if kind == "items":
            return [[cps(n), "prop" if isinstance(x, nix.Property) else "sec"] for n, x in sec.items()]
        if kind == "reopen":
            self.file.close()
            self.handles.clear()
            self.hids.clear()
            self.file = nix.File.open(self.path, nix.FileMode.ReadWrite)
            self.sec = self.file.sections["s"]
            self.secs = [self.sec]
            return None
        raise ValueError("unknown op %r" % (kind,))

    def apply(self, op):
        try:
            r = self._do(op)
            out = {"ok": r}
        except Exception as e:  # canonicalised by class
            out = {"err": err_name(e)}
        out["state"] = self.dump(handles=True)
        return out


def split_ann(op):
    """(operation as the model sees it, harness-side annotation)"""
    if op and isinstance(op[-1], dict) and "@" in op[-1]:
        return op[:-1], op[-1]["@"]
    return op, {}


def model_line(op):
    return split_ann(op)[0]


def run_history_impl(ctx, ops, n, eager=True):
    im = Impl(ctx.tmpfile("c10-%d.nix" % n), eager)
    try:
        return [im.apply(op) for op in ops]
    finally:
        im.close()


# ---------------------------------------------------------------------------------------
# value generators


NAMES = ["a", "b", "c", "alpha", "beta", "k1", "x y", "π", "Ünit", "name with spaces", "p.q", "z" * 40]
SEC_NAMES = ["sub", "a", "alpha", "child 2", "σ"]
TEXTS = ["", "a", "abc", "äö€", "\U0001F600", "ünḯ", " ", "a" * 300, "True", "1", "0.5", "naïve café",
         "日本語", "tab\tnew\nline", "​", "\U0010FFFF"]
INTS = [0, 1, -1, 2, 7, 42, 127, 128, 255, 256, -128, 2 ** 31 - 1, 2 ** 31, -2 ** 31, 2 ** 53, 2 ** 53 + 1,
        INT64_MAX, INT64_MIN, INT64_MAX - 1, INT64_MIN + 1]
FLOAT_BITS = [0x0000000000000000, 0x8000000000000000, 0x3FF0000000000000, 0xBFF8000000000000,
              0x7FF0000000000000, 0xFFF0000000000000, 0x7FF8000000000000, 0x7FF8000000000001,
              0xFFF8000000000000, 0x7FF4000000000000, 0x7FFFFFFFFFFFFFFF, 0x0000000000000001,
              0x000FFFFFFFFFFFFF, 0x0010000000000000, 0x7FEFFFFFFFFFFFFF, 0x3FB999999999999A,
              0x400921FB54442D18, 0x4340000000000000]
F32_BITS = [0x00000000, 0x80000000, 0x3F800000, 0x3DCCCCCD, 0x7F800000, 0xFF800000, 0x7FC00000, 0x00000001,
            0x7F7FFFFF, 0x40490FDB]
F16_BITS = [0x0000, 0x3C00, 0x2E66, 0x7C00, 0x7E00, 0x0001, 0x7BFF]
INT_W = {"int8": (-128, 127), "int16": (-2 ** 15, 2 ** 15 - 1), "int32": (-2 ** 31, 2 ** 31 - 1),
         "int64": (INT64_MIN, INT64_MAX), "uint8": (0, 255), "uint16": (0, 2 ** 16 - 1),
         "uint32": (0, 2 ** 32 - 1), "uint64": (0, 2 ** 64 - 1)}
OTHER_KINDS = ["none", "bytes", "complex", "decimal", "list", "tuple", "dict", "ndarray", "type", "emptylist"]
KINDS = ["bool", "int", "float", "str"]


class Gen:
    def __init__(self, rng, clean=False):
        self.rng = rng
        self.clean = clean        # oracle stream: no exotic classes, no overflow, no NUL

    # --- single values ---------------------------------------------------------------
    def text(self):
        r = self.rng
        if r.random() < 0.7:
            return r.choice(TEXTS)
        n = r.choice([1, 2, 3, 5, 9, 30])
        return "".join(chr(r.choice([r.randint(32, 126), r.randint(0xA0, 0x2FF), r.randint(0x4E00, 0x4E40),
                                     r.randint(0x1F600, 0x1F640)])) for _ in range(n))

    def intval(self):
        r = self.rng
        if r.random() < 0.5:
            return r.choice(INTS)
        return r.choice([r.randint(-10, 10), r.randint(-2 ** 40, 2 ** 40), r.randint(INT64_MIN, INT64_MAX)])

    def floatbits(self):
        r = self.rng
        if r.random() < 0.5:
            return r.choice(FLOAT_BITS)
        if r.random() < 0.5:
            return dbits(r.randint(-1000, 1000) / 8.0)
        return r.getrandbits(64)

    def val(self, kind, numpy_ok=True):
        r = self.rng
        npy = numpy_ok and r.random() < 0.25
        if kind == "bool":
            b = r.random() < 0.5
            return jnpbool(b) if npy else jbool(b)
        if kind == "int":
            if npy:
                w = r.choice(INT_DTYPES if not self.clean else ["int64"])
                lo, hi = INT_W[w]
                v = r.choice([lo, hi, 0, 1, r.randint(lo, hi)])
                if self.clean and not (INT64_MIN <= v <= INT64_MAX):
                    v = 1
                return jnpint(w, v)
            return jint(self.intval())
        if kind == "float":
            if npy:
                w = r.choice(["float64", "float32", "float16"] if not self.clean else ["float64"])
                if w == "float64":
                    return jnpfloat(w, self.floatbits())
                if w == "float32":
                    return jnpfloat(w, r.choice(F32_BITS))
                return jnpfloat(w, r.choice(F16_BITS))
            return jfloatbits(self.floatbits())
        t = self.text()
        return jnpstr(t) if npy else jstr(t)

    def other(self):
        return jother(self.rng.choice(OTHER_KINDS))

    def other_kind(self, kind):
        r = self.rng
        # the confusions the property names first
        special = {"int": ["bool", "float"], "bool": ["int"], "float": ["int"], "str": ["int", "bool"]}[kind]
        if r.random() < 0.6:
            return r.choice(special)
        return r.choice([k for k in KINDS if k != kind])

    def confusing(self, kind):
        """a value of another kind that looks like `kind`"""
        r = self.rng
        ok = self.other_kind(kind)
        if ok == "bool":
            return r.choice([jbool(True), jbool(False), jnpbool(True)])
        if ok == "int":
            return r.choice([jint(1), jint(0), jnpint("int64", 1), jnpint("uint8", 0)])
        if ok == "float":
            return r.choice([jfloat(1.0), jfloat(0.0), jnpfloat("float64", dbits(1.0))])
        return r.choice([jstr("1"), jstr("True"), jstr("")])

    # --- inputs ----------------------------------------------------------------------
    def homog(self, kind, n=None, numpy_ok=True):
        r = self.rng
        if n is None:
            n = r.choice([1, 1, 2, 2, 3, 4, 6, 9, 17, 60])
        return [self.val(kind, numpy_ok) for _ in range(n)]

    def as_list(self, vals):
        d = {"list": vals}
        if self.rng.random() < 0.2:
            d["tuple"] = True
        return d

    def valid_input(self, kind):
        r = self.rng
        if r.random() < 0.25:
            return {"scalar": self.val(kind)}
        return self.as_list(self.homog(kind))

    def mixed_input(self, kind):
        r = self.rng
        vals = self.homog(kind, r.choice([1, 2, 3, 5, 8]))
        pos = r.randrange(len(vals) + 1)
        bad = self.confusing(kind) if (self.clean or r.random() < 0.8) else self.other()
        if r.random() < 0.5 and vals:
            vals[min(pos, len(vals) - 1)] = bad
        else:
            vals.insert(pos, bad)
        if len(vals) == 1:
            vals.append(self.val(kind))
            if r.random() < 0.5:
                vals.reverse()
        return self.as_list(vals)

    def wrong_input(self, kind):
        r = self.rng
        if r.random() < 0.4:
            return {"scalar": self.confusing(kind)}
        k2 = self.other_kind(kind)
        return self.as_list(self.homog(k2, r.choice([1, 2, 3])))

    def nd_cells(self, dt, n):
        r = self.rng
        if dt == "bool":
            return [{"b": r.random() < 0.5} for _ in range(n)]
        if dt in INT_W:
            lo, hi = INT_W[dt]
            return [{"i": str(r.choice([lo, hi, 0, 1, r.randint(lo, hi)]))} for _ in range(n)]
        if dt == "float64":
            return [{"f": str(self.floatbits())} for _ in range(n)]
        if dt == "float32":
            return [{"f": str(r.choice(F32_BITS + [r.getrandbits(32)]))} for _ in range(n)]
        if dt == "ustr":
            return [{"s": cps(self.text())} for _ in range(n)]
        return [{"i": "0"} for _ in range(n)]

    def nd_input(self, dt, shape=None):
        r = self.rng
        if shape is None:
            shape = r.choice([[1], [2], [3], [5], [12], [2], [3], [0], [], [2, 2], [1, 3], [0, 2], [2, 0], [2, 1, 2]])
        n = 1
        for s in shape:
            n *= s
        return {"nd": {"dt": dt, "shape": shape, "data": self.nd_cells(dt, n)}}

    def nd_for(self, dtype, match=True):
        r = self.rng
        if match and dtype != "string":
            dt = dtype
        else:
            dt = r.choice([d for d in ["bool"] + INT_DTYPES + FLOAT_DTYPES + ["ustr", "other"] if d != dtype])
        shape = None
        if self.clean:
            shape = [r.choice([1, 2, 3, 5])]
        return self.nd_input(dt, shape)

    def junk_input(self):
        r = self.rng
        c = r.random()
        if c < 0.2:
            return None
        if c < 0.35:
            return {"list": []}
        if c < 0.5:
            return {"scalar": jother(r.choice(["complex", "decimal"]))}   # iterables are `list`/`nd` inputs
        if c < 0.65:
            return {"list": [self.other()] + self.homog(r.choice(KINDS), r.choice([0, 1, 2]))}
        if c < 0.75:
            return {"type": r.choice(["np:int32", "np:string", "bool", "int", "float", "str", "np:float64"])}
        if c < 0.85:
            return {"scalar": jstr("")}
        if c < 0.93:
            return self.as_list([jint(r.choice([2 ** 63, -2 ** 63 - 1, 2 ** 70, 2 ** 64 - 1]))] +
                                self.homog("int", r.choice([0, 1, 3]), numpy_ok=False))
        nul = r.choice(["a\x00b", "a\x00", "\x00", "b\x00\x00", "\x00c"])
        bad = [jnpstr(nul) if r.random() < 0.2 else jstr(nul)]
        vals = self.homog("str", r.choice([0, 1, 2]), numpy_ok=False)
        if r.random() < 0.3 and not vals:
            return {"scalar": bad[0]}
        return self.as_list(vals + bad if r.random() < 0.6 else bad + vals)

    def input_for(self, dtype, profile):
        """an input for assign/extend on a property of this dtype"""
        r = self.rng
        kind = KIND_OF_DTYPE.get(dtype)
        c = r.random()
        if kind is None:                       # int8 … float32 properties: only arrays can match
            if c < 0.45:
                return self.nd_for(dtype, True)
            if c < 0.6:
                return self.nd_for(dtype, False)
            k = "float" if dtype.startswith("float") else "int"
            if c < 0.85:
                return self.valid_input(k)
            return self.junk_input()
        w = profile
        if c < w[0]:
            return self.valid_input(kind)
        if c < w[1]:
            return self.nd_for(dtype, True)
        if c < w[2]:
            return self.wrong_input(kind)
        if c < w[3]:
            return self.mixed_input(kind)
        if c < w[4]:
            return self.nd_for(dtype, False)
        return self.junk_input()


PROFILE_VALID = (0.52, 0.62, 0.76, 0.90, 0.95)
PROFILE_JUNK = (0.20, 0.28, 0.45, 0.65, 0.80)


def attr_value(g, name):
    r = g.rng
    c = r.random()
    if c < 0.15:
        return None
    if name == "uncertainty":
        if c < 0.7:
            x = r.choice([0.0, 1.5, -2.25, 1e-9, float("inf"), float("nan"), 3.0])
            return {"num": {"t": bool(x != 0), "bits": str(dbits(x)), "k": "float"}}
        if c < 0.8:
            x = r.choice([0, 1, 3, -7, 2 ** 40])
            return {"num": {"t": bool(x != 0), "bits": str(dbits(float(x))), "k": "int"}}
        if c < 0.85:
            x = r.choice([True, False])
            return {"num": {"t": x, "bits": str(dbits(float(x))), "k": "bool"}}
        if c < 0.9:
            return {"num": {"t": True, "bits": str(dbits(float(np.float32(0.1)))), "k": "npfloat32"}}
        if c < 0.95:
            return {"str": cps("x")}
        return {"other": r.random() < 0.5}
    if c < 0.8:
        if name == "unit":
            s = r.choice(["mV", "", " ", "m V", "µV", "μs", "deg", "mV/30", "kg*m^2", "mmu", "u u", "Ω", "m µ"])
        else:
            s = r.choice(["", "d", "a definition", "äöü", "http://x/y", "p1", " "])
        return {"str": cps(s)}
    if c < 0.92:
        x = r.choice([0, 5, 1.5, 0.0])
        k = "int" if isinstance(x, int) else "float"
        return {"num": {"t": bool(x != 0), "bits": str(dbits(float(x))), "k": k}}
    return {"other": r.random() < 0.5}


def gen_history(ctx, g, n_ops, junky, im, fixed_prefix=(), handles=True):
    """generate a history online against the implementation (choices look at the real section)"""
    r = g.rng
    profile = PROFILE_JUNK if junky else PROFILE_VALID
    ops, outs = [], []

    def emit(op):
        ops.append(op)
        outs.append(im.apply(op))
        return outs[-1]

    for op in fixed_prefix:
        emit(op)
    W = [("create", 12), ("set", 13), ("extend", 13), ("clear", 4), ("setattr", 6), ("setodml", 3), ("get", 4),
         ("mksec", 4), ("getitem", 8), ("setitem", 9), ("delitem", 4), ("contains", 5), ("len", 1), ("items", 2),
         ("reopen", 3), ("iter", 2)]
    if handles:
        W += [("hold", 7), ("createh", 3), ("hset", 6), ("hextend", 8), ("hclear", 2), ("hsetattr", 2), ("hsetodml", 1),
              ("hget", 5), ("drop", 1)]
    kinds = [k for k, w in W for _ in range(w)]
    multi_sec = handles and r.random() < 0.6
    raw_emit = emit

    def emit(op):                                    # noqa: F811 - adds the Section object the call goes through
        if multi_sec and op[0] not in ("reopen", "hset", "hextend", "hclear", "hsetattr", "hsetodml", "hget", "drop"):
            c = r.random()
            ann = {}
            if c < 0.12:
                ann["newsec"] = r.choice(["name", "pos", "find", "id"])
            elif c < 0.8:
                ann["sec"] = r.randrange(4)
            if op[0] in ("hold", "createh"):
                ann.update(op[-1]["@"])
                op = op[:-1]
            if ann:
                op = op + [{"@": ann}]
        return raw_emit(op)

    def hold_ann():
        return {"@": {"how": r.choice(["getitem", "getitem", "iter", "items", "contitems", "iterself"]),
                      "read": r.random() < 0.6}}

    while len(ops) < n_ops:
        st = outs[-1]["state"] if outs else {"props": [], "secs": []}
        props, secs = st["props"], st["secs"]
        kind = r.choice(kinds)
        if not props and kind in ("set", "extend", "clear", "setattr", "setodml", "get", "delitem", "hold") \
                and r.random() < 0.85:
            kind = "create" if r.random() < 0.7 or not handles else "createh"
        if kind in ("hset", "hextend", "hclear", "hsetattr", "hsetodml", "hget") and not im.handles \
                and r.random() < 0.9:
            kind = "hold" if props else "createh"

        def name_key():
            c = r.random()
            pool = [from_cps(p["name"]) for p in props] + [from_cps(s["name"]) for s in secs]
            if pool and c < 0.75:
                return {"n": cps(r.choice(pool))}
            if c < 0.85:
                return {"n": cps(r.choice(NAMES + SEC_NAMES))}
            if c < 0.9:
                return {"n": cps(r.choice([UUID_NAME, "{" + UUID_NAME + "}", "urn:uuid:" + UUID_NAME,
                                          "01234567-89ab-cdef-0123-456789abcdef", UUID_NAME[:-1], UUID_NAME + "0",
                                          "0123456789abcdef0123456789abcdeg"]))}
            return {"n": cps(r.choice(["", "nope", "missing"]))}

        def any_key():
            c = r.random()
            if c < 0.7:
                return name_key()
            ids = [p["id"] for p in props] + [s["id"] for s in secs]
            if ids and c < 0.92:
                return {"id": r.choice(ids)}
            return {"id": r.choice([im.next, im.next + 3] + list(range(im.next)))} if im.next else {"id": 0}

        def prop_key():
            c = r.random()
            if props and c < 0.6:
                return {"n": r.choice(props)["name"]}
            if props and c < 0.75:
                return {"id": r.choice(props)["id"]}
            if c < 0.9:
                return {"i": r.choice([0, 0, 1, 2, -1, -2, len(props) - 1, len(props), -len(props), -len(props) - 1, 7])}
            return any_key()

        def dtype_of(k):
            for i, p in enumerate(props):
                if ("n" in k and p["name"] == k["n"]) or ("id" in k and p["id"] == k["id"]):
                    return p["dtype"]
            if "i" in k and props:
                i = k["i"]
                if -len(props) <= i < len(props):
                    return props[i]["dtype"]
            return r.choice(MAIN_DTYPES)

        def hid_live():
            if im.handles and r.random() < 0.95:
                return r.choice(sorted(im.handles))
            return r.randrange(4)

        def dtype_of_handle(hid):
            cid = im.hids.get(hid)
            for p in props:
                if p["id"] == cid:
                    return p["dtype"]
            return r.choice(MAIN_DTYPES)

        if kind == "hold":
            emit(["hold", r.randrange(4), prop_key(), hold_ann()])
        elif kind in ("hset", "hextend"):
            hid = hid_live()
            emit([kind, hid, g.input_for(dtype_of_handle(hid), profile)])
        elif kind == "hclear":
            emit(["hclear", hid_live()])
        elif kind == "hsetattr":
            a = r.choice(ATTR_NAMES)
            emit(["hsetattr", hid_live(), a, attr_value(g, a)])
        elif kind == "hsetodml":
            emit(["hsetodml", hid_live(), r.choice(ODML + [None])])
        elif kind == "hget":
            emit(["hget", hid_live()])
        elif kind == "drop":
            emit(["drop", hid_live()])
        elif kind == "iter":
            emit(["iter"])
        elif kind in ("create", "createh"):
            c = r.random()
            used = [from_cps(p["name"]) for p in props]
            fresh = [n for n in NAMES if n not in used]
            if c < 0.8 and fresh:
                name = r.choice(fresh)
            elif c < 0.9 and used:
                name = r.choice(used)
            elif c < 0.95:
                name = r.choice(["", "a/b", "q/r/s"])
            else:
                name = r.choice([UUID_NAME, "sub"])
            c = r.random()
            if c < 0.12:
                inp = {"type": r.choice(["np:" + d for d in ALL_DTYPES] + ["bool", "int", "float", "str"])}
            else:
                inp = g.input_for(r.choice(MAIN_DTYPES), profile)
            if kind == "createh":
                emit(["createh", r.randrange(4), cps(name), inp, hold_ann()])
            else:
                emit(["create", cps(name), inp])
        elif kind in ("set", "extend"):
            k = prop_key()
            emit([kind, k, g.input_for(dtype_of(k), profile)])
        elif kind == "clear":
            emit(["clear", prop_key()])
        elif kind == "setattr":
            a = r.choice(ATTR_NAMES)
            emit(["setattr", prop_key(), a, attr_value(g, a)])
        elif kind == "setodml":
            emit(["setodml", prop_key(), r.choice(ODML + [None, None])])
        elif kind == "get":
            emit(["get", prop_key()])
        elif kind == "mksec":
            c = r.random()
            name = r.choice(SEC_NAMES + NAMES[:3]) if c < 0.9 else r.choice(["", "a/b", UUID_NAME])
            emit(["mksec", cps(name), cps(r.choice(["t", "t", "type.x", ""]))])
        elif kind == "getitem":
            emit(["getitem", any_key()])
        elif kind == "contains":
            emit(["contains", any_key()])
        elif kind == "setitem":
            k = name_key()
            if r.random() < 0.1:
                v = {"S": cps(r.choice(["t", "stimulus", ""]))}
            else:
                v = g.input_for(dtype_of(k), profile)
                if isinstance(v, dict) and "list" in v:
                    v = {"list": v["list"]}          # section[key] = (tuple) is outside the model
            emit(["setitem", k["n"], v])
        elif kind == "delitem":
            emit(["delitem", prop_key() if r.random() < 0.8 else any_key()])
        elif kind == "len":
            emit(["len"])
        elif kind == "items":
            emit(["items"])
        else:
            emit(["reopen"])
    # every kept object is read once more at the end (the only reads of a lazy history besides its `hget`s)
    for hid in sorted(im.handles):
        emit(["hget", hid])
    return ops, outs


# ---------------------------------------------------------------------------------------
# correspondence


FIXED_HISTORIES = [
    # repaired defects 38c9f56 / 578a510 (see ORACLE_FIXED): model and code must agree on them
    [["create", cps("i"), {"list": [jint(1)]}],
     ["extend", {"n": cps("i")}, {"scalar": jnpint("uint64", 2 ** 64 - 1)}],
     ["extend", {"n": cps("i")}, {"scalar": jnpint("uint64", 2 ** 63)}],
     ["extend", {"n": cps("i")}, {"scalar": jnpint("uint64", 2 ** 63 - 1)}],
     ["set", {"n": cps("i")}, {"scalar": jnpint("uint64", 2 ** 63)}],
     ["create", cps("t"), {"list": [jstr("x"), jstr("y")]}],
     ["set", {"n": cps("t")}, {"list": [jstr("a\x00b")]}], ["set", {"n": cps("t")}, {"list": [jstr("a\x00")]}],
     ["extend", {"n": cps("t")}, {"list": [jstr("ok"), jstr("b\x00\x00")]}], ["extend", {"n": cps("t")}, {"scalar": jstr("\x00")}],
     ["extend", {"n": cps("t")}, {"scalar": jnpstr("c\x00")}], ["setitem", cps("t"), {"scalar": jstr("q\x00r")}],
     ["setitem", cps("u"), {"scalar": jstr("q\x00")}], ["create", cps("v"), {"list": [jstr("\x00")]}], ["items"],
     ["get", {"n": cps("t")}]],
    # clear-then-extend, extend after reopen
    [["create", cps("a"), {"list": [jint(1), jint(2), jint(3)]}], ["clear", {"n": cps("a")}],
     ["extend", {"n": cps("a")}, {"list": [jint(4)]}], ["reopen"], ["extend", {"n": cps("a")}, {"scalar": jint(5)}],
     ["get", {"n": cps("a")}], ["getitem", {"n": cps("a")}]],
    # True into an int property, 1 into a bool property, at every position
    [["create", cps("i"), {"list": [jint(1), jint(2)]}], ["create", cps("b"), {"list": [jbool(True)]}],
     ["set", {"n": cps("i")}, {"scalar": jbool(True)}], ["set", {"n": cps("i")}, {"list": [jint(5), jbool(True)]}],
     ["set", {"n": cps("i")}, {"list": [jbool(True), jint(5)]}], ["extend", {"n": cps("i")}, {"list": [jint(5), jint(6), jbool(False)]}],
     ["set", {"n": cps("b")}, {"scalar": jint(1)}], ["set", {"n": cps("b")}, {"list": [jbool(True), jint(0)]}],
     ["extend", {"n": cps("b")}, {"list": [jint(1)]}], ["extend", {"n": cps("b")}, {"list": [jnpbool(False), jbool(True)]}],
     ["create", cps("m"), {"list": [jint(1), jbool(True)]}], ["create", cps("m2"), {"list": [jbool(True), jint(1)]}]],
    # empty / non-ASCII text, NaN payloads, int64 extremes, arrays
    [["create", cps("t"), {"list": [jstr(""), jstr("äö€"), jstr("\U0001F600")]}], ["set", {"n": cps("t")}, {"scalar": jstr("")}],
     ["extend", {"n": cps("t")}, {"scalar": jstr("")}], ["create", cps("d"), {"list": [jfloatbits(0x7FF8000000000001), jfloatbits(0x8000000000000000)]}],
     ["extend", {"n": cps("d")}, {"list": [jfloatbits(0x7FF4000000000000), jfloatbits(0xFFF0000000000000)]}],
     ["create", cps("i"), {"list": [jint(INT64_MAX), jint(INT64_MIN)]}], ["set", {"n": cps("i")}, {"list": [jint(INT64_MAX + 1)]}],
     ["extend", {"n": cps("i")}, {"list": [jint(1), jint(INT64_MIN - 1)]}],
     ["extend", {"n": cps("i")}, {"nd": {"dt": "int64", "shape": [2, 2], "data": [{"i": "1"}, {"i": "2"}, {"i": "3"}, {"i": "4"}]}}],
     ["set", {"n": cps("i")}, {"nd": {"dt": "int32", "shape": [1], "data": [{"i": "1"}]}}],
     ["create", cps("p"), {"nd": {"dt": "int32", "shape": [2], "data": [{"i": "1"}, {"i": "2"}]}}],
     ["create", cps("q"), {"nd": {"dt": "ustr", "shape": [1], "data": [{"s": cps("x")}]}}], ["items"], ["len"]],
    # dictionary access, precedence, uuid-shaped names
    [["setitem", cps("k"), {"scalar": jint(5)}], ["getitem", {"n": cps("k")}], ["setitem", cps("k"), {"list": [jint(5), jint(6)]}],
     ["getitem", {"n": cps("k")}], ["mksec", cps("k"), cps("t")], ["mksec", cps("only"), cps("t")], ["getitem", {"n": cps("k")}],
     ["getitem", {"n": cps("only")}], ["setitem", cps("only"), {"scalar": jstr("v")}], ["getitem", {"n": cps("only")}], ["items"],
     ["delitem", {"n": cps("only")}], ["getitem", {"n": cps("only")}], ["delitem", {"n": cps("only")}],
     ["setitem", cps(UUID_NAME), {"scalar": jint(1)}], ["contains", {"n": cps(UUID_NAME)}], ["getitem", {"n": cps(UUID_NAME)}],
     ["setitem", cps(UUID_NAME), {"scalar": jint(2)}], ["items"], ["len"], ["delitem", {"i": -1}], ["items"]],
]


HANDLE_OPS = ("hold", "createh", "hset", "hextend", "hclear", "hsetattr", "hsetodml", "hget", "drop")


def _ann(**kw):
    return {"@": kw}


def _two_object_histories():
    """one property, two objects: each way of writing through the one, then reading and extending through the other"""
    out = []
    a = {"n": cps("a")}
    samples = {"int": [jint(1), jint(2), jint(3), jint(4), jint(5), jint(6)],
               "str": [jstr("x"), jstr("ü"), jstr(""), jstr("y"), jstr("zz"), jstr("w")],
               "float": [jfloat(1.5), jfloat(-0.0), jfloat(2.5), jfloatbits(0x7FF8000000000001), jfloat(4.0), jfloat(5.0)],
               "bool": [jbool(True), jbool(False), jbool(True), jbool(True), jbool(False), jbool(False)]}
    writes = [["set", a, None], ["extend", a, None], ["clear", a], ["setitem", cps("a"), None], ["hset", 1, None],
              ["hextend", 1, None], ["hclear", 1]]
    for kind, v in samples.items():
        for w in writes:
            if kind != "int" and w[0] not in ("extend", "setitem", "hclear"):
                continue
            for how in ("getitem", "items"):
                w2 = list(w)
                if w2[-1] is None:
                    w2[-1] = {"list": v[2:3]} if w2[0] in ("extend", "hextend") else {"list": v[3:4]}
                out.append([["createh", 0, cps("a"), {"list": v[0:2]}, _ann(read=True)],
                            ["hold", 1, a, _ann(how=how, read=False)], w2, ["hget", 0],
                            ["hextend", 0, {"list": v[4:6]}], ["hget", 1], ["get", a], ["reopen"], ["get", a]])
    # the attributes and the dictionary view through a second Section object
    out.append([["create", cps("a"), {"list": samples["int"][:2]}, _ann(newsec="name")],
                ["hold", 0, a, _ann(read=True, how="iter")], ["setattr", a, "unit", {"str": cps("mV")}, _ann(newsec="pos")],
                ["hget", 0], ["hsetattr", 0, "definition", {"str": cps("d")}], ["get", a], ["len", _ann(sec=0)],
                ["mksec", cps("sub"), cps("t"), _ann(sec=1)], ["items", _ann(sec=2)], ["iter", _ann(sec=0)],
                ["delitem", a, _ann(sec=1)], ["len", _ann(sec=0)], ["contains", a, _ann(sec=2)], ["hget", 0],
                ["setitem", cps("a"), {"scalar": jstr("t")}, _ann(sec=2)], ["hold", 0, a], ["getitem", a, _ann(sec=0)],
                ["hget", 0]])
    return out


HANDLE_HISTORIES = _two_object_histories()


def compare(model, impl):
    if "handles" not in impl["state"] and "handles" in model.get("state", {}):
        model = dict(model)                       # lazy history: kept objects are read by `hget` only
        model["state"] = dict((k, v) for k, v in model["state"].items() if k != "handles")
    return core.canon(model) == core.canon(impl)


def nontrivial(op, out, prev_state):
    if "err" in out:
        return True
    if core.canon(out["state"]) != core.canon(prev_state):
        return True
    return op[0] in ("getitem", "get", "contains", "items", "iter", "hget", "hold") and \
        out.get("ok") not in (None, False, [])


def op_tag(op):
    op = model_line(op)
    t = op[0]
    if t in ("create", "set", "extend", "setitem", "hset", "hextend", "createh"):
        inp = op[3] if t == "createh" else op[2]
        if inp is None:
            return t + ".none"
        for k in ("scalar", "list", "nd", "type", "S"):
            if k in inp:
                if k == "nd":
                    return "%s.nd.%s.r%d" % (t, inp["nd"]["dt"], len(inp["nd"]["shape"]))
                return t + "." + k
    return t


def correspondence(ctx):
    rng = ctx.rng
    histories = []          # (ops, impl outputs)
    dist = {"ops": {}, "impl_errors": {}, "history_lengths": {}, "profiles": {"valid": 0, "junk": 0, "fixed": 0,
                                                                                "corpus": 0}}
    disagreements = []
    seen = set()
    samples = []
    counters = {"evals": 0, "histories": 0}

    def flush(histories):
        """run one batch through the model driver and compare; batches keep the heap small (nixio's File.close()
        calls gc.collect(), whose cost grows with the number of live objects)"""
        if not histories:
            return
        lines = []
        for ops, _, _ in histories:
            lines.append(["reset"])
            lines.extend(model_line(op) for op in ops)
        mouts = core.run_driver(PROP, lines)
        start = 0
        for ops, iouts, eager in histories:
            pos = start + 1               # after the reset line
            start += 1 + len(ops)
            counters["histories"] += 1
            prev = {"props": [], "secs": []}
            bl = str(min(len(ops) // 10 * 10, 40))
            dist["history_lengths"][bl] = dist["history_lengths"].get(bl, 0) + 1
            for k, (op, io) in enumerate(zip(ops, iouts)):
                mo = mouts[pos]
                pos += 1
                counters["evals"] += 1
                tag = op_tag(op)
                dist["ops"][tag] = dist["ops"].get(tag, 0) + 1
                if "err" in io:
                    dist["impl_errors"][io["err"]] = dist["impl_errors"].get(io["err"], 0) + 1
                if nontrivial(op, io, prev):
                    seen.add(core.sha(core.canon([model_line(op), io.get("ok"), io.get("err")])))
                prev = io["state"]
                if not compare(mo, io):
                    disagreements.append(Disagreement({"ops": ops[:k + 1], "eager": eager}, _brief(mo), _brief(io)))
                    break
            else:
                if len(samples) < 4 and rng.random() < 0.05:
                    samples.append({"case": ops[:3], "model": _brief(mouts[pos - 1])})
        del histories[:]

    n = 0
    batch = []
    for h in core.load_corpus(PROP):
        ops = h["ops"]
        for eager in ((True, False) if any(op[0] in HANDLE_OPS for op in ops) else (True,)):
            batch.append((ops, run_history_impl(ctx, ops, n, eager), eager))
            n += 1
        dist["profiles"]["corpus"] += 1
    for ops in FIXED_HISTORIES + HANDLE_HISTORIES:
        for eager in ((True, False) if any(op[0] in HANDLE_OPS for op in ops) else (True,)):
            batch.append((ops, run_history_impl(ctx, ops, n, eager), eager))
            n += 1
        dist["profiles"]["fixed"] += 1
    g = Gen(rng)
    dist["kept_objects"] = {"histories_with": 0, "eager": 0, "lazy": 0}
    for _ in range(ctx.budget(180, 2500)):
        junky = rng.random() < 0.2
        with_handles = rng.random() < 0.6
        eager = rng.random() < 0.5
        im = Impl(ctx.tmpfile("c10-%d.nix" % n), eager)
        try:
            ops, outs = gen_history(ctx, g, rng.choice([6, 10, 14, 20, 30, 45]), junky, im, handles=with_handles)
        finally:
            im.close()
        batch.append((ops, outs, eager))
        dist["profiles"]["junk" if junky else "valid"] += 1
        if with_handles:
            dist["kept_objects"]["histories_with"] += 1
            dist["kept_objects"]["eager" if eager else "lazy"] += 1
        n += 1
        if len(batch) >= 200:
            flush(batch)
    flush(batch)
    evals = counters["evals"]
    disagreements.sort(key=lambda d: len(d.case["ops"]))
    return {"evaluations": evals, "distinct_nontrivial": len(seen),
            "rule": "histories of 6-45 operations (create / assign / extend / clear / attribute setters / dict-style "
                    "access / create_section / reopen; in 60% of the histories also kept Property objects - obtained by "
                    "lookup, iteration, items() or as create_property's result - that are read, assigned, extended and "
                    "cleared while the same property is written through other objects, and several Section objects of the "
                    "one section taking turns) generated online against one fresh section of a fresh HDF5 file; "
                    "80% mostly-valid profile, 20% junk-heavy profile, plus fixed boundary histories and the corpus; "
                    "after every operation the result and the complete section state (names, ids renamed by first "
                    "occurrence, dtype, values as bit patterns, 8 optional attributes, child sections) are compared with "
                    "the model. non-trivial = operation raised, changed the state or returned a non-empty read; distinct "
                    "by canonical JSON of (operation, result)",
            "samples": samples, "distribution": dist, "disagreements": disagreements, "exhaustive": False,
            "histories": counters["histories"]}


def _brief(o):
    s = dict(o)
    return s


# ---------------------------------------------------------------------------------------
# property oracle on the implementation (independent of the model)


def _is_uuid_like(s):
    try:
        uuid.UUID(str(s))
        return True
    except ValueError:
        return False


def _elem_kind(pv):
    """kind of a candidate element as the *property text* classifies it; None = not one of the four types"""
    c = pv["c"]
    if c in ("bool", "npBool"):
        return "bool"
    if c in ("int", "npInt"):
        return "int"
    if c in ("float", "npFloat"):
        return "float"
    if c in ("str", "npStr"):
        return "str"
    return None


def _expected_cell(pv):
    k = _elem_kind(pv)
    if k == "bool":
        return {"b": bool(pv["v"])}
    if k == "int":
        return {"i": str(int(pv["v"]))}
    if k == "float":
        return {"f": str(int(pv["v"]))}
    return {"s": list(pv["v"])}


def _has_nul(cp):
    return 0 in list(cp)


def _out_of_range_int(inp):
    if not isinstance(inp, dict):
        return False
    vals = [inp["scalar"]] if "scalar" in inp else inp.get("list", [])
    return bool(vals) and all(v.get("c") in ("int", "npInt") for v in vals) and \
        any(not (INT64_MIN <= int(v["v"]) <= INT64_MAX) for v in vals)


def classify(inp):
    """('valid', kind, cells) homogeneous candidate of one of the four types, storable
    ('valid-if-accepted', kind, cells) the same for text containing NUL (may be refused, must not be stored altered);
    ('mixed', kinds) all elements of the four types, more than one type;
    ('array', kind, dt, cells|None) numpy input; None: the property does not say"""
    if inp is None:
        return None
    if "scalar" in inp or "list" in inp:
        vals = [inp["scalar"]] if "scalar" in inp else inp["list"]
        if not vals:
            return None
        kinds = [_elem_kind(v) for v in vals]
        if any(k is None for k in kinds):
            return None
        if "scalar" in inp and kinds[0] == "str" and not vals[0]["v"]:
            return None                      # values = "" is 'no value' (baseline test_empties)
        if len(set(kinds)) > 1:
            return ("mixed", kinds)
        k = kinds[0]
        if k == "int" and any(not (INT64_MIN <= int(v["v"]) <= INT64_MAX) for v in vals):
            return None
        if k == "str" and any(_has_nul(v["v"]) for v in vals):
            # an HDF5 variable-length string cannot hold a NUL: refusing is not a type matter and the property does
            # not ask for it - but if the call succeeds, reading must return exactly this text
            return ("valid-if-accepted", k, [_expected_cell(v) for v in vals])
        return ("valid", k, [_expected_cell(v) for v in vals])
    if "nd" in inp:
        nd = inp["nd"]
        dt = nd["dt"]
        if dt == "bool":
            k = "bool"
        elif dt in INT_W:
            k = "int"
        elif dt in ("float32", "float64"):
            k = "float"
        elif dt == "ustr":
            k = "str"
        else:
            return None
        if not nd["shape"] or 0 in nd["shape"]:
            return None
        return ("array", k, dt, nd["data"], len(nd["shape"]))
    return None


def _find(state, k):
    """the property a props-key refers to, by the plain reading (name / id / position)"""
    props = state["props"]
    if "i" in k:
        i = k["i"]
        if -len(props) <= i < len(props):
            return props[i]
        return None
    for p in props:
        if ("n" in k and p["name"] == k["n"]) or ("id" in k and p["id"] == k["id"]):
            return p
    return None


def effective(op, im):
    """the call on a fresh lookup an operation amounts to (a call through a kept object: the same call with the id of
    its property as key); must be asked *before* the operation runs"""
    op = model_line(op)
    k = op[0]
    if k == "createh":
        return ["create", op[2], op[3]]
    if k == "hold":
        return ["get", op[2]]
    if k == "iter":
        return ["items"]
    if k == "drop":
        return ["noop"]
    if k in ("hset", "hextend", "hclear", "hsetattr", "hsetodml", "hget"):
        cid = im.hids.get(op[1])
        if cid is None or op[1] not in im.handles:
            return ["noop"]
        return [k[1:], {"id": cid}] + list(op[2:])
    return op


def _rec_diff(got, want):
    for f in ("vals", "dtype", "name", "id", "attrs"):
        if core.canon(got.get(f)) != core.canon(want.get(f)):
            return f
    return None


def check_history(ctx, ops, n, label, eager=True):
    """run a history on the implementation and check what C10 states; returns Failures"""
    fails = []
    im = Impl(ctx.tmpfile("c10-or-%d.nix" % n), eager)

    def fail(what, k, observed, required, site):
        fails.append(Failure(what, {"ops": ops[:k + 1], "eager": eager, "from": label}, observed, required, site))

    try:
        prev = im.dump()
        for k, op0 in enumerate(ops):
            op = effective(op0, im)
            held = dict(im.hids)
            out = im.apply(op0)
            st = out["state"]
            kind = op[0]
            # --- one value list per property, whatever object is used: a kept Property object reports what a new one does
            fresh_by_id = dict((p["id"], p) for p in st["props"])
            seen_recs = [("after the call", im.hids.get(int(h)), rec) for h, rec in st.get("handles", {}).items()]
            if op0[0] in ("hget", "hold") and isinstance(out.get("ok"), dict):
                seen_recs.append(("returned", im.hids.get(op0[1]), out["ok"]))
            for when, cid, rec in seen_recs:
                want = fresh_by_id.get(cid)
                if want is None:
                    continue
                d = _rec_diff(rec, want)
                if d == "vals":
                    fail("a kept Property object does not return the values last stored", k, rec["vals"][:8],
                         want["vals"][:8], "Property.values (object kept across writes through other objects)")
                elif d is not None:
                    fail("a kept Property object reports another %s than a new one" % d, k, rec.get(d), want.get(d),
                         "Property (object kept across writes through other objects)")
            before = {p["id"]: p for p in prev["props"]}
            after = {p["id"]: p for p in st["props"]}
            # --- dtype fixed, every value of that dtype (cells are built by class of the value read back)
            for pid, p in after.items():
                if pid in before and before[pid]["dtype"] != p["dtype"]:
                    fail("data type of a property changed", k, p["dtype"], before[pid]["dtype"], "Property.data_type")
                want = {"bool": "b", "string": "s", "float32": "f", "float64": "f"}.get(p["dtype"], "i")
                if any(list(c.keys()) != [want] for c in p["vals"]):
                    fail("stored value is not of the property's data type", k, p["vals"][:4], p["dtype"],
                         "Property.values")
            # --- value-list operations
            if kind in ("set", "extend", "setitem", "create"):
                inp = op[2]
                is_S = isinstance(inp, dict) and "S" in inp
                target = None
                if kind in ("set", "extend"):
                    target = _find(prev, op[1])
                elif kind == "setitem" and not is_S:
                    target = _find(prev, {"n": op[1]})
                    if isinstance(inp, dict) and "list" not in inp and inp is not None:
                        inp = {"list": [inp["scalar"]]} if "scalar" in inp else {"scalar": jother("ndarray")}
                cl = None if is_S else classify(inp)
                if out.get("err") == "TypeError":
                    if len(st["props"]) != len(prev["props"]) or len(st["secs"]) != len(prev["secs"]):
                        fail("a refused (TypeError) call left a new entity behind", k,
                             [from_cps(p["name"]) for p in st["props"]], [from_cps(p["name"]) for p in prev["props"]],
                             "Section.create_property")
                    for pid, p in before.items():
                        if pid not in after or after[pid]["vals"] != p["vals"]:
                            fail("a type error changed stored values", k, after.get(pid, {}).get("vals"), p["vals"],
                                 "Property.values / extend_values")
                if "err" in out and out["err"] != "TypeError":
                    # whatever was raised, a failed store is not a store: the values last stored must still be there
                    changed = len(st["props"]) != len(prev["props"]) or any(
                        pid not in after or after[pid]["vals"] != p["vals"] for pid, p in before.items())
                    if changed:
                        fail("a refused call changed stored values", k, out["err"], "unchanged",
                             "Property.values / extend_values / Section.create_property")
                if target is not None and "err" not in out and target["dtype"] == "int64" and _out_of_range_int(inp):
                    fail("an integer outside int64 was accepted and stored as another value", k,
                         None if after.get(target["id"]) is None else after[target["id"]]["vals"][-3:], "refused",
                         "Property." + kind)
                if target is not None and cl is not None and target["dtype"] in MAIN_DTYPES:
                    pk = KIND_OF_DTYPE[target["dtype"]]
                    now = after.get(target["id"])
                    if cl[0] == "valid-if-accepted" and cl[1] == pk and "err" in out:
                        if now is None or now["vals"] != target["vals"]:
                            fail("a refused assignment changed stored values", k,
                                 None if now is None else now["vals"][:8], target["vals"][:8], "Property." + kind)
                    elif cl[0] in ("valid", "valid-if-accepted") and cl[1] == pk:
                        exp = cl[2] if kind != "extend" else target["vals"] + cl[2]
                        if "err" in out:
                            fail("values of the property's own type were refused", k, out["err"], "stored", "Property." + kind)
                        elif now is None or now["vals"] != exp:
                            fail("reading does not return the values last stored" if kind != "extend" else
                                 "extend did not append after the existing values", k,
                                 None if now is None else now["vals"][:8], exp[:8], "Property." + kind)
                    elif cl[0] in ("valid", "valid-if-accepted", "mixed") or (cl[0] == "array" and cl[1] != pk):
                        if out.get("err") != "TypeError":
                            fail("values of another type / mixed types were not refused with a type error", k,
                                 out.get("err", "accepted"), "TypeError", "Property._check_new_value_types")
                        if now is None or now["vals"] != target["vals"]:
                            fail("a refused assignment changed stored values", k,
                                 None if now is None else now["vals"][:8], target["vals"][:8], "Property." + kind)
                    elif cl[0] == "array" and cl[1] == pk:
                        if "err" not in out:
                            if cl[2] == target["dtype"]:
                                exp = cl[3] if kind != "extend" else target["vals"] + cl[3]
                                if now is None or now["vals"] != exp:
                                    fail("array input was not stored exactly", k, None if now is None else now["vals"][:8],
                                         exp[:8], "Property." + kind)
                        elif now is None or now["vals"] != target["vals"]:
                            fail("a refused array assignment changed stored values", k,
                                 None if now is None else now["vals"][:8], target["vals"][:8], "Property." + kind)
                if kind == "create" and cl is not None and "err" not in out:
                    newp = [p for pid, p in after.items() if pid not in before]
                    if cl[0] == "mixed":
                        fail("a property was created from mixed-type values", k, "created", "TypeError",
                             "Section.create_property")
                    elif cl[0] in ("valid", "valid-if-accepted") and newp:
                        want_dt = {"bool": "bool", "int": "int64", "float": "float64", "str": "string"}[cl[1]]
                        if newp[0]["dtype"] != want_dt or newp[0]["vals"] != cl[2]:
                            fail("created property does not hold the given values with their type", k,
                                 [newp[0]["dtype"], newp[0]["vals"][:8]], [want_dt, cl[2][:8]], "Section.create_property")
                fresh_name = kind == "create" and op[1] and 47 not in op[1] and \
                    all(p["name"] != op[1] for p in prev["props"])
                if fresh_name and cl is not None and cl[0] == "mixed" and out.get("err") != "TypeError":
                    fail("mixed-type values were not refused with a type error", k, out.get("err", "accepted"),
                         "TypeError", "Section.create_property")
            if kind == "clear" and "err" not in out:
                t = _find(prev, op[1])
                if t is not None and after.get(t["id"], {}).get("vals") != []:
                    fail("delete_values left values behind", k, after.get(t["id"], {}).get("vals"), [], "Property.delete_values")
            # --- operations that must not touch (other) value lists
            if kind in ("get", "getitem", "contains", "len", "items", "reopen", "mksec", "setattr", "setodml", "noop"):
                if [(p["id"], p["dtype"], p["vals"]) for p in prev["props"]] != \
                        [(p["id"], p["dtype"], p["vals"]) for p in st["props"]]:
                    fail("%s changed stored values" % kind, k, "state differs", "unchanged", "Section/Property")
            if kind == "reopen" and core.canon(prev) != core.canon(dict((kk, v) for kk, v in st.items() if kk != "handles")):
                fail("state after reopening differs", k, "differs", "identical", "File.open")
            if kind in ("set", "extend", "clear"):
                t = _find(prev, op[1])
                for pid, p in before.items():
                    if (t is None or pid != t["id"]) and (pid not in after or after[pid]["vals"] != p["vals"]):
                        fail("operation on one property changed another", k, pid, "unchanged", "Property." + kind)
            # --- dictionary view, through every Section object the history holds
            done = []
            for sec in im.secs:
                if not any(sec is x for x in done):
                    done.append(sec)
                    fails.extend(dict_checks(im, sec, st, ops, k, label, op, eager))
            prev = dict((kk, v) for kk, v in st.items() if kk != "handles")
            if len(fails) > 20:
                break
    finally:
        im.close()
    return fails


def dict_checks(im, sec, st, ops, k, label, op, eager):
    fails = []

    def fail(what, observed, required, site, extra=None):
        inp = {"ops": ops[:k + 1], "eager": eager, "from": label}
        if extra:
            inp.update(extra)
        fails.append(Failure(what, inp, observed, required, site))

    try:
        pn = [from_cps(p["name"]) for p in st["props"]]
        sn = [from_cps(s["name"]) for s in st["secs"]]
        if len(sec) != len(pn):
            fail("len(section) is not the number of properties", len(sec), len(pn), "Section.__len__")
        it = [n for n, _ in sec.items()]
        if it != pn + sn:
            fail("items() is not properties then sections, in order", it[:10], (pn + sn)[:10], "Section.items")
        for idx, name in enumerate(pn + sn):
            if name in (".",) or "/" in name:
                continue
            if name not in sec:
                fail("dict-membership: a listed name is not `in` the section", False, True, "Section.__contains__",
                     {"key": name})
                continue
            try:
                got = sec[name]
            except Exception as e:
                fail("dict-lookup: section[name] raised for a listed name", type(e).__name__, "value", "Section.__getitem__",
                     {"key": name})
                continue
            if name in pn:
                p = st["props"][pn.index(name)]
                if isinstance(got, im.nix.Section):
                    fail("dict-lookup: a section shadowed a property", "Section", "values", "Section.__getitem__", {"key": name})
                else:
                    cells = [cell_of(v) for v in got] if isinstance(got, list) else [cell_of(got)]
                    if cells != p["vals"] or (isinstance(got, list) and len(got) == 1):
                        fail("dict-lookup: section[name] is not the property's value(s)", cells[:6], p["vals"][:6],
                             "Section.__getitem__", {"key": name})
            elif not isinstance(got, im.nix.Section) or got.name != name:
                fail("dict-lookup: section[name] is not the child section", repr(got)[:60], name, "Section.__getitem__",
                     {"key": name})
        for name in ("never-used-name", "zz9"):
            if name not in pn + sn:
                if name in sec:
                    fail("dict-membership: an unused name is `in` the section", True, False, "Section.__contains__", {"key": name})
                try:
                    sec[name]
                    fail("dict-lookup: section[unused] did not raise", "value", "KeyError", "Section.__getitem__", {"key": name})
                except KeyError:
                    pass
        itn = [x.name for x in sec]
        if itn != pn + sn:
            fail("iterating the section is not properties then sections, in order", itn[:10], (pn + sn)[:10],
                 "Section.__iter__")
        if op[0] == "delitem" and "n" in op[1]:
            name = from_cps(op[1]["n"])
            if name not in pn and name not in sn and name in sec:
                fail("dict-membership: deleted key still present", True, False, "Section.__delitem__", {"key": name})
    except Exception as e:  # an exception in the consistency probes themselves is a finding of its own
        fail("dictionary access raised %s" % type(e).__name__, str(e)[:100], "no exception", "Section")
    return fails


NUL_HISTORY = [["create", cps("t"), {"list": [jstr("x"), jstr("y")]}],
               ["set", {"n": cps("t")}, {"list": [jstr("a\x00b")]}]]


TRAILING_NUL_HISTORY = [["create", cps("t"), {"list": [jstr("x")]}],
                        ["set", {"n": cps("t")}, {"list": [jstr("a\x00")]}],
                        ["extend", {"n": cps("t")}, {"list": [jstr("b\x00\x00")]}]]

UINT64_HISTORY = [["create", cps("i"), {"list": [jint(1)]}],
                  ["extend", {"n": cps("i")}, {"scalar": jnpint("uint64", 2 ** 64 - 1)}],
                  ["extend", {"n": cps("i")}, {"list": [jnpint("uint64", 2 ** 64 - 1)]}],
                  ["set", {"n": cps("i")}, {"scalar": jnpint("uint64", 2 ** 63)}]]

ORACLE_FIXED = [
    # repaired in /repo (38c9f56: a bare np.uint64 scalar beyond int64 used to wrap around in extend_values; 578a510: text
    # containing NUL used to be refused after the resize / to lose its trailing NULs)
    ("bare-uint64-scalar", UINT64_HISTORY),
    ("nul-text", NUL_HISTORY),
    ("trailing-nul-text", TRAILING_NUL_HISTORY),
    # repaired in /repo (999983a, 563d8d3): overflow used to truncate / zero-pad, failed creates left a property
    ("overflow-after-resize", [["create", cps("i"), {"list": [jint(1), jint(2), jint(3)]}],
                               ["set", {"n": cps("i")}, {"list": [jint(5), jint(2 ** 63)]}],
                               ["create", cps("j"), {"list": [jint(2 ** 63)]}],
                               ["create", cps("u"), {"list": [jstr("a\x00b")]}], ["items"]]),
    # repaired in /repo (fix: create_property from a numpy array whose dtype differs ...): used to leave 'p' = (0, 0)
    ("create-from-int32-array", [["create", cps("p"), {"nd": {"dt": "int32", "shape": [2], "data": [{"i": "1"}, {"i": "2"}]}}],
                                 ["create", cps("q"), {"nd": {"dt": "ustr", "shape": [1], "data": [{"s": cps("x")}]}}],
                                 ["create", cps("r"), {"nd": {"dt": "float32", "shape": [1], "data": [{"f": "1065353216"}]}}],
                                 ["items"]]),
    ("uuid-shaped-name", [["setitem", cps(UUID_NAME), {"scalar": jint(1)}], ["len"]]),
    ("uuid-shaped-create", [["create", cps("01234567-89ab-cdef-0123-456789abcdef"), {"list": [jstr("x")]}], ["items"]]),
]


def gen_oracle_history(ctx, g, n_ops, n, eager=True):
    im = Impl(ctx.tmpfile("c10-og-%d.nix" % n), eager)
    try:
        ops, _ = gen_history(ctx, g, n_ops, False, im, handles=g.rng.random() < 0.7)
    finally:
        im.close()
    return ops


def oracle(ctx, broken, hints):
    rng = ctx.rng
    histories = []
    for h in hints[:60]:
        histories.append(("hint", h["ops"], h.get("eager", True)))
    for h in core.load_corpus(PROP):
        histories.append(("corpus", h["ops"], True))
    for i, ops in enumerate(FIXED_HISTORIES):
        histories.append(("fixed-%d" % i, ops, True))
    for i, ops in enumerate(HANDLE_HISTORIES):
        histories.append(("kept-%d" % i, ops, i % 2 == 0))
    for name, ops in ORACLE_FIXED:
        histories.append((name, ops, True))
    g = Gen(rng, clean=True)
    if broken:
        nh = 400 if ctx.quick() else 2500
    else:
        nh = 60 if ctx.quick() else 600
    base = len(histories)
    for i in range(nh):
        eager = rng.random() < 0.5
        histories.append(("random", gen_oracle_history(ctx, g, rng.choice([8, 14, 22, 35]), base + i, eager), eager))
    failures = []
    seen = set()
    evals = 0
    for n, (label, ops, eager) in enumerate(histories):
        evals += len(ops)
        for f in check_history(ctx, ops, 100000 + n, label, eager):
            key = (f.what, core.canon(f.input.get("key")), len(f.input["ops"]) if label != "random" else 0,
                   core.canon(f.input["ops"][-1][:2]))
            if key not in seen:
                seen.add(key)
                failures.append(f)
    failures.sort(key=lambda f: (0 if f.input.get("key") is None else 1, len(core.canon(f.input))))
    return {"evaluations": evals, "histories": len(histories), "failures": failures}


def matches_known(entry, failure):
    """C10 has no open known finding: the three of round 2 (NUL text refused after the resize, trailing NUL dropped, bare
    np.uint64 scalar wrapping) are repaired in /repo (38c9f56, 578a510); their histories stay in ORACLE_FIXED and in
    the corpus, so a regression is a VIOLATION again."""
    return False


def replay_failure(ctx, fj):
    fs = check_history(ctx, fj["input"]["ops"], 999998, "replay", fj["input"].get("eager", True))
    for f in fs:
        if f.what == fj["what"]:
            return f
    return fs[0] if fs else None
