"""C19 — timestamps (nixio/entity.py, util/util.py, file.py and every entity module's setters)."""
import calendar
import contextlib
import inspect
import io
import os
import warnings

from ..lib import core
from ..lib.core import Failure, Disagreement
from ..extract import setters as _ex
from ..extract import timeshape as _ex_time

PROP = "C19"
LEAN_MODULE = "NixModel.Props.C19"
THEOREMS = [
    "Nix.C19.C19_roundtrip",
    "Nix.C19.C19_time_to_str_follows_source",
    "Nix.C19.C19_epoch_is_source",
    "Nix.C19.C19_str_to_time_follows_source",
    "Nix.C19.C19_roundtrip_source_formats",
    "Nix.C19.C19_no_unguarded_stamp",
    "Nix.C19.C19_unguarded_would_stamp",
    "Nix.C19.C19_switch_off_call_unchanged",
    "Nix.C19.C19_file_members_never_stamp",
    "Nix.C19.C19_reopen_keeps_stamps",
    "Nix.C19.C19_stamp_sites",
    "Nix.C19.C19_foreign_calls",
    "Nix.C19.C19_no_foreign_elsewhere",
    "Nix.C19.C19_delegates_are_entity_members",
    "Nix.C19.C19_delegating_is_two_calls",
    "Nix.C19.C19_no_delegation_without_foreign",
    "Nix.C19.C19_delegating_switch_off",
    "Nix.C19.C19_created_fixed",
    "Nix.C19.C19_monotone",
    "Nix.C19.C19_monotone_from_open",
    "Nix.C19.C19_auto_off",
    "Nix.C19.C19_listed_setters_touch_self",
    "Nix.C19.C19_listed_refusal_unstamped",
    "Nix.C19.C19_auto_on_local",
    "Nix.C19.C19_accepted_outcome_determined",
    "Nix.C19.C19_only_target",
    "Nix.C19.C19_untargeted_history",
    "Nix.C19.C19_listed_update_persists",
    "Nix.C19.C19_refused_unchanged",
    "Nix.C19.C19_listed_refused_unchanged",
    "Nix.C19.C19_getters_read_store",
    "Nix.C19.C19_observe_is_stored",
    "Nix.C19.C19_create_stamps_now",
    "Nix.C19.C19_copy_keeps_source_stamps",
    "Nix.C19.C19_force_roundtrip",
    "Nix.C19.C19_force_refused_unchanged",
    "Nix.C19.C19_force_only_own_stamp",
    "Nix.C19.C19_link_setters_touch_linked",
    "Nix.C19.C19_link_setter_local",
    "Nix.C19.C19_touch_targets",
    "Nix.C19.C19_helpers_never_stamp",
    "Nix.C19.C19_helper_call_unchanged",
    "Nix.C19.C19_creators_stamp_both",
    "Nix.C19.C19_factories_stamp_both",
    "Nix.C19.C19_factories_cover_kinds",
    "Nix.C19.C19_create_refines_source",
    "Nix.C19.C19_file_init_effect",
    "Nix.C19.C19_open_refines_source",
    "Nix.C19.C19_switch_written_only_by_assignment",
    "Nix.C19.C19_switch_follows_assignments",
    "Nix.C19.C19_calls_keep_switch",
    "Nix.C19.C19_listed_stamped_after_any_history",
]
ASSUMPTIONS = [
    "CPython's datetime (utcfromtimestamp, strftime with glibc's unpadded %Y, strptime, datetime subtraction) is "
    "replaced by the Lean stand-in Py.Civil / Pure.Time; strptime is modelled on the canonical 15-character shape only "
    "(its one-digit-field leniency concerns strings nixio never writes for years >= 1000); the format-driven "
    "conversions of Pure.TimeFormat (what %Y %m %d %H %M %S and a literal mean: unpadded year when formatting, "
    "fixed-width fields and case-insensitive literals when parsing) are proved equal to them for the format strings "
    "and the epoch read from the source",
    "C19_roundtrip / C19_force_roundtrip / C19_monotone are stated for whole seconds 0 <= t < 4102444800 (1970..2100), "
    "the range the property names; outside it the model follows the code (unpadded years < 1000 do not round-trip)",
    "the clock is `nixio.util.now_int` (the name every nixio module calls), replaced by a controlled value during the "
    "differential runs; one operation reads one clock value",
    "on which paths of which setter the auto-update idiom runs is regenerated from the source on every run "
    "(Generated/Setters.lean: outcomes = exit x touch state per member, an over-approximation of the real paths: "
    "conditions are not interpreted, every statement that calls / subscripts / deletes is a possible raise point; a "
    "path that runs `self.force_updated_at()` outside the switch test is the touch state `always`, which the model "
    "follows also with the switch off - the source has none: C19_no_unguarded_stamp; methods of other objects do not "
    "touch THIS object's stamps - which stamping members a body invokes on OTHER objects is the generated "
    "`Member.foreign`, by name, and the member sweep with the switch on compares what every public member of every "
    "class really stamps with outcomes + foreign); a call of the model takes one of these "
    "outcomes, the harness does not observe which path the implementation took (it says accepted / refused, the driver "
    "picks the outcome, and refuses to predict when the returning paths of a member disagree); that a setter's "
    "validation precedes its write, and what a creation leaves when the clock is outside the years 1..9999, is covered "
    "by the correspondence only / not modelled",
    "the created_at / updated_at getters are modelled through their generated body shape (parse the stored attribute); "
    "handles have no state in the model, which the oracle checks on the implementation by reading every stamp through "
    "fresh and kept handles",
    "creation: the translator reads the statements of create_new / create_* that concern the new entity (super chain, "
    "force calls, setters and methods run on it, anything naming the machinery); conditions are not interpreted (a "
    "setter under a condition may or may not have run); copies (create_*(copy_from=...), copy_section) are modelled "
    "for every copyable kind with everything the source owns (`Op.copy`: the copies carry the stamps of their "
    "sources, the k-th copy those of the k-th member of the source's subtree); they occur in the scene of the value "
    "matrix and in the random histories; links of the copies (which object a copied tag refers to) are not modelled",
    "a call on a sub-object is modelled as a call on behalf of an entity: dimension setters / link methods on behalf of "
    "the array that owns the dimension, the label / unit setters of a LINKED dimension (DimensionLink) on behalf of the "
    "linked data object; which object a link points to is not modelled (the harness names it); the call as the program "
    "makes it (`dim.label = v` on the linked dimension, `section[name] = v` for a name in use) is `callDelegating`, "
    "admitted only through a name in the generated `foreign` list and proved equal to the two-call history "
    "(C19_delegating_is_two_calls); the delegating histories of the correspondence run it against the implementation",
    "the switch as the user set it (open argument, assignment, re-open argument) is what the oracle judges by; the "
    "File object's own value is compared with the model after every operation",
    "uuid4 freshness; HDF5 attribute storage modelled, not verified",
]
TRUSTED_EXTRA = ["harness/extract/setters.py recognises the idiom `if self.file.auto_update_timestamps: "
                 "self.force_updated_at()` (the inline variant of feature.py, and the variant of DimensionLink that "
                 "stamps the linked data object `lobj = self._linked_group()`) by AST in every method of every class, "
                 "computes by a path-sensitive flow analysis (if / loops / try / with / early return / raise, calls "
                 "through self summarised to a fixpoint) the reachable (exit, touch state) pairs of every member, "
                 "verifies the shape of force_created_at / force_updated_at, renders the body shape of the created_at / "
                 "updated_at getters and Python's MRO; classifies every place of nixio/**/*.py that names the switch "
                 "(switchUses); renders the steps every create_new class method, every create_* factory and "
                 "File.__init__ perform on the new entity's stamps (Generated/Creation.lean); lists the stamping "
                 "member names every body invokes on objects other than the bare `self` (Member.foreign, closure over "
                 "calls through self) and every place of nixio/**/*.py that names the machinery, classified by where it "
                 "stands (stampSites)",
                 "harness/extract/timeshape.py recognises the bodies of util.time_to_str / str_to_time statement by "
                 "statement and renders the strftime / strptime format strings as piece lists and the epoch date "
                 "(Generated/TimeShape.lean)"]

T2100 = 4102444800
KINDS = ["file", "block", "group", "data_array", "data_frame", "tag", "multi_tag", "source", "section", "property",
         "feature"]
CLS_OF = {"file": "File", "block": "Block", "group": "Group", "data_array": "DataArray", "data_frame": "DataFrame",
          "tag": "Tag", "multi_tag": "MultiTag", "source": "Source", "section": "Section", "property": "Property",
          "feature": "Feature"}
# the attribute list of the property text, as member names
LISTED = ["type", "definition", "label", "unit", "polynom_coefficients", "expansion_origin", "position", "extent",
          "units", "positions", "extents", "reference", "repository", "link_type", "data", "append_set_dimension",
          "append_sampled_dimension", "append_range_dimension", "append_range_dimension_using_self"]


def extract(repo):
    out = dict(_ex.extract(repo))
    out.update(_ex_time.extract(repo))
    return out


def _nix():
    import nixio
    return nixio


# ---------------------------------------------------------------------------------------
# controlled clock


class Clock:
    def __init__(self):
        self.t = 0
        self.reads = 0

    def __call__(self):
        self.reads += 1
        return self.t


@contextlib.contextmanager
def patched_clock(clock):
    """replace the library clock: `util.now_int()` in every nixio module resolves to the attribute `now_int` of the
    package `nixio.util`; `nixio.util.util.now_int` is patched as well"""
    import nixio.util as U
    import nixio.util.util as UU
    old = (U.now_int, UU.now_int)
    U.now_int = clock
    UU.now_int = clock
    try:
        # (Block.create_multi_tag prints a message when it refuses a call)
        with warnings.catch_warnings(), contextlib.redirect_stdout(io.StringIO()):
            warnings.simplefilter("ignore")
            yield
    finally:
        U.now_int, UU.now_int = old


def exc_name(e):
    from nixio import exceptions as X
    if isinstance(e, (X.InvalidAttrType, TypeError)):
        return "TypeError"
    if isinstance(e, AttributeError):
        return "AttributeError"
    if isinstance(e, (ValueError, OverflowError, OSError)):
        return "ValueError"
    return type(e).__name__


# ---------------------------------------------------------------------------------------
# the implementation session: executes the ops of a case against a real file


class Session:
    """ents[i] mirrors the model's entity i: kind, parent, alive, name, id"""

    def __init__(self, path, clock, keep=True):
        self.path = path
        self.clock = clock
        self.f = None
        self.ents = []
        self.counter = 0
        # handles that stay alive next to the freshly fetched ones: entity index -> [(route, object)]
        # (the object a create_* call returned, and objects obtained through links: mtag.positions, feature.data,
        # group.data_arrays[name], entity.metadata ...); every time stamp is read through all of them
        self.keep = keep
        self.kept = {}
        self.last_call = None

    # -- handles -------------------------------------------------------------------------
    def fetch(self, i, memo=None):
        """a freshly built handle of entity i (looked up from the file object down); `memo` shares the handles of
        the owners within one reading pass"""
        if memo is not None and i in memo:
            return memo[i]
        o = self._fetch(i, memo)
        if memo is not None:
            memo[i] = o
        return o

    def _fetch(self, i, memo):
        e = self.ents[i]
        k = e["kind"]
        if k == "file":
            return self.f
        p = self.fetch(e["parent"], memo)
        n = e["name"]
        if k == "block":
            return p.blocks[n]
        if k == "section":
            return p.sections[n]
        if k == "property":
            return p.props[n]
        if k == "feature":
            return p.features[e["id"]]
        if k == "source":
            return p.sources[n]
        return getattr(p, {"group": "groups", "data_array": "data_arrays", "data_frame": "data_frames",
                           "tag": "tags", "multi_tag": "multi_tags"}[k])[n]

    def alive(self, kind=None):
        return [i for i, e in enumerate(self.ents) if e["alive"] and (kind is None or e["kind"] == kind)]

    # -- kept handles --------------------------------------------------------------------
    def keep_handle(self, i, route, obj):
        if not self.keep or obj is None or i is None:
            return
        try:
            if self.ents[i]["kind"] != "file" and obj.id != self.ents[i]["id"]:
                return
        except Exception:
            return
        lst = self.kept.setdefault(i, [])
        if len(lst) < 4 and all(r != route for r, _ in lst):
            lst.append((route, obj))

    def actor(self, i, h):
        """the object an operation is performed through: h = 0 a freshly fetched handle, h = k > 0 the k-th kept
        handle of the entity (a fresh one when there is none)"""
        lst = self.kept.get(i) or []
        if h and lst:
            return lst[(h - 1) % len(lst)][1]
        return self.fetch(i)

    def views(self):
        """time stamps as the kept handles report them: [entity, route, created_at, updated_at]"""
        out = []
        for i in self.alive():
            for route, o in self.kept.get(i, []):
                row = [i, route]
                for a in ("created_at", "updated_at"):
                    try:
                        row.append(getattr(o, a))
                    except Exception as ex:
                        row.append("ERR:" + exc_name(ex))
                out.append(row)
        return out

    def stamps(self):
        out = []
        memo = {}
        for i in self.alive():
            row = [i]
            try:
                o = self.fetch(i, memo)
            except Exception as ex:
                out.append([i, "FETCH:" + type(ex).__name__, "FETCH:" + type(ex).__name__])
                continue
            for a in ("created_at", "updated_at"):
                try:
                    row.append(getattr(o, a))
                except Exception as ex:
                    row.append("ERR:" + exc_name(ex))
            out.append(row)
        return out

    def walk_ids(self):
        """ids of every entity reachable through the public API (to detect objects the session does not track)"""
        ids = []

        def src(s):
            ids.append(s.id)
            for c in s.sources:
                src(c)

        def sec(s):
            ids.append(s.id)
            for p in s.props:
                ids.append(p.id)
            for c in s.sections:
                sec(c)
        for b in self.f.blocks:
            ids.append(b.id)
            for cont in (b.groups, b.data_arrays, b.data_frames):
                for x in cont:
                    ids.append(x.id)
            for cont in (b.tags, b.multi_tags):
                for t in cont:
                    ids.append(t.id)
                    for ft in t.features:
                        ids.append(ft.id)
            for s in b.sources:
                src(s)
        for s in self.f.sections:
            sec(s)
        return sorted(ids)

    def tracked_ids(self):
        return sorted(self.ents[i]["id"] for i in self.alive() if self.ents[i]["kind"] != "file")

    # -- operations ----------------------------------------------------------------------
    def open(self, clock, auto):
        nix = _nix()
        self.clock.t = clock
        self.f = nix.File.open(self.path, nix.FileMode.Overwrite, auto_update_timestamps=auto)
        self.ents = [{"kind": "file", "parent": 0, "alive": True, "name": None, "id": None}]
        self.kept = {}

    def close(self):
        if self.f is not None:
            try:
                self.f.close()
            except Exception:
                pass
            self.f = None

    def special(self, v):
        """markers for values JSON cannot carry: "@object" an object(), "@big" an integer outside int64, "@nul" text
        with an embedded NUL, "@int" a bare int where an entity is expected, ["@ref", i] the entity i"""
        if isinstance(v, str) and v.startswith("@"):
            if v == "@object":
                return object()
            if v == "@big":
                return 2 ** 70
            if v == "@nul":
                return "a\0b"
            if v == "@int":
                return 5
            if v == "@type_object":
                return object
        if isinstance(v, list) and len(v) == 2 and v[0] == "@ref":
            return self.fetch(v[1])
        if isinstance(v, list):
            return [self.special(x) for x in v]
        return v

    def do_create(self, kind, parent, inp, args):
        nix = _nix()
        p = self.fetch(parent)
        name = self.special(args.get("name"))
        typ = args.get("type", "t")
        if kind == "block":
            o = p.create_block(name, typ)
        elif kind == "section":
            o = p.create_section(name, typ)
        elif kind == "group":
            o = p.create_group(name, typ)
        elif kind == "source":
            o = p.create_source(name, typ)
        elif kind == "data_array":
            kw = {k: self.special(args[k]) for k in ("dtype", "unit", "label") if k in args}
            if "shape" in args:
                kw["shape"] = tuple(args["shape"])
            o = p.create_data_array(name, typ, data=self.special(args.get("data", [1.0, 2.0, 3.0])), **kw)
        elif kind == "data_frame":
            types = {"int": int, "float": float, "str": str}
            cols = args.get("cols", {"a": "int", "b": "float"})
            if cols is not None:
                cols = {k: types.get(v, self.special(v)) for k, v in cols.items()}
            data = args.get("data", [(1, 1.5), (2, 2.5)])
            if data is not None:
                data = [tuple(r) if isinstance(r, list) else r for r in data]
            o = p.create_data_frame(name, typ, col_dict=cols, data=data)
        elif kind == "tag":
            o = p.create_tag(name, typ, self.special(args.get("position", [1.0])))
        elif kind == "multi_tag":
            pos = self.fetch(args["positions"]) if isinstance(args.get("positions"), int) \
                else self.special(args.get("positions"))
            kw = {}
            if "extents" in args:
                kw["extents"] = self.fetch(args["extents"]) if isinstance(args["extents"], int) \
                    else self.special(args["extents"])
            o = p.create_multi_tag(name, typ, pos, **kw)
        elif kind == "property":
            o = p.create_property(name, self.special(args.get("values", [1, 2])))
        elif kind == "feature":
            d = self.fetch(args["data"]) if isinstance(args.get("data"), int) else self.special(args.get("data"))
            o = p.create_feature(d, args.get("link_type", "untagged"))
        else:
            raise RuntimeError("unknown kind")
        self.ents.append({"kind": kind, "parent": parent, "alive": True, "name": getattr(o, "name", None),
                          "id": o.id})
        me = len(self.ents) - 1
        self.keep_handle(me, "returned by create_%s" % kind, o)
        if kind == "multi_tag" and isinstance(args.get("positions"), int):
            self.keep_handle(args["positions"], "multi_tag.positions", o.positions)
        if kind == "feature" and isinstance(args.get("data"), int):
            self.keep_handle(args["data"], "feature.data", o.data)

    def subtree(self, root):
        """the live entities `root` owns (transitively), `root` first, in index order (owners precede what they own)"""
        inside = {root}
        for i, x in enumerate(self.ents):
            if i > root and x["alive"] and x["parent"] in inside and x["kind"] != "file":
                inside.add(i)
        return sorted(inside)

    def do_copy(self, src, parent, args):
        """owner.create_<kind>(name, copy_from=<entity src>) / owner.copy_section(src, name=...): the copy keeps the id
        of its source by default; what the source owns (features of a tag, everything inside a block, sub-sections
        and properties of a section) is copied with it - every copy is entered, in the order of the sources"""
        p = self.fetch(parent)
        x = self.fetch(src)
        kind = self.ents[src]["kind"]
        keep = args.get("keep_id", True)
        kw = {} if keep else {"keep_copy_id": False}
        if kind in ("data_array", "data_frame", "tag", "multi_tag", "block"):
            o = getattr(p, "create_" + kind)(args["name"], copy_from=x, **kw)
        elif kind == "property":
            o = p.create_property(args["name"], copy_from=x, **kw)
        elif kind == "section":
            o = p.copy_section(x, name=args["name"], **({} if keep else {"keep_id": False}))
        else:
            raise RuntimeError("copies of %s are not modelled" % kind)
        sub = self.subtree(src)
        base = len(self.ents)
        mapped = {}
        for k, i in enumerate(sub):
            e = self.ents[i]
            np_ = parent if i == src else mapped[e["parent"]]
            mapped[i] = base + k
            ent = {"kind": e["kind"], "parent": np_, "alive": True, "name": o.name if i == src else e["name"],
                   "id": None}
            self.ents.append(ent)
            if i == src:
                ent["id"] = o.id
            elif e["kind"] == "feature":
                pos = [ft.id for ft in self.fetch(e["parent"]).features].index(e["id"])
                ent["id"] = self.fetch(np_).features[pos].id
            else:
                ent["id"] = self.fetch(base + k).id
        self.keep_handle(base, "returned by create_%s(copy_from=...)" % kind, o)

    def do_call(self, e, via, m, inp, args):
        nix = _nix()
        o = self.actor(e, args.get("h", 0))
        v = args.get("value")
        ref = args.get("ref")
        if ref is not None:
            v = self.fetch(ref)
        how = args.get("how", "set")
        if v == "@odml_int":
            import nixio.property
            v = nixio.property.OdmlType.Int
        if v == "@linktype_tagged":
            v = nix.LinkType.Tagged
        if args.get("tuple") and isinstance(v, list):
            v = tuple(v)
        v = self.special(v)
        # what the attribute reads as before / after the call (through a fresh handle), to know whether the call
        # *changed* it; a method that adds a dimension always changes the entity when it returns
        observe = (how == "set" and via is None and m in LISTED) or how == "dimlink"
        attr = m
        if how == "dimlink" and self.ents[e]["kind"] == "data_frame" and m == "unit":
            attr = "units"        # the unit of a linked frame column is an element of the frame's `units`
        self.last_call = {"changed": None}
        before = self.read_attr(e, attr) if observe else None
        if how == "set":
            if m == "data_extent" and isinstance(v, list):
                v = tuple(v)
            setattr(o, m, v)
        elif how == "del":
            delattr(o, m.replace("__deleter", ""))
        elif how == "call":
            getattr(o, m)(*self.special(args.get("args", [])), **args.get("kwargs", {}))
        elif how == "setitem":
            o[tuple(args["key"]) if isinstance(args["key"], list) else args["key"]] = v
        elif how == "dim":
            # a setter of the k-th dimension descriptor of the array: array.dimensions[k].<m> = v
            setattr(o.dimensions[args["dim"]], m, v)
        elif how == "dimcall":
            # a method of the k-th dimension descriptor (link_data_array / link_data_frame)
            a = [self.fetch(ref)] if ref is not None else []
            getattr(o.dimensions[args["dim"]], m)(*(a + self.special(args.get("args", []))))
        elif how == "dimlink":
            # the target e is the data object a dimension of the array `owner` is linked to; the assignment goes
            # through that dimension: owner.dimensions[k].<m> = v   (DimensionLink writes e's label / unit)
            setattr(self.actor(args["owner"], args.get("h", 0)).dimensions[args["dim"]], m, v)
        elif how == "container":
            cont = getattr(o, args["container"])
            getattr(cont, m)(v)
        elif how == "container_del":
            cont = getattr(o, args["container"])
            del cont[self.ents[ref]["name"]]
        else:
            raise RuntimeError("unknown call style")
        if observe:
            after = self.read_attr(e, attr)
            if before[0] == "ok" and after[0] == "ok":
                self.last_call["changed"] = before != after
            elif before[0] != after[0]:
                self.last_call["changed"] = True
        elif how == "call" and via is None and m in LISTED:
            self.last_call["changed"] = True
        # a handle on the linked entity obtained through the new link stays alive
        if ref is not None and self.keep:
            try:
                if how == "container" and m == "append":
                    self.keep_handle(ref, "%s.%s[name]" % (self.ents[e]["kind"], args["container"]),
                                     getattr(self.fetch(e), args["container"])[self.ents[ref]["name"]])
                elif how == "set" and m in ("positions", "extents", "data", "metadata", "link"):
                    self.keep_handle(ref, "%s.%s" % (self.ents[e]["kind"], m), getattr(self.fetch(e), m))
            except Exception:
                pass

    def read_attr(self, e, m):
        """canonical reading of attribute m of entity e through a fresh handle"""
        try:
            return ("ok", canon_value(getattr(self.fetch(e), m)))
        except Exception as ex:
            return ("raised", type(ex).__name__)

    def do_force(self, which, e, t, h=0):
        o = self.actor(e, h)
        fn = getattr(o, "force_%s_at" % which)
        if t is None:
            fn()
        else:
            fn(t)

    def do_delete(self, e):
        ent = self.ents[e]
        p = self.fetch(ent["parent"])
        k = ent["kind"]
        if k == "feature":
            del p.features[ent["id"]]
        elif k == "property":
            del p.props[ent["name"]]
        else:
            cont = {"block": "blocks", "section": "sections", "group": "groups", "data_array": "data_arrays",
                    "data_frame": "data_frames", "tag": "tags", "multi_tag": "multi_tags", "source": "sources"}[k]
            del getattr(p, cont)[ent["name"]]
        dead = {e}
        for i, x in enumerate(self.ents):
            if i > 0 and x["parent"] in dead and i not in dead:
                dead.add(i)
        for i in dead:
            self.ents[i]["alive"] = False
            self.kept.pop(i, None)

    def apply(self, op, observe=True):
        """-> {"res":…, "auto":…, "stamps":…}  canonicalised like the driver's output (observe=False: the operation is
        performed, the file is not read afterwards)"""
        nix = _nix()
        name = op[0]
        args = op[-1] if isinstance(op[-1], dict) else {}
        res = "done"
        self.last_call = None
        self.last_views = []
        try:
            if name == "open":
                self.close()
                self.open(op[1], op[2])
            elif name == "create":
                self.do_create(op[1], op[2], op[3], args)
            elif name == "copy":
                self.do_copy(op[1], op[2], args)
            elif name == "call":
                self.do_call(op[1], op[2], op[3], op[4], args)
            elif name == "call_delegating":
                # the call as the program makes it (its body hands work to a member of another entity, which the
                # op names for the model)
                self.do_call(op[1], op[2], op[3], op[4], args)
            elif name == "force_created":
                self.do_force("created", op[1], op[2], args.get("h", 0))
            elif name == "force_updated":
                self.do_force("updated", op[1], op[2], args.get("h", 0))
            elif name == "set_auto":
                self.f.auto_update_timestamps = op[1]
            elif name == "set_clock":
                self.clock.t = op[1]
            elif name == "delete":
                self.do_delete(op[1])
            elif name == "reopen":
                self.kept = {}
                self.f.close()
                self.f = nix.File.open(self.path, nix.FileMode.ReadWrite, auto_update_timestamps=op[1])
            else:
                return {"bad": "unknown op"}
        except Exception as ex:
            res = "raised:" + exc_name(ex)
            self.last_exc = "%s: %s" % (type(ex).__name__, str(ex)[:200])
        if name == "set_clock" and res == "done" and getattr(self, "last_out", None) is not None:
            # only the harness's clock variable changed, no library code ran: what the file and the handles
            # report is what they reported after the previous operation
            out = {k: v for k, v in self.last_out.items() if k != "untracked"}
            out["res"] = "done"
            self.last_views = self.last_views_kept
            return out
        if not observe:
            self.last_out = None
            return {"res": res, "auto": bool(self.f.auto_update_timestamps), "stamps": None}
        out = {"res": res, "auto": bool(self.f.auto_update_timestamps), "stamps": self.stamps()}
        self.last_out = out
        self.last_views_kept = []
        if self.keep:
            # a handle obtained earlier must report what a fresh handle reports (the model has no per-handle state:
            # the key is present only when they differ)
            fresh = {r[0]: r[1:] for r in out["stamps"]}
            self.last_views = self.last_views_kept = self.views()
            stale = [r for r in self.last_views if fresh.get(r[0]) != r[2:]]
            if stale:
                out["stale_handles"] = stale[:4]
        if name in ("set_clock", "set_auto", "force_created", "force_updated") or (
                name == "call" and args.get("how", "set") == "set"):
            return out       # assignments and session operations neither add nor remove entities
        w, t = self.walk_ids(), self.tracked_ids()
        if w != t:
            out["untracked"] = {"walk": len(w), "tracked": len(t)}
        return out


def canon_value(v):
    """attribute values in a comparable form (entities by id and name, sequences as lists, enums by value)"""
    import numpy as np
    if v is None or isinstance(v, (str, bool, int, float)):
        return v
    if isinstance(v, bytes):
        return v.decode("utf-8", "replace")
    if isinstance(v, np.generic):
        return v.item()
    if isinstance(v, (list, tuple, np.ndarray)):
        return [canon_value(x) for x in v]
    if hasattr(v, "id") and hasattr(v, "_h5group"):
        # id AND name: a copy made with copy_from=... keeps the id of its source, yet is another entity
        try:
            return ["entity", v.id, v.name]
        except Exception:
            return ["entity", v.id]
    if hasattr(v, "value") and hasattr(v, "name"):
        return ["enum", canon_value(v.value)]
    return repr(v)


def canon_model(op, m):
    """bring the driver's answer to the comparison form"""
    if "ok" not in m:
        return m
    o = dict(m["ok"])
    r = o["res"]
    if r == "done":
        pass
    elif op[0] in ("force_created", "force_updated") and r.startswith("err:"):
        r = "raised:" + r[4:]
    else:
        r = "raised"
    o["res"] = r
    return o


def canon_impl(op, i):
    if "res" not in i:
        return i
    o = {k: v for k, v in i.items() if k != "exc"}
    r = o["res"]
    if r.startswith("raised") and op[0] not in ("force_created", "force_updated"):
        r = "raised"
    o["res"] = r
    return o


# ---------------------------------------------------------------------------------------
# catalogue of setter calls: kind -> list of (member, via, input class, args builder)
# args builders get (gen) and return the args dict or None when not applicable now


def _v(value, **kw):
    d = {"how": "set", "value": value}
    d.update(kw)
    return d


def _call(*a, **kw):
    return {"how": "call", "args": list(a), "kwargs": kw}


ENTITY_COMMON = [
    ("type", None, "good", lambda g: _v(g.word())),
    ("type", None, "early", lambda g: _v(None)),
    ("type", None, "early", lambda g: _v(5)),
    ("definition", None, "good", lambda g: _v(g.word())),
    ("definition", None, "good", lambda g: _v(None)),
    ("definition", None, "early", lambda g: _v(5)),
]


def _meta(g):
    s = g.pick("section")
    return None if s is None else {"how": "set", "ref": s}


META = [("metadata", None, "good", _meta), ("metadata", None, "early", lambda g: _v(None)),
        ("metadata__deleter", None, "good", lambda g: {"how": "del"})]


def _link(container, kind, same_block=True):
    def f(g):
        x = g.pick(kind, block_of=g.cur if same_block else None)
        if x is None or g.linked(g.cur, container, x):
            return None
        return {"how": "container", "container": container, "ref": x}
    return f


def _src_link(g):
    x = g.pick("source", block_of=g.cur)
    if x is None or g.linked(g.cur, "sources", x):
        return None
    return {"how": "container", "container": "sources", "ref": x}


def _foreign_link(container, kind):
    """an entity of the right kind that lives in ANOTHER block: the link list refuses it"""
    def f(g):
        x = g.foreign(kind, g.cur)
        return None if x is None else {"how": "container", "container": container, "ref": x}
    return f


def _wrong_kind_link(container, kind):
    """an entity of another kind: the link list refuses it"""
    def f(g):
        x = g.pick(kind, block_of=g.cur)
        return None if x is None else {"how": "container", "container": container, "ref": x}
    return f


def _foreign_ref(kind):
    def f(g):
        x = g.foreign(kind, g.cur)
        return None if x is None else {"how": "set", "ref": x}
    return f


# refused calls beyond a wrongly typed argument: entities of another block, of the wrong kind, values that pass the
# type test but cannot be stored, out-of-range keys, ... (all refused with nothing written: input class "early")
REFUSED_CALLS = {
    "block": [("metadata", None, "early", lambda g: _v("@int"))],
    "group": [
        ("append", "LinkContainer", "early", _foreign_link("data_arrays", "data_array")),
        ("append", "LinkContainer", "early", _wrong_kind_link("data_arrays", "tag")),
        ("append", "LinkContainer", "early", _foreign_link("tags", "tag")),
        ("append", "SourceLinkContainer", "early", _foreign_link("sources", "source")),
    ],
    "data_array": [
        ("polynom_coefficients", None, "early", lambda g: _v(["a"])),
        ("polynom_coefficients", None, "early", lambda g: _v([[1.0], [2.0]])),
        ("label", None, "early", lambda g: _v("@nul")),
        ("definition", None, "early", lambda g: _v("@nul")),
        ("append", None, "early", lambda g: _call(["x"])),
        ("write_direct", None, "early", lambda g: _call([4.0] * (g.size() + 2))),
        ("__setitem__", None, "early", lambda g: {"how": "setitem", "key": 99, "value": 9.0}),
        ("append_set_dimension", None, "early", lambda g: _call([1, 2])),
        ("append_sampled_dimension", None, "early", lambda g: _call("x")),
        ("append_range_dimension", None, "early", lambda g: _call(["a"])),
        ("append", "SourceLinkContainer", "early", _foreign_link("sources", "source")),
    ],
    "data_frame": [
        ("units", None, "early", lambda g: _v(["mV"])),
        ("append_rows", None, "early", lambda g: _call([["x", "y"]])),
    ],
    "tag": [
        ("position", None, "early", lambda g: _v(["not", "a", "position"])),
        ("extent", None, "early", lambda g: _v(["a"])),
        ("append", "LinkContainer", "early", _foreign_link("references", "data_array")),
        ("append", "LinkContainer", "early", _wrong_kind_link("references", "multi_tag")),
    ],
    "multi_tag": [
        ("positions", None, "early", _foreign_ref("data_array")),
        ("positions", None, "early", lambda g: _v("@int")),
        ("extents", None, "early", _foreign_ref("data_array")),
        ("append", "LinkContainer", "early", _foreign_link("references", "data_array")),
    ],
    "section": [("link", None, "early", lambda g: _v("@int"))],
    "property": [
        ("values", None, "early", lambda g: _v(["a", 1])),
        ("values", None, "early", lambda g: _v(["@big"])),
        ("values", None, "early", lambda g: _v(["@nul"])),
    ],
    "feature": [("data", None, "early", _foreign_ref("data_array"))],
}

CATALOGUE = {
    "block": ENTITY_COMMON + META,
    "group": ENTITY_COMMON + META + [
        ("append", "LinkContainer", "good", _link("data_arrays", "data_array")),
        ("append", "LinkContainer", "good", _link("tags", "tag")),
        ("append", "LinkContainer", "good", _link("multi_tags", "multi_tag")),
        ("append", "SourceLinkContainer", "good", _src_link),
    ],
    "data_array": ENTITY_COMMON + META + [
        ("label", None, "good", lambda g: _v(g.word())),
        ("label", None, "good", lambda g: _v(None)),
        ("label", None, "early", lambda g: _v(5)),
        ("unit", None, "good", lambda g: _v(g.rng.choice(["mV", "s", "kHz", "µV", " m V"]))),
        ("unit", None, "good", lambda g: _v(g.rng.choice([None, ""]))),
        ("unit", None, "early", lambda g: _v(5)),
        ("polynom_coefficients", None, "good", lambda g: _v([1.0, g.rng.randint(1, 5) * 0.5])),
        ("polynom_coefficients", None, "good", lambda g: _v(g.rng.choice([None, []]))),
        ("expansion_origin", None, "good", lambda g: _v(g.rng.choice([0.5, 2, None]))),
        ("expansion_origin", None, "early", lambda g: _v("x")),
        ("append_set_dimension", None, "good", lambda g: _call()),
        ("append_set_dimension", None, "good", lambda g: _call(["a", "b"])),
        ("append_sampled_dimension", None, "good", lambda g: _call(0.5, "time", "s", 0.25)),
        ("append_sampled_dimension", None, "good", lambda g: _call(2)),
        ("append_range_dimension", None, "good", lambda g: _call([1.0, 2.0, 4.0], "x", "mV")),
        ("append_range_dimension", None, "good", lambda g: _call()),
        ("append_range_dimension", None, "early", lambda g: _call([3.0, 2.0, 1.0])),
        ("append_range_dimension_using_self", None, "good", lambda g: _call()),
        ("append_range_dimension_using_self", None, "early", lambda g: _call([0, 0, 0])),
        ("delete_dimensions", None, "good", lambda g: _call()),
        ("data_extent", None, "good", lambda g: _v([g.resize(g.rng.randint(3, 6))])),
        ("data_extent", None, "early", lambda g: _v("x")),
        ("write_direct", None, "good", lambda g: _call([4.0 + k for k in range(g.size())])),
        ("append", None, "good", lambda g: _call([7.0 + g.resize(g.size() + 1) * 0])),
        ("__setitem__", None, "good", lambda g: {"how": "setitem", "key": 0, "value": 9.0}),
        ("append", "SourceLinkContainer", "good", _src_link),
    ],
    "data_frame": ENTITY_COMMON + META + [
        ("units", None, "good", lambda g: _v(["mV", None])),
        ("units", None, "good", lambda g: _v(["s", "kHz"])),
        ("units", None, "early", lambda g: _v([5, 6])),
        ("data_extent", None, "good", lambda g: _v([g.rng.randint(2, 5)])),
        ("append_rows", None, "good", lambda g: _call([(7, 7.5)])),
        ("write_cell", None, "good", lambda g: _call(3, position=[0, 0])),
    ],
    "tag": ENTITY_COMMON + META + [
        ("position", None, "good", lambda g: _v([g.rng.randint(0, 9) * 0.5])),
        ("position", None, "good", lambda g: _v(g.rng.choice([None, 3.0]))),
        ("extent", None, "good", lambda g: _v([g.rng.randint(0, 9) * 0.5])),
        ("extent", None, "good", lambda g: _v(g.rng.choice([None, []]))),
        ("units", None, "good", lambda g: _v(g.rng.choice([["mV"], ["s"], None, []]))),
        ("units", None, "early", lambda g: _v([5])),
        ("append", "LinkContainer", "good", _link("references", "data_array")),
        ("append", "SourceLinkContainer", "good", _src_link),
    ],
    "multi_tag": ENTITY_COMMON + META + [
        ("positions", None, "good", lambda g: (lambda x: None if x is None else {"how": "set", "ref": x})(
            g.pick("data_array", block_of=g.cur))),
        ("positions", None, "early", lambda g: _v(None)),
        ("extents", None, "good", lambda g: (lambda x: None if x is None else {"how": "set", "ref": x})(
            g.pick("data_array", block_of=g.cur))),
        ("extents", None, "good", lambda g: _v(None)),
        ("extents", None, "early", lambda g: _v(5)),
        ("units", None, "good", lambda g: _v(g.rng.choice([["mV"], ["s"], None]))),
        ("units", None, "good", lambda g: _v(g.rng.choice([None, []]))),
        ("units", None, "early", lambda g: _v([5])),
        ("append", "LinkContainer", "good", _link("references", "data_array")),
        ("append", "SourceLinkContainer", "good", _src_link),
    ],
    "source": ENTITY_COMMON + META,
    "section": ENTITY_COMMON + [
        ("reference", None, "good", lambda g: _v(g.rng.choice([g.word(), None]))),
        ("reference", None, "early", lambda g: _v(5)),
        ("repository", None, "good", lambda g: _v(g.rng.choice([g.word(), None]))),
        ("repository", None, "early", lambda g: _v(5)),
        ("link", None, "good", lambda g: (lambda x: None if x is None or x == g.cur else {"how": "set", "ref": x})(
            g.pick("section"))),
    ],
    "property": [
        ("type", None, "good", lambda g: _v(g.word())),
        ("type", None, "early", lambda g: _v(None)),
        ("definition", None, "good", lambda g: _v(g.rng.choice([g.word(), None]))),
        ("definition", None, "early", lambda g: _v(5)),
        ("unit", None, "good", lambda g: _v(g.rng.choice(["mV", "s", None, ""]))),
        ("unit", None, "early", lambda g: _v(5)),
        ("uncertainty", None, "good", lambda g: _v(g.rng.choice([0.5, 2, None]))),
        ("uncertainty", None, "early", lambda g: _v("x")),
        ("reference", None, "good", lambda g: _v(g.rng.choice([g.word(), None]))),
        ("reference", None, "early", lambda g: _v(5)),
        ("dependency", None, "good", lambda g: _v(g.word())),
        ("dependency", None, "early", lambda g: _v(5)),
        ("dependency_value", None, "good", lambda g: _v(g.word())),
        ("value_origin", None, "good", lambda g: _v(g.word())),
        ("value_origin", None, "early", lambda g: _v(5)),
        ("odml_type", None, "good", lambda g: {"how": "set", "value": "@odml_int"}),
        ("odml_type", None, "early", lambda g: _v("int")),
        ("values", None, "good", lambda g: _v([g.rng.randint(0, 99), 3])),
        ("values", None, "good", lambda g: _v(g.rng.choice([None, []]))),
        ("values", None, "early", lambda g: _v(["a", "b"])),
        ("extend_values", None, "good", lambda g: _call([5, 6])),
        ("extend_values", None, "early", lambda g: _call([1.5])),
        ("delete_values", None, "good", lambda g: _call()),
    ],
    "feature": [
        ("link_type", None, "good", lambda g: _v(g.rng.choice(["tagged", "untagged", "indexed", "Indexed"]))),
        ("link_type", None, "early", lambda g: _v("bogus")),
        ("data", None, "good", lambda g: (lambda x: None if x is None else {"how": "set", "ref": x})(
            g.pick("data_array", block_of=g.cur))),
        ("data", None, "early", lambda g: _v(None)),
        ("data", None, "early", lambda g: _v(5)),
    ],
    "file": [],
}
for _k, _l in REFUSED_CALLS.items():
    CATALOGUE[_k] = CATALOGUE[_k] + _l

# ---------------------------------------------------------------------------------------
# dimension descriptors: setters and link methods of array.dimensions[k] (via = the dimension's class; none of them
# is in the property's list: no time stamp may change), and the label / unit setters of a dimension that is LINKED to
# a data object (via = DimensionLink, target = the linked object, whose label / unit / units they write)


def _dim(cls, value, linked=None, unlink=False):
    """a dimension of class `cls` of the current array: unlinked ones (linked=None), linked ones (True), any (False)"""
    def f(g):
        ks = [k for k, d in enumerate(g.dims(g.cur)) if d["cls"] == cls and (
            linked is False or (d["link"] is not None) == bool(linked))]
        if not ks:
            return None
        k = g.rng.choice(ks)
        if unlink:
            g.dims(g.cur)[k]["link"] = None
        return {"how": "dim", "dim": k, "value": value(g) if callable(value) else value}
    return f


def _dim_link(kind, good=True):
    def f(g):
        ks = [k for k, d in enumerate(g.dims(g.cur)) if d["cls"] == "RangeDimension"]
        x = g.pick(kind, block_of=g.cur)
        if not ks or x is None:
            return None
        k = g.rng.choice(ks)
        if kind == "data_array":
            index = [-1] if good else [0]
        else:
            index = g.rng.choice([0, 1]) if good else 7
        if good:
            g.dims(g.cur)[k]["link"] = x
        return {"how": "dimcall", "dim": k, "ref": x, "args": [index]}
    return f


def _linked_through(value, frame_units=None):
    """the current entity is the data object some dimension is linked to: assign through that dimension
    (frame_units: only when the linked frame has / has no units - either way the assignment is a write to the frame's
    units; on a frame without units it used to be refused with TypeError, as was None: repaired in nixio)"""
    def f(g):
        c = [(o, k) for o in g.alive("data_array") for k, d in enumerate(g.dims(o)) if d["link"] == g.cur]
        if not c or (frame_units is not None and bool(g.ents[g.cur].get("has_units")) != frame_units):
            return None
        o, k = g.rng.choice(c)
        return {"how": "dimlink", "owner": o, "dim": k, "value": value(g) if callable(value) else value}
    return f


DIM_CALLS = {
    "data_array": [
        ("label", "SampledDimension", "good", _dim("SampledDimension", lambda g: g.word())),
        ("unit", "SampledDimension", "good", _dim("SampledDimension", lambda g: g.rng.choice(["ms", "s", None]))),
        ("sampling_interval", "SampledDimension", "good", _dim("SampledDimension", lambda g: g.rng.choice([0.25, 2]))),
        ("offset", "SampledDimension", "good", _dim("SampledDimension", lambda g: g.rng.choice([1.5, None]))),
        ("sampling_interval", "SampledDimension", "early", _dim("SampledDimension", "x")),
        ("label", "RangeDimension", "good", _dim("RangeDimension", lambda g: g.word())),
        ("unit", "RangeDimension", "good", _dim("RangeDimension", lambda g: g.rng.choice(["mV", "s"]))),
        ("ticks", "RangeDimension", "good", _dim("RangeDimension", [1.0, 2.0, 5.0], linked=False, unlink=True)),
        ("ticks", "RangeDimension", "early", _dim("RangeDimension", [3.0, 1.0], linked=False)),
        ("labels", "SetDimension", "good", _dim("SetDimension", ["a", "b"])),
        ("labels", "SetDimension", "early", _dim("SetDimension", [1, 2])),
        ("link_data_array", "RangeDimension", "good", _dim_link("data_array")),
        ("link_data_frame", "RangeDimension", "good", _dim_link("data_frame")),
        ("link_data_array", "RangeDimension", "early", _dim_link("data_array", good=False)),
        ("link_data_frame", "RangeDimension", "early", _dim_link("data_frame", good=False)),
        ("label", "DimensionLink", "good", _linked_through(lambda g: g.word())),
        ("unit", "DimensionLink", "good", _linked_through(lambda g: g.rng.choice(["mV", "s", "kHz", "ms"]))),
    ],
    "data_frame": [
        ("unit", "DimensionLink", "good", _linked_through(lambda g: g.rng.choice(["mV", "s", "kHz", "ms"]), True)),
        ("unit", "DimensionLink", "good", _linked_through("mV", False)),
        ("label", "DimensionLink", "early", _linked_through(lambda g: g.word())),
    ],
}
for _k, _l in DIM_CALLS.items():
    CATALOGUE[_k] = CATALOGUE[_k] + _l



# ---------------------------------------------------------------------------------------
# refused creations: every way the create_* factories refuse a call AFTER the name checks passed (inside the
# class's create_new, in a setter run on the half-built entity, in the data conversion) and the name checks themselves.
# Each builder gets (gen, parent, args) and returns the args of the refused call, or None when not applicable now.


def _ra(**kw):
    return lambda g, parent, args: dict(args, **kw)


def _foreign_arg(key, kind, **kw):
    def f(g, parent, args):
        x = g.foreign(kind, parent)
        return None if x is None else dict(args, **dict(kw, **{key: x}))
    return f


def _dup_name(kind):
    def f(g, parent, args):
        sib = [x["name"] for x in g.ents if x["alive"] and x["kind"] == kind and x["parent"] == parent
               and x.get("name")]
        return dict(args, name=g.rng.choice(sib)) if sib else None
    return f


def _frame_tagged(g, parent, args):
    x = g.pick("data_frame", block_of=parent)
    return None if x is None else {"data": x, "link_type": "tagged"}


REFUSED_CREATE = {
    "tag": [("position_text", _ra(position=["not", "a", "position"])), ("position_word", _ra(position="xx"))],
    "data_array": [("dtype", _ra(dtype="nonsense")), ("object_data", _ra(data=["@object"])),
                   ("unit_not_text", _ra(unit="@int")), ("label_not_text", _ra(label="@int")),
                   ("label_nul", _ra(label="@nul")), ("shape_mismatch", _ra(shape=[7])), ("no_data", _ra(data=None))],
    "multi_tag": [("positions_foreign", _foreign_arg("positions", "data_array")),
                  ("positions_text", _ra(positions="xx")), ("positions_none", _ra(positions=None)),
                  ("extents_text", _ra(extents="yy")), ("extents_foreign", _foreign_arg("extents", "data_array"))],
    "feature": [("data_none", lambda g, p, a: {"data": None, "link_type": "untagged"}),
                ("data_not_an_entity", lambda g, p, a: {"data": "@int", "link_type": "untagged"}),
                ("data_foreign", lambda g, p, a: (lambda x: None if x is None else
                                                  {"data": x, "link_type": "untagged"})(g.foreign("data_array", p))),
                ("link_type_unknown", lambda g, p, a: dict(a, link_type="bogus")),
                ("frame_tagged", _frame_tagged)],
    "property": [("values_mixed", _ra(values=["a", 1])), ("values_outside_int64", _ra(values=["@big"])),
                 ("values_nul", _ra(values=["@nul"])), ("values_empty", _ra(values=[]))],
    "data_frame": [("column_type", _ra(cols={"a": "@type_object"})), ("data_misfit", _ra(data=[[1]])),
                   ("no_columns", _ra(cols=None))],
}
for _k in ("block", "section", "group", "source", "data_array", "data_frame", "tag", "multi_tag", "property"):
    REFUSED_CREATE[_k] = REFUSED_CREATE.get(_k, []) + [
        ("duplicate_name", _dup_name(_k)), ("invalid_name", _ra(name="a/b")), ("name_not_text", _ra(name="@int"))]
    if _k != "property":
        REFUSED_CREATE[_k].append(("type_none", _ra(type=None)))


# ---------------------------------------------------------------------------------------
# generator of histories (tracks a shadow of the structure: kinds, ownership, links, liveness)


class Gen:
    def __init__(self, rng):
        self.rng = rng
        self.ents = []      # dicts kind,parent,alive
        self.links = set()
        self.cur = None
        self.n = 0
        self.clock = 0
        self.clock_bad = False
        self.auto = True
        self.dist = {}

    def count(self, k):
        self.dist[k] = self.dist.get(k, 0) + 1

    def word(self):
        self.n += 1
        return "w%d" % self.n

    def alive(self, kind=None):
        return [i for i, e in enumerate(self.ents) if e["alive"] and (kind is None or e["kind"] == kind)]

    def block_of(self, i):
        while self.ents[i]["kind"] not in ("block", "file"):
            i = self.ents[i]["parent"]
        return i

    def pick(self, kind, block_of=None):
        c = self.alive(kind)
        if block_of is not None:
            b = self.block_of(block_of)
            c = [i for i in c if self.block_of(i) == b]
        return self.rng.choice(c) if c else None

    def foreign(self, kind, near):
        """an entity of `kind` that lives in another block than `near` does"""
        b = self.block_of(near)
        c = [i for i in self.alive(kind) if self.block_of(i) != b]
        return self.rng.choice(c) if c else None

    def dims(self, i):
        """the dimension descriptors of array i: [{"cls": class name, "link": linked entity or None}]"""
        return self.ents[i].setdefault("dimlist", [])

    def linked_targets(self, kind):
        t = set(d["link"] for o in self.alive("data_array") for d in self.dims(o) if d["link"] is not None)
        return [i for i in self.alive(kind) if i in t]

    def size(self):
        return self.ents[self.cur].get("size", 3)

    def resize(self, n):
        self.ents[self.cur]["size"] = n
        return n

    def linked(self, owner, cont, x):
        if (owner, cont, x) in self.links:
            return True
        self.links.add((owner, cont, x))
        return False

    # -- op builders ---------------------------------------------------------------------
    def op_open(self):
        self.clock = self.in_range_time()
        self.auto = self.rng.random() < 0.6
        self.ents = [{"kind": "file", "parent": 0, "alive": True, "dims": 0}]
        self.count("open.auto_%s" % ("on" if self.auto else "off"))
        return ["open", self.clock, self.auto]

    def in_range_time(self):
        r = self.rng.random()
        if r < 0.1:
            return self.rng.choice([0, 1, 86399, 86400, T2100 - 1, 951782400, 951868799, 951868800, 1078099199,
                                    4107542399 - 5097600, 2147483647, 2147483648])
        return self.rng.randrange(0, T2100)

    def op_clock(self):
        r = self.rng.random()
        if self.clock_bad or not (0 <= self.clock < T2100):
            self.clock_bad = False
            self.clock = self.in_range_time()
            self.count("clock.back_into_range")
            return ["set_clock", self.clock]
        if r < 0.03:
            # a clock datetime cannot represent: setters raise after the write, nothing is stamped
            self.clock_bad = True
            self.clock = self.rng.choice([253402300800, 10 ** 12, -62135596801])
            self.count("clock.unrepresentable")
            return ["set_clock", self.clock]
        if r < 0.07:
            # representable, four-digit year, outside 1970..2100
            self.clock = self.rng.choice([-1, -86400 * 365, -30610224000, T2100, T2100 + 86400 * 400,
                                          253402300799, self.rng.randrange(T2100, 253402300800)])
            self.count("clock.outside_1970_2100")
            return ["set_clock", self.clock]
        if r < 0.75:
            self.clock = min(self.clock + self.rng.choice([1, 1, 2, 59, 60, 3600, 86400, 1000003, 31536000]),
                             T2100 - 1)
            self.count("clock.forward")
        elif r < 0.9:
            self.clock = self.in_range_time()
            self.count("clock.jump")
        else:
            self.clock = max(0, self.clock - self.rng.choice([1, 60, 86400]))
            self.count("clock.backward")
        return ["set_clock", self.clock]

    def op_clock_forward(self):
        self.clock = min(self.clock + self.rng.choice([1, 2, 59, 60, 3600, 86400, 1000003]), T2100 - 1)
        self.count("clock.forward")
        return ["set_clock", self.clock]

    def creatable(self):
        out = []
        for i in self.alive():
            k = self.ents[i]["kind"]
            if k == "file":
                out += [("block", i), ("section", i)]
            elif k == "block":
                out += [(x, i) for x in ("group", "data_array", "data_array", "data_frame", "tag", "multi_tag",
                                         "source")]
            elif k == "source":
                out.append(("source", i))
            elif k == "section":
                out += [("section", i), ("property", i), ("property", i)]
            elif k in ("tag", "multi_tag"):
                out.append(("feature", i))
        return out

    def op_create(self, want=None, refuse=None, p_refuse=0.15):
        """refuse = (label, builder): this refused creation; otherwise refused with probability p_refuse"""
        cands = self.creatable()
        if want:
            cands = [c for c in cands if c[0] == want] or cands
        kind, parent = self.rng.choice(cands)
        args = {"name": self.word(), "type": "t"}
        inp = "good"
        if kind == "multi_tag":
            a = self.pick("data_array", block_of=parent)
            if a is None:
                kind = "data_array"
            else:
                args["positions"] = a
        if kind == "feature":
            a = self.pick("data_array", block_of=parent)
            if a is None:
                return None
            args = {"data": a, "link_type": self.rng.choice(["tagged", "untagged", "indexed"])}
        if refuse is None and self.rng.random() < p_refuse and REFUSED_CREATE.get(kind):
            refuse = self.rng.choice(REFUSED_CREATE[kind])
        if refuse is not None:
            # refused: by the name checks, inside create_new, by a setter run on the half-built entity, ...
            label, build = refuse
            args = build(self, parent, args)
            if args is None:
                return None
            inp = "early"
            self.count("create.refused.%s.%s" % (kind, label))
        if inp == "good":
            self.ents.append({"kind": kind, "parent": parent, "alive": True, "dims": 0, "name": args.get("name")})
        self.count("create.%s.%s" % (kind, inp))
        return ["create", kind, parent, inp, args]

    COPY_INTO = {"data_array": "block", "data_frame": "block", "tag": "block", "multi_tag": "block",
                 "property": "section", "section": ("file", "section"), "block": "file"}

    def subtree(self, root):
        inside = {root}
        for i, x in enumerate(self.ents):
            if i > root and x["alive"] and x["parent"] in inside and x["kind"] != "file":
                inside.add(i)
        return sorted(inside)

    def shadow_copy(self, src, parent, name):
        """the shadow of what a copy adds: a copy of every entity of the subtree, owner and links (dimension links,
        link lists) inside the subtree redirected to the copies"""
        sub = self.subtree(src)
        base = len(self.ents)
        mapped = {i: base + k for k, i in enumerate(sub)}
        for i in sub:
            e = self.ents[i]
            c = {k: v for k, v in e.items() if k != "dimlist"}
            c["parent"] = parent if i == src else mapped[e["parent"]]
            if i == src:
                c["name"] = name
            if "dimlist" in e:
                c["dimlist"] = [{"cls": d["cls"], "link": mapped.get(d["link"], d["link"])} for d in e["dimlist"]]
            self.ents.append(c)
        for (o, cont, x) in list(self.links):
            if o in mapped:
                self.links.add((mapped[o], cont, mapped.get(x, x)))
        return len(sub)

    def op_copy(self, kinds=("data_array", "data_frame", "property", "tag", "multi_tag", "section", "block")):
        c = [i for i in self.alive() if self.ents[i]["kind"] in kinds and len(self.subtree(i)) <= 8]
        if not c:
            return None
        src = self.rng.choice(c)
        kind = self.ents[src]["kind"]
        into = self.COPY_INTO[kind]
        owners = [i for i in self.alive() if self.ents[i]["kind"] in ((into,) if isinstance(into, str) else into)
                  and i not in self.subtree(src)]
        if kind not in ("section", "property", "block"):
            # (links of a tag / array are to objects of its own block: stay inside it)
            owners = [i for i in owners if i == self.block_of(src)]
        if not owners:
            return None
        parent = self.rng.choice(owners)
        name = self.word()
        n = self.shadow_copy(src, parent, name)
        self.count("copy.%s" % kind)
        self.dist["copy.entities_copied"] = self.dist.get("copy.entities_copied", 0) + n
        args = {"name": name}
        if self.rng.random() < 0.3:
            args["keep_id"] = False
        return ["copy", src, parent, args]

    def op_call(self, target=None, entry=None):
        cands = [i for i in self.alive() if CATALOGUE[self.ents[i]["kind"]]]
        if not cands:
            return None
        e = target if target is not None else self.rng.choice(cands)
        kind = self.ents[e]["kind"]
        m, via, inp, build = entry or self.rng.choice(CATALOGUE[kind])
        if via == "DimensionLink":
            # the target is a data object some dimension is linked to
            c = self.linked_targets(kind)
            if not c:
                return None
            if e not in c:
                e = self.rng.choice(c)
        self.cur = e
        args = build(self)
        if args is None:
            return None
        if m == "append_range_dimension_using_self" and inp == "good" and (self.ents[e].get("unsorted")
                                                                           or self.clock_bad):
            # (under a clock datetime cannot represent the dimension's link object cannot be stamped: the call is
            # refused whatever the switch says - outside the modelled range of clocks)
            return None
        if m in ("write_direct", "append", "__setitem__", "data_extent") and via is None:
            self.ents[e]["unsorted"] = True
        if via is None and inp == "good" and kind == "data_frame" and m == "units":
            self.ents[e]["has_units"] = True
        if via == "DimensionLink" and inp == "good" and kind == "data_frame" and m == "unit":
            self.ents[e]["has_units"] = True       # (a frame without units gets them with the first unit written)
        if via is None and inp == "good" and kind == "data_array":
            if m == "delete_dimensions":
                self.ents[e]["dimlist"] = []
            elif m.startswith("append_") and m.endswith("dimension") or m == "append_range_dimension_using_self":
                self.dims(e).append({"cls": {"append_set_dimension": "SetDimension",
                                             "append_sampled_dimension": "SampledDimension"}.get(m, "RangeDimension"),
                                     "link": e if m == "append_range_dimension_using_self" else None})
        if kind == "property":
            if m == "odml_type" and inp == "good" and self.ents[e].get("novalues"):
                return None
            if inp == "good" and m in ("values", "delete_values"):
                self.ents[e]["novalues"] = (m == "delete_values" or not args.get("value"))
            if inp == "good" and m == "extend_values":
                self.ents[e]["novalues"] = False
        self.count("call.%s.%s.%s" % (kind, m if via is None else "%s.%s" % (via, m), inp))
        if self.rng.random() < 0.5:
            # through a handle that was obtained earlier and kept (0 / absent = a freshly fetched one)
            args = dict(args, h=self.rng.randint(1, 3))
            self.count("call.through_kept_handle")
        return ["call", e, via, m, inp, args]

    def op_force(self):
        e = self.rng.choice(self.alive())
        which = self.rng.choice(["force_created", "force_updated"])
        r = self.rng.random()
        if r < 0.15:
            t = None
            self.count("force.now")
        elif r < 0.85:
            t = self.in_range_time()
            self.count("force.in_range")
        elif r < 0.93:
            t = self.rng.choice([-1, -86400, -30610224000, 253402300799, T2100, T2100 + 12345,
                                 self.rng.randrange(T2100, 253402300800)])
            self.count("force.outside_1970_2100")
        elif r < 0.97:
            t = self.rng.choice([253402300800, 10 ** 12, -62135596801, -10 ** 12])
            self.count("force.unrepresentable")
        else:
            t = self.rng.choice([1.5, "12", True, False])     # a bool is an int in Python: accepted as 1 / 0
            self.count("force.bad_type" if not isinstance(t, bool) else "force.bool")
        if self.ents[e]["kind"] == "feature":
            self.count("force.on_feature")
        if self.rng.random() < 0.5:
            self.count("force.through_kept_handle")
            return [which, e, t, {"h": self.rng.randint(1, 3)}]
        return [which, e, t]

    def op_delete(self):
        # entities nothing else refers to: groups, features, properties, leaf sections/sources, tags
        c = [i for i in self.alive() if self.ents[i]["kind"] in ("group", "feature", "property", "tag", "section",
                                                                  "source", "block")]
        c = [i for i in c if not self.referenced(i)]
        if not c:
            return None
        e = self.rng.choice(c)
        dead = {e}
        for i, x in enumerate(self.ents):
            if i > 0 and x["parent"] in dead:
                dead.add(i)
        for i in dead:
            self.ents[i]["alive"] = False
        self.count("delete.%s" % self.ents[e]["kind"])
        return ["delete", e]

    def referenced(self, i):
        """conservative: sections may be metadata / link targets, sources may be linked"""
        k = self.ents[i]["kind"]
        if k in ("section", "source", "block"):
            return self.rng.random() < 0.7 or any(x[2] == i for x in self.links) or k == "section"
        return False

    def second_block(self):
        """a second block holding an array, a tag and a source: the "entity of another block" of refused calls"""
        b = len(self.ents)
        ops = []
        for kind, parent in (("block", 0), ("data_array", b), ("tag", b), ("source", b)):
            args = {"name": self.word(), "type": "t"}
            self.ents.append({"kind": kind, "parent": parent, "alive": True, "dims": 0, "name": args["name"]})
            self.count("create.%s.good" % kind)
            ops.append(["create", kind, parent, "good", args])
        return ops

    def history(self, length, focus=None):
        ops = [self.op_open()]
        # a base population so that every kind exists early
        for want in ("block", "section", "data_array", "data_array", "tag", "multi_tag", "group", "source",
                     "data_frame", "property", "feature", "section"):
            op = self.op_create(want, p_refuse=0)
            if op:
                ops.append(op)
        ops += self.second_block()
        while len(ops) < length:
            r = self.rng.random()
            op = None
            if r < 0.20:
                op = self.op_clock()
            elif r < 0.27:
                op = None if self.clock_bad else self.op_create()
            elif r < 0.30:
                op = self.op_copy()
            elif r < 0.78:
                op = self.op_call()
            elif r < 0.88:
                op = self.op_force()
            elif r < 0.93:
                self.auto = not self.auto if self.rng.random() < 0.8 else self.auto
                self.count("set_auto")
                op = ["set_auto", self.auto]
            elif r < 0.97:
                self.auto = self.rng.random() < 0.6
                self.count("reopen")
                op = ["reopen", self.auto]
            else:
                op = self.op_delete()
            if op:
                ops.append(op)
        return ops

    def sweep(self):
        """every catalogue entry of every kind once, under both switch settings, clock advanced before each call"""
        ops = [self.op_open()]
        for want in ("block", "section", "section", "data_array", "data_array", "data_array", "tag", "multi_tag",
                     "group", "source", "source", "data_frame", "property", "feature"):
            op = self.op_create(want, p_refuse=0)
            if op:
                ops.append(op)
        ops += self.second_block()
        for auto in (True, False):
            ops.append(["set_auto", auto])
            self.auto = auto
            for kind in KINDS:
                for entry in CATALOGUE[kind]:
                    ts = self.alive(kind)
                    self.rng.shuffle(ts)
                    for t in ts:
                        op = self.op_call(t, entry)
                        if op:
                            # (the clock is advanced before each call)
                            ops += [self.op_clock_forward(), op]
                            break
        return ops


# ---------------------------------------------------------------------------------------
# the listed attributes x every kind of value their setters accept x the state they meet
#
# For every entity kind and every attribute of the property's list that the kind has: the values the setter accepts,
# split into "sets" (the attribute holds something afterwards) and "clears" (None, empty list, empty text: the
# attribute is removed).  matrix_histories() turns each pair into a short history that meets every value class in
# both states (attribute present / absent): set, overwrite, clear, clear again, set again, ... with the clock
# advanced before every call, first with the switch on, then switched off.  Whether a call *changed* the attribute
# is read off the attribute's getter, so the oracle requires updated_at == clock exactly when the text does.

R = "@ref"       # ("@ref", scene index): an entity of the scene


def scene_ops(clock, auto, copies=False):
    """a small file with every entity kind; indices: 1 block, 2/3 sections, 4/5/6 arrays, 7 frame, 8 tag, 9 multi tag
    (positions 4), 10 group, 11 source, 12 property (of 2), 13 feature of 8 (data 5), 14 feature of 9 (data 6),
    15 a second block with 16 array, 17 source, 18 tag (the "entities of another block" of refused calls)"""
    # ("scene": the oracle does not read the whole file after each of these creations - the same scene is built at
    # the head of some sixty histories; the sweep and the random histories observe every creation, as does the
    # correspondence)
    c = lambda kind, parent, **a: ["create", kind, parent, "good", dict(a, scene=True)]
    return [["open", clock, auto],
            c("block", 0, name="b", type="t"), c("section", 0, name="s1", type="t"),
            c("section", 0, name="s2", type="t"), c("data_array", 1, name="a1", type="t"),
            c("data_array", 1, name="a2", type="t"), c("data_array", 1, name="a3", type="t"),
            c("data_frame", 1, name="f1", type="t"), c("tag", 1, name="t1", type="t"),
            c("multi_tag", 1, name="m1", type="t", positions=4), c("group", 1, name="g1", type="t"),
            c("source", 1, name="o1", type="t"), c("property", 2, name="p1", values=[1, 2]),
            c("feature", 8, data=5, link_type="untagged"), c("feature", 9, data=6, link_type="untagged"),
            c("block", 0, name="b2", type="t"), c("data_array", 15, name="fa", type="t"),
            c("source", 15, name="fo", type="t"), c("tag", 15, name="ft", type="t")] + (
        # 19 / 20: copies of array 5 and of frame 7 that keep the id (Block.create_data_array(copy_from=...)): other
        # entities which compare equal to their sources and carry their time stamps; 21: a copy of array 6, new id
        [["set_clock", clock + 5], ["call", 5, None, "label", "good", {"how": "set", "value": "before the copy"}],
         ["set_clock", clock + 9], ["copy", 5, 1, {"name": "a2 copy"}], ["copy", 7, 1, {"name": "f1 copy"}],
         ["copy", 6, 1, {"name": "a3 copy", "keep_id": False}],
         # 22 / 23: a copy of tag 8 and of its feature 13; 24 / 25: a copy of section 2 with its property 12 (the
         # copies carry the stamps of their sources; copies of whole blocks occur in the random histories)
         ["copy", 8, 1, {"name": "t1 copy"}], ["copy", 2, 3, {"name": "s1 copy", "keep_id": False}]]
        if copies else [])


# values that differ from the stored one although they compare equal to it (the copy 19 of array 5 has the id of 5):
# assigning them changes the attribute
COPY_VALUES = {("multi_tag", "positions"): [(R, 5), (R, 19), (R, 5)],
               ("multi_tag", "extents"): [(R, 5), (R, 19), (R, 5)],
               ("feature", "data"): [(R, 5), (R, 19), (R, 5), (R, 7), (R, 20), (R, 7), (R, 21)]}


SCENE_INDEX = {"block": 1, "section": 2, "data_array": 4, "data_frame": 7, "tag": 8, "multi_tag": 9, "group": 10,
               "source": 11, "property": 12, "feature": 13}

TEXT = (["x1", "x2", ""], [None])
VALUE_CLASSES = {
    ("*", "type"): (["ty1", "ty2"], []),
    ("*", "definition"): TEXT,
    ("*", "label"): TEXT,
    ("*", "reference"): TEXT,
    ("*", "repository"): TEXT,
    ("*", "unit"): (["mV", "s", " k Hz"], [None, ""]),
    ("*", "polynom_coefficients"): ([[1.0, 0.5], [2.0], (0.0, 1.0, 3.0)], [None, [], ()]),
    ("*", "expansion_origin"): ([0.5, 2, 0, 0.0], [None]),
    ("*", "position"): ([[1.5], [2.0, 3.0], 3.0, (4.0,)], [None, [], ()]),
    ("*", "extent"): ([[0.5], [1.0, 1.0], 2.0], [None, [], ()]),
    ("*", "units"): ([["mV"], ["s", "mV"], ("kHz",)], [None, [], ()]),
    ("data_frame", "units"): ([["mV", None], ["s", "kHz"], [None, "mV"]], [[None, None]]),
    ("multi_tag", "positions"): ([(R, 5), (R, 6), (R, 4)], []),
    ("multi_tag", "extents"): ([(R, 5), (R, 6)], [None]),
    ("feature", "link_type"): (["tagged", "indexed", "Untagged", "@linktype_tagged"], []),
    ("feature", "data"): ([(R, 4), (R, 6), (R, 7), (R, 5)], []),
    ("data_array", "append_set_dimension"): ([_call(), _call(["a", "b"]), _call(labels=[])], []),
    ("data_array", "append_sampled_dimension"): ([_call(0.5, "time", "s", 0.25), _call(2), _call(1, label=None)], []),
    ("data_array", "append_range_dimension"): ([_call([1.0, 2.0, 4.0], "x", "mV"), _call(), _call(ticks=[])], []),
    ("data_array", "append_range_dimension_using_self"): ([_call(), _call([-1])], []),
}


def listed_pairs():
    """(kind, member) for every listed attribute the entity classes have, by introspection of the classes"""
    nix = _nix()
    import nixio.property
    import nixio.feature
    classes = {"block": nix.Block, "group": nix.Group, "data_array": nix.DataArray, "data_frame": nix.DataFrame,
               "tag": nix.Tag, "multi_tag": nix.MultiTag, "source": nix.Source, "section": nix.Section,
               "property": nixio.property.Property, "feature": nixio.feature.Feature}
    out = []
    for k, c in classes.items():
        for m in LISTED:
            obj = inspect.getattr_static(c, m, None)
            if isinstance(obj, property) and obj.fset is not None:
                out.append((k, m))
            elif m.startswith("append_") and callable(obj):
                out.append((k, m))
    return out


def matrix_histories(rng, dist=None, copies=False):
    """-> list of (label, ops); copies: the scene holds an id-keeping copy and the link attributes are also switched
    between an array and its copy"""
    out = []
    missing = []
    for kind, m in listed_pairs():
        vc = VALUE_CLASSES.get((kind, m), VALUE_CLASSES.get(("*", m)))
        if vc is None:
            missing.append("%s.%s" % (kind, m))
            continue
        sets, clears = vc
        e = SCENE_INDEX[kind]
        seq = []
        for c in clears:
            seq += [sets[0], c, c]           # present -> cleared -> cleared again
        for v in sets:
            seq.append(v)                    # absent -> present, then overwriting
        for c in clears[:1]:
            seq += [c, sets[-1]]
        if copies:
            seq += COPY_VALUES.get((kind, m), [])
        off = [sets[0]] + list(clears[:1]) + [sets[-1]]
        clock = rng.randrange(0, T2100 - 10 ** 7)
        # the switch is set at open time or toggled later, by assignment or by re-opening
        auto0 = rng.random() < 0.6
        ops = scene_ops(clock, auto0, copies)
        clock += 10                        # (the scene with copies advances the clock by 9)
        if not auto0:
            ops.append(rng.choice([["set_auto", True], ["set_auto", True], ["reopen", True]]))
        for phase, values in (("on", seq), ("off", off)):
            if phase == "off":
                ops.append(rng.choice([["set_auto", False], ["set_auto", False], ["reopen", False]]))
            for v in values:
                clock += rng.choice([1, 2, 59, 3600, 86400])
                ops.append(["set_clock", clock])
                if isinstance(v, dict):
                    args = dict(v)
                elif isinstance(v, tuple) and len(v) == 2 and v[0] == R:
                    args = {"how": "set", "ref": v[1]}
                else:
                    args = {"how": "set", "value": list(v) if isinstance(v, tuple) else v}
                    if isinstance(v, tuple):
                        args["tuple"] = True
                args["h"] = rng.choice([0, 0, 1, 2])
                ops.append(["call", e, None, m, "good", args])
                if dist is not None:
                    key = "matrix.%s.%s" % (kind, m)
                    dist[key] = dist.get(key, 0) + 1
        out.append(("%s.%s" % (kind, m), ops))
    if dist is not None and missing:
        dist["matrix.no_value_classes_for"] = missing
    return out


def shadow_of(ops, rng):
    """the generator's shadow of the structure a list of creations builds"""
    g = Gen(rng)
    for op in ops:
        if op[0] == "open":
            g.ents = [{"kind": "file", "parent": 0, "alive": True, "dims": 0}]
            g.clock, g.auto = op[1], op[2]
        elif op[0] == "create" and op[3] == "good":
            g.ents.append({"kind": op[1], "parent": op[2], "alive": True, "dims": 0, "name": op[4].get("name")})
        elif op[0] == "copy":
            g.shadow_copy(op[1], op[2], op[3].get("name"))
    return g


# listed attributes used to find out, after a refused call, whether attribute changes are still stamped
PROBES = [("block", "definition"), ("data_array", "label"), ("tag", "type"), ("multi_tag", "definition"),
          ("section", "repository"), ("group", "definition"), ("source", "type"), ("data_frame", "definition"),
          ("property", "definition"), ("section", "reference"), ("data_array", "definition")]


def refusal_variants():
    return ["on, set at open", "on, toggled later", "off"]


def refusal_histories(rng, variants=None, dist=None, sample=None):
    """refused calls must not change what later calls do.  A scene; the switch on (set at open or toggled later) or
    off; then EVERY way of refusing a creation (REFUSED_CREATE: each create_* factory x each reason) and every
    refused call of the catalogue, in random order, each followed by an advance of the clock and an accepted change
    of a listed attribute of some entity (which must be stamped / must not be stamped, as the switch was set by the
    user): -> list of (label, ops)"""
    out = []
    for variant in (variants or refusal_variants()):
        clock = rng.randrange(0, T2100 - 10 ** 7)
        ops = scene_ops(clock, variant == "on, set at open")
        g = shadow_of(ops, rng)
        if variant == "on, toggled later":
            ops.append(["set_auto", True])
        recipes = []
        for kind, lst in sorted(REFUSED_CREATE.items()):
            recipes += [("create", kind, r) for r in lst]
        for kind in KINDS:
            recipes += [("call", kind, e) for e in CATALOGUE[kind] if e[2] == "early"]
        rng.shuffle(recipes)
        if sample is not None and (variant == "off" or variants is None or len(variants) == 1):
            recipes = recipes[:sample]       # (quick tier) the on-variant of the oracle always runs them all
        n = 0
        for what, kind, r in recipes:
            if what == "create":
                op = g.op_create(kind, refuse=r)
                if op is not None and op[1] != kind:
                    op = None
            else:
                t = g.pick(kind)
                op = None if t is None else g.op_call(t, r)
            if op is None:
                continue
            clock += rng.choice([1, 2, 59, 3600])
            ops += [["set_clock", clock], op]
            pk, pm = PROBES[n % len(PROBES)]
            n += 1
            clock += rng.choice([1, 2, 59, 3600])
            ops += [["set_clock", clock],
                    ["call", SCENE_INDEX[pk], None, pm, "good", {"how": "set", "value": g.word(), "h": rng.choice([0, 0, 1])}]]
            if dist is not None:
                key = "refused_then_probe.%s.%s" % (what, kind)
                dist[key] = dist.get(key, 0) + 1
        out.append(("refusals: switch " + variant, ops))
    return out


def delegating_histories(rng):
    """calls whose body hands work to a stamping member of ANOTHER entity, as the program makes them (model:
    `callDelegating`, admitted through the generated `foreign` names only): `section[name] = v` for a name in use
    (`property.values = v`), `dim.label = ...` / `dim.unit = ...` on a dimension linked to an array / a frame column
    (the DimensionLink setter stamps the linked object) - switch on and off, accepted and refused"""
    out = []
    for auto in (True, False):
        clock = rng.randrange(0, T2100 - 10 ** 7)
        ops = scene_ops(clock, auto)
        t = [clock]

        def tick():
            t[0] += rng.choice([1, 2, 59, 3600])
            return ["set_clock", t[0]]
        dl = lambda e, via, m, inp, d, dvia, f, finp, **a: ["call_delegating", e, via, m, inp, d, dvia, f, finp, a]
        ops += [tick(), dl(2, None, "__setitem__", "good", 12, None, "values", "good", how="setitem", key="p1",
                           value=[4, 5]),
                tick(), dl(2, None, "__setitem__", "early", 12, None, "values", "early", how="setitem", key="p1",
                           value=["a", 1]),
                # array 4 gets two range dimensions: one linked to array 5, one to column 1 of frame 7
                tick(), ["call", 4, None, "append_range_dimension", "good", _call()],
                tick(), ["call", 4, None, "append_range_dimension", "good", _call()],
                tick(), ["call", 4, "RangeDimension", "link_data_array", "good",
                         {"how": "dimcall", "dim": 0, "ref": 5, "args": [[-1]]}],
                tick(), ["call", 4, "RangeDimension", "link_data_frame", "good",
                         {"how": "dimcall", "dim": 1, "ref": 7, "args": [1]}],
                tick(), dl(4, "RangeDimension", "label", "good", 5, "DimensionLink", "label", "good", how="dim", dim=0,
                           value="through the link"),
                tick(), dl(4, "RangeDimension", "unit", "good", 5, "DimensionLink", "unit", "good", how="dim", dim=0,
                           value="mV"),
                tick(), dl(4, "RangeDimension", "unit", "good", 7, "DimensionLink", "unit", "good", how="dim", dim=1,
                           value="s"),
                tick(), dl(4, "RangeDimension", "label", "early", 5, "DimensionLink", "label", "early", how="dim", dim=0,
                           value=5),
                ["set_auto", not auto],
                tick(), dl(4, "RangeDimension", "label", "good", 5, "DimensionLink", "label", "good", how="dim", dim=0,
                           value="again"),
                tick(), dl(2, None, "__setitem__", "good", 12, None, "values", "good", how="setitem", key="p1",
                           value=[6])]
        out.append(("delegating: switch %s first" % ("on" if auto else "off"), ops))
    return out


BOUNDARY_SECONDS = [0, 1, 59, 60, 3599, 3600, 86399, 86400, 951782399, 951782400, 951868799, 951868800,
                    2147483647, 2147483648, 4102444800 - 86400, 4102444800 - 1]


def force_histories(rng, dist=None):
    """every entity kind that has the force methods x both stamps x the boundary seconds of 1970..2100 (first and last
    second of the range, of a minute, an hour, a day, 29 February 2000, 2**31) and random ones, through fresh and kept
    handles, with a close / re-open after each round: -> list of (label, ops)"""
    out = []
    for kind, e in [("file", 0)] + sorted(SCENE_INDEX.items()):
        if kind == "feature":
            continue
        ops = scene_ops(rng.randrange(0, T2100), rng.random() < 0.5)
        secs = BOUNDARY_SECONDS + [rng.randrange(0, T2100) for _ in range(3)]
        rng.shuffle(secs)
        for k, t in enumerate(secs):
            which = ["force_created", "force_updated"] if k % 2 == 0 else ["force_updated", "force_created"]
            ops.append([which[0], e, t, {"h": rng.choice([0, 1, 2])}])
            ops.append([which[1], e, secs[(k + 5) % len(secs)], {"h": rng.choice([0, 1, 2])}])
            if k % 4 == 3:
                ops.append(["reopen", rng.random() < 0.5])
        ops.append(["reopen", True])
        if dist is not None:
            dist["force_boundary.%s" % kind] = len(secs) * 2
        out.append(("force:" + kind, ops))
    return out


# ---------------------------------------------------------------------------------------
# correspondence


def run_history(ctx, ops, tag):
    clock = Clock()
    sess = Session(ctx.tmpfile("c19-%s.nix" % tag), clock)
    outs = []
    with patched_clock(clock):
        try:
            for op in ops:
                outs.append(sess.apply(op))
                if outs[-1].get("res", "").startswith("raised"):
                    outs[-1]["exc"] = getattr(sess, "last_exc", None)
        finally:
            sess.close()
    try:
        os.remove(sess.path)
    except OSError:
        pass
    return outs


def time_cases(ctx):
    rng = ctx.rng
    cases = []
    # every day 1970..2100 at sampled seconds (thorough), a sample of days (quick)
    days = range(0, 47482) if not ctx.quick() else sorted(rng.sample(range(0, 47482), 1500))
    for d in days:
        for s in {0, 86399, rng.randrange(0, 86400)} if not ctx.quick() else {rng.randrange(0, 86400)}:
            cases.append(["time_to_str", d * 86400 + s])
    for t in [0, -1, T2100 - 1, T2100, 253402300799, 253402300800, -62135596800, -62135596801, -30610224000,
              -30610224001, 10 ** 12, -10 ** 12, 951782400, 951868799, 951868800, 4107542400]:
        cases.append(["time_to_str", t])
    for _ in range(ctx.budget(300, 5000)):
        cases.append(["time_to_str", rng.randrange(-62135596800 - 1000, 253402300800 + 1000)])
    return cases


def str_cases(ctx):
    rng = ctx.rng
    cases = []
    for _ in range(ctx.budget(1500, 20000)):
        r = rng.random()
        if r < 0.5:
            y, mo, d = rng.randint(1, 9999), rng.randint(1, 12), rng.randint(1, 31)
            h, mi, s = rng.randint(0, 23), rng.randint(0, 59), rng.randint(0, 59)
        else:
            y, mo, d = rng.randint(0, 9999), rng.randint(0, 14), rng.randint(0, 33)
            h, mi, s = rng.randint(0, 25), rng.randint(0, 61), rng.randint(0, 62)
        sep = "T" if rng.random() < 0.9 else rng.choice(["t", " ", "-", "X"])
        txt = "%04d%02d%02d%s%02d%02d%02d" % (y, mo, d, sep, h, mi, s)
        if rng.random() < 0.06:
            k = rng.randrange(len(txt))
            txt = txt[:k] + rng.choice(["", "x", " ", "00", "٣"]) + txt[k + 1:]
        cases.append(["str_to_time", txt])
    for y in (1900, 2000, 2100, 2024, 2023, 1600):
        cases.append(["str_to_time", "%04d0229T000000" % y])
    return cases


def impl_time(case):
    from nixio.util import util as UU
    with warnings.catch_warnings():
        warnings.simplefilter("ignore")
        try:
            if case[0] == "time_to_str":
                return {"ok": UU.time_to_str(case[1]).decode("ascii")}
            return {"ok": UU.str_to_time(case[1])}
        except Exception as e:
            return {"err": exc_name(e)}


def correspondence(ctx):
    rng = ctx.rng
    disagreements = []
    dist = {}
    evaluations = 0
    nontrivial = set()
    samples = []

    # ---- 1. pure time conversion -----------------------------------------------------------
    tcases = time_cases(ctx) + str_cases(ctx)
    tmodel = core.run_driver(PROP, tcases)
    skipped = 0
    for c, m in zip(tcases, tmodel):
        i = impl_time(c)
        evaluations += 1
        if c[0] == "str_to_time":
            if not m.get("canonical"):
                skipped += 1          # outside the modelled shape (strptime leniency) — counted, not compared
                continue
            m = {k: v for k, v in m.items() if k != "canonical"}
        if m != i:
            disagreements.append(Disagreement(c, m, i))
        nontrivial.add(core.canon(c))     # every distinct second / text is a distinct conversion
    dist["time_to_str"] = len([c for c in tcases if c[0] == "time_to_str"])
    dist["str_to_time"] = len(tcases) - dist["time_to_str"]
    dist["str_to_time.noncanonical_shape_skipped"] = skipped
    samples.append({"case": tcases[0], "model": tmodel[0]})

    # ---- 1b. method resolution: the generated member table + MRO against the classes Python built ---------------
    rcases, rimpl = resolution_cases()
    rmodel = core.run_driver(PROP, rcases)
    for c, m, i in zip(rcases, rmodel, rimpl):
        evaluations += 1
        mm = m.get("ok") if isinstance(m, dict) else m
        got = None if mm is None else {"cls": mm.get("cls"), "kind": mm.get("kind")}
        if got != i:
            disagreements.append(Disagreement(c, got, i))
        if i is not None:
            nontrivial.add(core.canon(c))
    dist["resolve"] = len(rcases)

    # ---- 2. histories ------------------------------------------------------------------------
    histories = []
    for h in core.load_corpus(PROP):
        histories.append(("corpus", h))
    g = Gen(rng)
    histories.append(("sweep", g.sweep()))
    opdist = dict(g.dist)
    # the oracle runs ALL matrix and force histories on the implementation in every tier; the correspondence (model
    # vs implementation) runs a sample of them in the quick tier — the distribution counts what was actually run
    holes = {}
    mats = matrix_histories(rng, holes, copies=True)
    if ctx.quick():
        mats = rng.sample(mats, min(len(mats), 12))
    for label, h in mats:
        histories.append(("matrix:" + label, h))
        opdist["matrix." + label] = len([op for op in h if op[0] == "call"])
    if "matrix.no_value_classes_for" in holes:
        opdist["matrix.no_value_classes_for"] = holes["matrix.no_value_classes_for"]
    rh = refusal_histories(rng, [rng.choice(refusal_variants())] if ctx.quick() else None, opdist,
                           sample=60 if ctx.quick() else None)
    for label, h in rh:
        histories.append((label, h))
    fh = force_histories(rng)
    if ctx.quick():
        fh = rng.sample(fh, 3)
    for label, h in fh:
        histories.append((label, h))
        opdist["force_boundary." + label[6:]] = len([op for op in h if op[0].startswith("force_")])
    for label, h in delegating_histories(rng):
        histories.append((label, h))
        opdist["call_delegating"] = opdist.get("call_delegating", 0) + len([op for op in h if op[0] == "call_delegating"])
    for k in range(ctx.budget(14, 150)):
        g = Gen(rng)
        histories.append(("random", g.history(rng.choice([40, 80, 120]))))
        for a, b in g.dist.items():
            opdist[a] = opdist.get(a, 0) + b
    # all histories through one driver process each (the driver keeps one state; `open` resets it)
    flat = []
    for _, h in histories:
        flat += h
    model = core.run_driver(PROP, flat)
    pos = 0
    res_kinds = {}
    for n, (tag, h) in enumerate(histories):
        mouts = model[pos:pos + len(h)]
        pos += len(h)
        iouts = run_history(ctx, h, "h%d" % n)
        for k, (op, m, i) in enumerate(zip(h, mouts, iouts)):
            evaluations += 1
            cm, ci = canon_model(op, m), canon_impl(op, i)
            res_kinds[ci.get("res", "bad")] = res_kinds.get(ci.get("res", "bad"), 0) + 1
            if cm != ci:
                disagreements.append(Disagreement({"history": h[:k + 1], "at": k, "op": op}, cm, i))
                break
            if op[0] in ("call", "call_delegating", "force_created", "force_updated", "create", "copy", "delete", "reopen"):
                nontrivial.add(core.canon([op[:5], ci.get("res"), len(ci.get("stamps", []))]))
        if n == 1 and len(h) > 20:
            samples.append({"case": h[18], "model": mouts[18]})
    # ---- 3. the table of touch states against every public member of every class ----------------------------
    n, dis, seen = table_sweep(ctx, dist)
    evaluations += n
    disagreements += dis
    for k in seen:
        nontrivial.add(core.canon(["member_sweep", list(k)]))
    disagreements.sort(key=lambda d: len(core.canon(d.case)))
    cov = setter_coverage()
    dist.update({"history_ops": opdist, "impl_results": res_kinds, "histories": len(histories),
                 "setter_coverage": cov})
    return {"evaluations": evaluations, "distinct_nontrivial": len(nontrivial),
            "rule": "time_to_str on sampled (thorough: all) days 1970-2100 at sampled seconds + boundary and out-of-range "
                    "values; str_to_time on canonical-shape strings with valid and invalid field values; one sweep "
                    "history calling every catalogue entry of every entity kind under both switch settings with the "
                    "clock advanced before each call; value-class matrix histories (every listed attribute x every "
                    "kind of value its setter accepts, clearing values included, x attribute present / absent); "
                    "operations go through freshly fetched handles or through handles kept from earlier, and the "
                    "stamps are read through all of them; seeded random histories (create / copy of any copyable kind "
                    "with what it owns / call / force / toggle / clock / delete / reopen) on real HDF5 files, the created_at and updated_at of ALL entities and the "
                    "set of entity ids in the file compared after every operation; member sweep with the switch on: "
                    "every public member (setter, deleter, getter, method) of every class of object reachable from the "
                    "File, found by introspection, called in a scene of contrasting states - the stored stamps it changed "
                    "must fit the outcomes + foreign names of the table entry Python's MRO reaches. non-trivial = distinct "
                    "(operation, outcome, population size) / (class, member, accepted)",
            "samples": samples, "distribution": dist, "disagreements": disagreements, "exhaustive": False}


def table_sweep(ctx, dist):
    """the generated table of touch states against the implementation, for EVERY public member of every class: the
    member sweep of c19_off with the switch ON records which stored stamps each call changed; the model's table
    (driver op `resolve`: the outcomes of the member Python's MRO reaches) says which it may / must change:
    no outcome with a touch -> nothing; `self` on some path -> at most the object itself, and exactly it (= the clock)
    when every returning path has it and the call was accepted; `linked` -> exactly one data object; created_at never.
    A member whose body invokes a stamping member of ANOTHER object (`Member.foreign`, by name: `section[name] = v` is
    `property.values = v`, a linked dimension's `label` / `unit` is the DimensionLink setter, ...) may in addition
    stamp such an object: one whose class has a member of that name that stamps itself (or, for a name that stamps a
    linked object in some class, a data object) - every member with an empty `foreign` may stamp nothing else.
    -> (evaluations, disagreements, distinct (class, member, accepted))"""
    from . import c19_off
    recs = []
    n, fails, cov = c19_off.run(ctx, ctx.rng, share=0, on_share=ctx.budget(0.25, 1.0), records=recs)
    ctx.__dict__["c19_on_sweep"] = {"calls": n, "failures": fails, "coverage": cov}
    keys = sorted(set((r["cls"], r["member"]) for r in recs))
    model = core.run_driver(PROP, [["resolve", c, m] for c, m in keys])
    table = {k: (m.get("ok") if isinstance(m, dict) else None) for k, m in zip(keys, model)}
    out = []
    seen = set()
    kinds = {}
    memo = {}

    def delegate_may_stamp(cls, names):
        """does the table let a call of one of `names` stamp an object of class `cls`: the class has a member of
        that name with a path that stamps the object itself, or some class has one that stamps a linked data object"""
        key = (cls, tuple(names))
        if key not in memo:
            qs = [["resolve", cls, f] for f in names] + [["resolve", "DimensionLink", f] for f in names]
            ans = core.run_driver(PROP, qs)
            own = any(isinstance(a, dict) and a.get("ok") and any(o[1] in ("self", "always") for o in a["ok"]["outcomes"])
                      for a in ans[:len(names)])
            linked = cls in ("DataArray", "DataFrame") and any(
                isinstance(a, dict) and a.get("ok") and any(o[1] == "linked" for o in a["ok"]["outcomes"])
                for a in ans[len(names):])
            memo[key] = own or linked
        return memo[key]
    for r in recs:
        t = table[(r["cls"], r["member"])]
        if r["kind"] == "get":
            # a getter is no member of the table (`resolve` knows setters and methods): reading changes nothing
            t = {"kind": "getter", "outcomes": [["returns", "none"], ["raises", "none"]], "foreign": []}
        case = {"member_sweep": {k: r[k] for k in ("cls", "member", "kind", "on", "recipe", "shown", "accepted", "variant")}}
        upd = [c for c in r["changed"] if c[2] == "updated_at"]
        cre = [c for c in r["changed"] if c[2] == "created_at"]
        seen.add((r["cls"], r["member"], r["accepted"]))
        if t is None:
            out.append(Disagreement(case, "no such member in the generated table", r["changed"]))
            continue
        if t["kind"] in ("forceCreated", "forceUpdated"):
            kinds["force"] = kinds.get("force", 0) + 1
            continue          # the explicit force calls: the force histories
        touches = sorted(set(o[1] for o in t["outcomes"] if o[0] == ("returns" if r["accepted"] else "raises")))
        if not touches:
            if r["accepted"]:
                out.append(Disagreement(case, "the table has no returning path for this member", "accepted"))
                continue
            touches = ["none"]         # refused at the call boundary
        key = "+".join(touches)
        kinds[key] = kinds.get(key, 0) + 1
        pred = {"touches": touches}
        bad = None
        # a member that hands the change on to a stamping member of ANOTHER object: that object's own table entry
        # says what is stamped
        others = [c for c in upd if c[0] != r["self"]]
        if others and t.get("foreign") and not cre:
            if all(c[3] == r["now"] and delegate_may_stamp(c[1], t["foreign"]) for c in others):
                kinds["delegated"] = kinds.get("delegated", 0) + 1
                upd = [c for c in upd if c[0] == r["self"]]
        if cre:
            bad = "created_at changed"
        elif not (set(touches) - {"none"}):
            if upd:
                bad = "no path of the member stamps anything"
        elif "linked" in touches:
            if len(upd) > 1 or [c for c in upd if c[1] not in ("DataArray", "DataFrame")]:
                bad = "only the linked data object may be stamped"
            elif r["accepted"] and touches == ["linked"] and len(upd) != 1:
                bad = "the linked data object must be stamped"
        else:
            if [c for c in upd if c[0] != r["self"]]:
                bad = "only the object itself may be stamped"
            elif r["accepted"] and not (set(touches) - {"self", "always"}) and r["self"] is not None \
                    and r["self_updated"] != r["now"]:
                bad = "every returning path stamps the object itself with the clock"
        if bad:
            pred["violated"] = bad
            out.append(Disagreement(case, pred, {"changed": r["changed"], "self": r["self"],
                                                 "self_updated": r["self_updated"], "clock": r["now"]}))
    dist["member_sweep_on"] = {"calls": len(recs), "members": len(keys), "by_predicted_touch": kinds,
                               "objects": cov.get("objects_on"), "never_accepted": cov.get("members_never_accepted")}
    return len(recs), out, seen


def resolution_cases():
    """for every class of the nixio modules the translator reads and every setter / method name of the table's
    interest (all property setters, the force methods, the append_* methods): the class whose definition Python's
    attribute lookup reaches and what kind of member it is, from the live class objects"""
    import importlib
    import pkgutil
    import nixio
    classes = {}
    for mi in pkgutil.iter_modules(nixio.__path__):
        if mi.ispkg or mi.name in ("info", "validator"):
            continue
        try:
            mod = importlib.import_module("nixio." + mi.name)
        except Exception:
            continue
        for name, obj in vars(mod).items():
            if inspect.isclass(obj) and obj.__module__ == mod.__name__:
                import enum
                if not issubclass(obj, enum.Enum) and not issubclass(obj, BaseException):
                    classes[name] = obj
    names = set(["force_created_at", "force_updated_at"])
    for c in classes.values():
        for n, obj in vars(c).items():
            if isinstance(obj, property) and obj.fset is not None:
                names.add(n)
            elif n.startswith("append_") and callable(obj):
                names.add(n)
    cases, impl = [], []
    for cn, c in sorted(classes.items()):
        for n in sorted(names):
            found = None
            for k in c.__mro__:
                if n in vars(k):
                    obj = vars(k)[n]
                    if isinstance(obj, property):
                        if obj.fset is None:
                            found = None         # a read-only property: no setter in the table ...
                            # ... unless a base class defines a setter of that name, which Python does not reach
                        else:
                            found = {"cls": k.__name__, "kind": "setter"}
                    elif callable(obj) or isinstance(obj, (classmethod, staticmethod)):
                        found = {"cls": k.__name__, "kind": {"force_created_at": "forceCreated",
                                                             "force_updated_at": "forceUpdated"}.get(n, "method")}
                    break
            if found is not None and found["cls"] not in classes:
                found = None
            cases.append(["resolve", cn, n])
            impl.append(found)
    return cases, impl


def setter_coverage():
    """setters / mutators of the entity classes found by introspection vs the catalogue"""
    nix = _nix()
    import nixio.property
    import nixio.feature
    classes = {"block": nix.Block, "group": nix.Group, "data_array": nix.DataArray, "data_frame": nix.DataFrame,
               "tag": nix.Tag, "multi_tag": nix.MultiTag, "source": nix.Source, "section": nix.Section,
               "property": nixio.property.Property, "feature": nixio.feature.Feature}
    total, covered, missing = 0, 0, []
    for k, c in classes.items():
        have = set(m for m, _, _, _ in CATALOGUE[k])
        for name, obj in inspect.getmembers(c):
            if isinstance(obj, property) and obj.fset is not None:
                total += 1
                if name in have:
                    covered += 1
                else:
                    missing.append("%s.%s" % (k, name))
    return {"property_setters": total, "in_catalogue": covered, "not_in_catalogue": missing}


# ---------------------------------------------------------------------------------------
# property oracle on the implementation (independent of the model and of the setter table)


def utc_str(t):
    """reference conversion: time.gmtime-free, via calendar arithmetic of the standard library"""
    import datetime as _dt
    d = _dt.datetime(1970, 1, 1) + _dt.timedelta(seconds=t)
    return "%04d%02d%02dT%02d%02d%02d" % (d.year, d.month, d.day, d.hour, d.minute, d.second)


def oracle_roundtrip(ctx, n):
    from nixio.util import util as UU
    fails = []
    rng = ctx.rng
    ts = [0, 1, 59, 60, 86399, 86400, T2100 - 1, 951782399, 951782400, 951868799, 951868800, 2147483647,
          2147483648, 4107542399 - 5097600]
    ts += [rng.randrange(0, T2100) for _ in range(n)]
    ts += [d * 86400 + rng.choice([0, 86399]) for d in rng.sample(range(47482), min(47482, n // 2))]
    with warnings.catch_warnings():
        warnings.simplefilter("ignore")
        for t in ts:
            try:
                s = UU.time_to_str(t)
                b = UU.str_to_time(s)
                ss = s.decode() if isinstance(s, bytes) else s
            except Exception as e:
                fails.append(Failure("time conversion raised for a whole second in 1970..2100", ["roundtrip", t],
                                     type(e).__name__, t, "util.time_to_str / str_to_time"))
                continue
            if b != t:
                fails.append(Failure("str_to_time(time_to_str(t)) != t", ["roundtrip", t], b, t,
                                     "util.time_to_str / str_to_time"))
            elif ss != utc_str(t):
                fails.append(Failure("time_to_str(t) is not the UTC calendar time 'YYYYMMDDTHHMMSS'", ["roundtrip", t],
                                     ss, utc_str(t), "util.time_to_str"))
    return len(ts), fails


@contextlib.contextmanager
def process_timezone(name):
    """run a block with the process's local time zone set to `name` (the conversion must not depend on it)"""
    import time as _time
    old = os.environ.get("TZ")
    os.environ["TZ"] = name
    _time.tzset()
    try:
        yield
    finally:
        if old is None:
            os.environ.pop("TZ", None)
        else:
            os.environ["TZ"] = old
        _time.tzset()


def zone_transitions(name, years):
    """UTC seconds at which the zone's offset changes (daylight saving switches), found with zoneinfo"""
    import datetime as _dt
    import zoneinfo
    try:
        z = zoneinfo.ZoneInfo(name)
    except Exception:
        return []
    out = []
    utc = _dt.timezone.utc
    for y in years:
        t = int(_dt.datetime(y, 1, 1, tzinfo=utc).timestamp())
        end = int(_dt.datetime(y + 1, 1, 1, tzinfo=utc).timestamp())
        off = lambda x: _dt.datetime.fromtimestamp(x, utc).astimezone(z).utcoffset()
        while t < end:
            nxt = min(t + 7 * 86400, end)
            if off(t) != off(nxt):
                lo, hi = t, nxt
                while hi - lo > 1:
                    mid = (lo + hi) // 2
                    if off(mid) == off(lo):
                        lo = mid
                    else:
                        hi = mid
                out.append(hi)
            t = nxt
    return out


def oracle_roundtrip_zones(ctx):
    """the round trip and the UTC text in processes whose local time zone is not UTC: seconds around the daylight
    saving switches of the zone (the repeated and the skipped local hour), the range boundaries and random seconds"""
    rng = ctx.rng
    fails = []
    n = 0
    zones = ["Europe/Berlin", "America/New_York", "Australia/Lord_Howe", "Asia/Kolkata"]
    if ctx.quick():
        zones = [zones[0], rng.choice(zones[1:])]
    for zone in zones:
        years = rng.sample(range(1971, 2037), 4 if ctx.quick() else 20)
        ts = [0, 1, 86399, 86400, T2100 - 1, 951782400, 2147483647, 2147483648]
        for tr in zone_transitions(zone, years):
            ts += [tr - 3601, tr - 3600, tr - 1801, tr - 1, tr, tr + 1, tr + 1799, tr + 3599, tr + 3600, tr + 7199]
        ts += [rng.randrange(0, T2100) for _ in range(50)]
        with process_timezone(zone):
            m, f = roundtrip_seconds([t for t in ts if 0 <= t < T2100], " (process time zone %s)" % zone,
                                     {"TZ": zone})
        n += m
        fails += f
    fails.sort(key=lambda x: "!= t" not in x.what)        # (the round trip itself first)
    return n, fails


def roundtrip_seconds(ts, note="", extra=None):
    from nixio.util import util as UU
    fails = []
    with warnings.catch_warnings():
        warnings.simplefilter("ignore")
        for t in ts:
            inp = ["roundtrip", t] + ([extra] if extra else [])
            try:
                s = UU.time_to_str(t)
                b = UU.str_to_time(s)
                ss = s.decode() if isinstance(s, bytes) else s
            except Exception as e:
                fails.append(Failure("time conversion raised for a whole second in 1970..2100" + note, inp,
                                     type(e).__name__, t, "util.time_to_str / str_to_time"))
                continue
            if b != t:
                fails.append(Failure("str_to_time(time_to_str(t)) != t" + note, inp, b, t,
                                     "util.time_to_str / str_to_time"))
            elif ss != utc_str(t):
                fails.append(Failure("time_to_str(t) is not the UTC calendar time 'YYYYMMDDTHHMMSS'" + note, inp,
                                     ss, utc_str(t), "util.time_to_str"))
    return len(ts), fails


def is_scene(op):
    return op[0] == "create" and isinstance(op[-1], dict) and bool(op[-1].get("scene"))


def check_history(ctx, ops, tag, quiet_scene=True):
    """run a history on the implementation and test the property text directly on the observed time stamps.  Every
    entity is observed through a freshly fetched handle AND through every handle that was obtained earlier and kept
    (the object a create_* call returned, objects reached through links): the property speaks about the entity,
    whichever object of the program stands for it."""
    clock = Clock()
    sess = Session(ctx.tmpfile("c19-o%s.nix" % tag), clock)
    fails = []
    n = 0
    ops = list(ops)          # probes may be inserted (see below): the reported history is the one that was run
    # the switch as the USER set it (at open time, by assignment, by re-opening): "with automatic timestamps
    # enabled / disabled" in the property text is this setting, not whatever the File object holds after some call
    user_auto = None
    probed = None
    stats = ctx.__dict__.setdefault("c19_oracle_stats", {"switch_mismatch": 0, "probes": 0})
    with patched_clock(clock):
        try:
            prev = None
            k = -1
            while k + 1 < len(ops):
                k += 1
                op = ops[k]
                before = prev or {}
                auto_before = user_auto
                clock_before = clock.t
                if quiet_scene and is_scene(op) and k + 1 < len(ops) and is_scene(ops[k + 1]):
                    # inside the scene's run of creations: performed, not observed (the last one is)
                    if sess.apply(op, observe=False)["res"] != "done":
                        break
                    n += 1
                    continue
                out = sess.apply(op)
                n += 1
                if out.get("res") == "done":
                    if op[0] == "open":
                        user_auto = bool(op[2])
                    elif op[0] in ("set_auto", "reopen"):
                        user_auto = bool(op[1])
                # the File object's switch differs from what the user set: some call changed it as a side effect.
                # Not by itself something the property forbids - but every later attribute change is then stamped
                # (or not) against the user's setting: insert probes right here (clock advanced, `definition` /
                # `type` of a few entities changed) so that the history shows it.
                if user_auto is not None and "auto" in out and out["auto"] != user_auto and probed != out["auto"] \
                        and not (k + 1 < len(ops) and isinstance(ops[k + 1][-1], dict) and ops[k + 1][-1].get("probe")):
                    probed = out["auto"]
                    stats["switch_mismatch"] += 1
                    ins = probe_ops(sess, clock.t)
                    stats["probes"] += len(ins) // 2
                    ops[k + 1:k + 1] = ins
                elif "auto" in out and out["auto"] == user_auto:
                    probed = None
                after = {(r[0], "a fresh handle"): (r[1], r[2]) for r in out["stamps"]}
                for r in sess.last_views:
                    after[(r[0], "the handle " + r[1])] = (r[2], r[3])
                prev = after
                name = op[0]
                hist = {"history": ops[:k + 1], "at": k}

                def fail(what, obs, req, site):
                    fails.append(Failure(what, hist, obs, req, site))
                if name == "open":
                    continue
                if "untracked" in out:
                    # an object appeared / disappeared that the operation did not name: outside C19
                    break
                target = op[1] if name in ("call", "force_created", "force_updated") else None
                ok = out["res"] == "done"
                for key, (c0, u0) in before.items():
                    if key not in after:
                        continue
                    i, view = key
                    c1, u1 = after[key]
                    thru = "" if view == "a fresh handle" else " (read through %s)" % view
                    # creation time is fixed
                    if c1 != c0 and not (name == "force_created" and i == target):
                        fail("created_at of entity %d changed as a side effect of %s%s" % (i, name, thru), c1, c0,
                             "entity.created_at")
                    # switch off: nothing but a force call changes a time stamp
                    if not auto_before and u1 != u0 and not (name == "force_updated" and i == target):
                        fail("updated_at of entity %d changed with auto_update_timestamps off (%s)%s"
                             % (i, name, thru), u1, u0, "file.auto_update_timestamps")
                    # no other entity's update time
                    if u1 != u0 and i != target and name != "force_updated":
                        fail("updated_at of entity %d changed by an operation on entity %s%s" % (i, target, thru),
                             u1, u0, "%s" % (op[3] if name == "call" else name))
                    # never backwards while the clock does not (history without force into the future)
                    if (name not in ("force_updated",) and isinstance(u0, int) and isinstance(u1, int)
                            and u1 < u0 and u0 <= clock_before):
                        fail("updated_at of entity %d moved backwards%s" % (i, thru), u1, u0, name)
                # switch on: changing a listed attribute sets exactly that entity's update time to the clock
                changed = (sess.last_call or {}).get("changed")
                through_link = name == "call" and isinstance(op[-1], dict) and op[-1].get("how") == "dimlink"
                if (name == "call" and ok and auto_before and op[3] in LISTED and (op[2] is None or through_link)
                        and 0 <= clock.t < T2100 and changed):
                    for (i, view), (c1, u1) in after.items():
                        if i == target and u1 != clock.t:
                            thru = "" if view == "a fresh handle" else " (read through %s)" % view
                            fail("changing %s.%s%s with auto_update_timestamps on did not set updated_at to the "
                                 "current time%s" % (sess.ents[target]["kind"], op[3],
                                                     " through a dimension linked to it" if through_link else "",
                                                     thru), u1, clock.t,
                                 "%s.%s" % ("DimensionLink" if through_link else CLS_OF[sess.ents[target]["kind"]],
                                            op[3]))
                # force round trip
                if name in ("force_created", "force_updated") and ok and isinstance(op[2], int) \
                        and not isinstance(op[2], bool) and 0 <= op[2] < T2100:
                    for (i, view), st in after.items():
                        got = st[0 if name == "force_created" else 1]
                        if i == target and got != op[2]:
                            thru = "" if view == "a fresh handle" else " (read through %s)" % view
                            fail("%s(%d) read back differently%s" % (name, op[2], thru), got, op[2],
                                 "entity.%s_at" % name)
                if name == "reopen" and ok:
                    for key in before:
                        if key[1] == "a fresh handle" and key in after and after[key] != before[key]:
                            fail("time stamps of entity %d changed by closing and re-opening the file" % key[0],
                                 list(after[key]), list(before[key]), "File.open")
        finally:
            sess.close()
    try:
        os.remove(sess.path)
    except OSError:
        pass
    return n, fails


def probe_ops(sess, now):
    """clock advanced + an accepted change of a listed attribute, for a few live entities of different kinds"""
    out = []
    t = now if 0 <= now < T2100 - 100 else 1000000000
    seen = set()
    for i in sess.alive():
        kind = sess.ents[i]["kind"]
        if kind in ("file", "feature") or kind in seen or len(seen) >= 3:
            continue
        seen.add(kind)
        t += 1
        sess.counter += 1
        out.append(["set_clock", t, {"probe": True}])
        out.append(["call", i, None, "definition", "good",
                    {"how": "set", "value": "probe %d" % sess.counter, "probe": True}])
    return out


FIXED_CASES = None


def fixed_histories():
    """minimal failing inputs of the defects repaired in /repo (kept so that a regression is a VIOLATION again)"""
    out = []
    for c in core.load_corpus(PROP):
        out.append(c)
    return out


def oracle(ctx, broken, hints):
    rng = ctx.rng
    failures = []
    evals = 0
    n, f = oracle_roundtrip(ctx, 20000 if broken else ctx.budget(2000, 20000))
    evals += n
    failures += f
    n, f = oracle_roundtrip_zones(ctx)
    evals += n
    failures += f
    hist = []
    for h in hints[:20]:
        if isinstance(h, dict) and "history" in h:
            hist.append(h["history"])
        elif isinstance(h, list) and h and h[0] == "time_to_str" and isinstance(h[1], int) and 0 <= h[1] < T2100:
            pass
    hist += fixed_histories()
    # refused calls of every creating / mutating kind, each followed by a change that must (not) be stamped; the quick
    # tier runs the switch-on variant set at open or toggled later (alternating with the seed) and the switch-off one
    rv = refusal_variants()
    if not broken and ctx.quick():
        rv = [rv[rng.randrange(2)], rv[2]]
    hist += [h for _, h in refusal_histories(rng, rv, sample=None if broken or not ctx.quick() else 40)]
    # (quick tier on a tree where every obligation checked: a sample of the force and matrix histories, changing with
    # the seed; everything when something is broken and in the thorough tier)
    fh = [h for _, h in force_histories(rng)]
    mh = [h for _, h in matrix_histories(rng, copies=True)]
    if not broken and ctx.quick():
        fh = rng.sample(fh, min(len(fh), 6))
        mh = rng.sample(mh, min(len(mh), 26))
    hist += fh
    hist += mh
    g = Gen(rng)
    hist.append(g.sweep())
    systematic = len(hist)
    for _ in range(40 if broken else ctx.budget(4, 40)):
        g = Gen(rng)
        hist.append(g.history(rng.choice([60, 100])))
    seen = set()
    for k, h in enumerate(hist):
        if broken and k >= systematic and failures:
            break            # the systematic part already produced a failing input: no need for the random search
        try:
            n, f = check_history(ctx, h, "%d" % k)
        except Exception as e:
            ctx.notes.append("oracle history %d aborted: %s: %s" % (k, type(e).__name__, e))
            continue
        evals += n
        for x in f:
            key = (x.what, x.site)
            if key not in seen:
                seen.add(key)
                failures.append(x)
    failures.sort(key=lambda f: len(core.canon(f.input)))
    # shrink the history of the reported failures to what is needed
    failures = [shrink_failure(ctx, f) for f in failures[:3]] + failures[3:]
    # every public member of every class reachable from the File (found by introspection), called with the switch
    # off: no stored time stamp of any pre-existing entity may change (and, with the switch on: no created_at, no
    # updated_at backwards).  All objects when something is broken and in the thorough tier, a share of them otherwise.
    from . import c19_off
    full = broken or not ctx.quick()
    cached = ctx.__dict__.get("c19_on_sweep")        # the switch-on sessions the correspondence has run already
    try:
        n, f, cov = c19_off.run(ctx, rng, share=1.0 if full else 0.3, pristine=not ctx.quick(), second_pass=full,
                                entity_share=1.0 if full else 0.6,
                                on_share=(1.0 if broken else 0.0) if cached else (1.0 if full else 0.12))
        if cached:
            n += cached["calls"]
            f = f + [x for x in cached["failures"] if (x.what, x.site) not in set((y.what, y.site) for y in f)]
    except Exception as e:
        ctx.notes.append("switch-off sweep aborted: %s: %s" % (type(e).__name__, e))
        n, f, cov = 0, [], {"aborted": "%s: %s" % (type(e).__name__, e)}
    evals += n
    swept = [c19_off.shrink(ctx, x) for x in f[:3]] + f[3:]
    failures = sorted(failures + swept, key=lambda f: len(core.canon(f.input)))      # (the shortest input is reported)
    return {"evaluations": evals, "failures": failures, "histories": len(hist), "systematic_histories": systematic,
            "switch_checks": getattr(ctx, "c19_oracle_stats", {}), "member_sweep": cov}


def shrink_failure(ctx, f):
    inp = f.input
    if not (isinstance(inp, dict) and "history" in inp):
        return f
    ops = list(inp["history"])
    what = f.what

    def still(h):
        try:
            _, fs = check_history(ctx, h, "s")
        except Exception:
            return None
        for x in fs:
            if x.what.split(" of entity")[0] == what.split(" of entity")[0] and x.site == f.site:
                return x
        return None
    # remove ops that are neither `open` nor accepted creations (entity indices stay valid): delta debugging over
    # the removable positions (chunks first, then single operations); the failing operation itself stays
    def removable(h):
        return [i for i in range(1, len(h) - 1)
                if not (h[i][0] in ("open", "copy") or (h[i][0] == "create" and h[i][3] == "good"))]
    best = f
    budget = 70
    rem = removable(ops)
    n = 2
    while rem and budget > 0:
        size = max(1, (len(rem) + n - 1) // n)
        chunks = [rem[i:i + size] for i in range(0, len(rem), size)]
        reduced = False
        for ch in chunks:
            if budget <= 0:
                break
            drop = set(ch)
            cand = [op for i, op in enumerate(ops) if i not in drop]
            budget -= 1
            x = still(cand)
            if x is not None:
                # what was run (up to the failing operation, probes included) is the new history
                ops = list(x.input["history"])
                best = x
                rem = removable(ops)
                n = max(n - 1, 2)
                reduced = True
                break
        if not reduced:
            if size == 1:
                break
            n = min(len(rem), n * 2)
    return best


def matches_known(entry, failure):
    return False


def replay_failure(ctx, fj):
    inp = fj["input"]
    if isinstance(inp, dict) and "off_sweep" in inp:
        from . import c19_off
        fs = c19_off.replay(ctx, inp)
        for x in fs:
            if x.site == fj.get("site"):
                return x
        return fs[0] if fs else None
    if isinstance(inp, dict) and "history" in inp:
        _, fs = check_history(ctx, inp["history"], "r")
        for x in fs:
            if x.site == fj.get("site"):
                return x
        return fs[0] if fs else None
    if isinstance(inp, list) and len(inp) == 3 and inp[0] == "roundtrip" and isinstance(inp[2], dict):
        with process_timezone(inp[2].get("TZ", "UTC")):
            _, fs = roundtrip_seconds([inp[1]], " (process time zone %s)" % inp[2].get("TZ"), inp[2])
        return fs[0] if fs else None
    if isinstance(inp, list) and inp and inp[0] == "roundtrip":
        from nixio.util import util as UU
        with warnings.catch_warnings():
            warnings.simplefilter("ignore")
            try:
                b = UU.str_to_time(UU.time_to_str(inp[1]))
            except Exception as e:
                return Failure("time conversion raised", inp, type(e).__name__, inp[1], "util")
        if b != inp[1]:
            return Failure("str_to_time(time_to_str(t)) != t", inp, b, inp[1], "util.time_to_str / str_to_time")
    return None


LEANCHECK_MODULES = ["NixModel.Props.C19", "NixModel.Lemmas.C19Stamps", "NixModel.Lemmas.C19Time",
                     "NixModel.Lemmas.C19Days", "NixModel.Lemmas.C19TimeFormat", "NixModel.Pure.Stamps",
                     "NixModel.Pure.StampsCreate", "NixModel.Pure.TimeFormat", "NixModel.Generated.TimeShape",
                     "NixModel.Pure.Time", "NixModel.Py.Civil", "NixModel.Generated.Setters",
                     "NixModel.Generated.Creation"]

READY = True
MANIFEST = {
    "level_text": "Kernel-checked theorems over a Lean model of the time stamp machinery: str_to_time(time_to_str(t)) "
                  "= t for every whole second 1970..2100 (civil-date table over all 47 482 days by decide +kernel, "
                  "lifted by t = 86400 d + s), the conversions being those of the format strings and the epoch the "
                  "source hands to strftime / strptime (generated, interpreted in Lean, proved equal to the model for "
                  "every argument); over a state machine of entities with stored created_at / updated_at, "
                  "for all histories: created_at only changes by force_created_at, updated_at is monotone under "
                  "non-force operations with a non-decreasing clock, nothing but force changes a stamp with the switch "
                  "off, with the switch on every listed attribute setter of every entity kind sets exactly that "
                  "entity's updated_at to the clock on EVERY returning path of its body and stamps nothing on any "
                  "raising path (the table of paths - exit x whether the idiom ran - is regenerated from the source by a "
                  "path-sensitive AST analysis on every run, so a setter that loses the idiom, or skips it by an early "
                  "return or a condition, breaks the build on a named theorem), the label / unit setters of a linked "
                  "dimension stamp the linked data object, no method of any class stamps anything but its own object "
                  "(or that linked object), an entity no operation is directed at keeps both stamps over any history, "
                  "every create_new chain and create_* factory of the source leaves both stamps of the new entity = "
                  "clock and the model's creation / open / reopen are exactly that (generated creator, factory and "
                  "File.__init__ shapes), the switch is assigned only by File.__init__ and its own setter (table of "
                  "every use of the switch in nixio/**/*.py) and over any history equals the user's last assignment, "
                  "so a listed setter still stamps after any history of refused or accepted calls; no path of any "
                  "member of any class writes a stamp outside the switch test (generated touch state `always`, which the "
                  "model would follow), exactly twelve members invoke a stamping member of another object (generated "
                  "Member.foreign, pinned), every mention of the machinery in nixio/**/*.py stands in an analysed method, "
                  "util's definitions, the converter tool or is a read (generated stampSites: nothing at module level, "
                  "nothing in the HDF5 layer); a copy of an entity with everything it owns carries the stamps of its "
                  "sources, member by member; the getters "
                  "parse the stored attribute (generated getter shapes: no per-object state), forced stamps read back "
                  "also after reopen, a refused force call changes nothing, forcing one stamp leaves the other.",
    "level_note": "Trusted: Lean kernel; the AST translator for the setter / getter / creator / switch-use tables (its "
                  "flow analysis over-approximates paths; which path a real call takes is not observed); Py.Civil as "
                  "stand-in for CPython's datetime; the differential runs (controlled clock, every setter of every kind "
                  "with every class of value incl. clearing ones, refused creations and calls of every kind each "
                  "followed by a probe, dimension and linked-dimension setters, copies of every copyable kind, all "
                  "entities' stamps and the File's switch compared after each call on real HDF5 files, read through fresh "
                  "and kept handles) for the hand-written part of the model; the member sweep (every public member of "
                  "every class reachable from the File, found by introspection, called in a scene of contrasting states: "
                  "with the switch off no stored stamp of a pre-existing entity may change, with it on the changes must "
                  "fit the generated outcomes / foreign lists).",
    "technique": "Lean 4 proof (decide +kernel day table + induction over operation histories + generated "
                 "path-sensitive setter table, getter / creator / factory / File.__init__ shapes and switch-use table, "
                 "interpreted in Lean) with differential correspondence",
}
