"""C16 — a data frame is a faithful table (nixio/data_frame.py, Block.create_data_frame, hdf5/h5dataset.py).

Model: lean/NixModel/Pure/Frame.lean (abstract table), Pure/FrameRec.lean (rows / creation data given as NumPy
structured arrays), Pure/FrameBytes.lean (the table as stored: text cells as UTF-8 bytes, raw and converted rows as in
the code — the machine the driver runs); theorems: lean/NixModel/Props/C16.lean; driver: lean/Driver/C16.lean.

A line of the protocol whose rows are handed over as a structured array carries a trailing presentation object
{"rec": [[field name, field type], ...], "mem": [memory rank per field], "pad": n, "how": "array" | "view" | "voids" |
"frame"} (see Session.rec); the model takes such rows by position whatever the field names and the layout are.

Correspondence: histories are generated *online* against the real nixio (real HDF5 files under ctx.scratch): every
operation is drawn from the frame's current schema and row count, executed, and followed by a full dump; the
recorded lines are then piped through the model driver and both output streams are compared line by line.
Oracle: an independent shadow table (plain Python lists) is updated by the *intended* meaning of every legal,
well-typed write; after every operation the frame is read back through every read API and compared; writes refused
for one of the causes the property lists must leave the table unchanged; legal writes must be accepted.
"""
import json
import os
from collections import OrderedDict
from fractions import Fraction

from ..lib import core
from ..lib.core import Failure, Disagreement
from ..extract import frameshape as _ex

PROP = "C16"
LEAN_MODULE = "NixModel.Props.C16"
THEOREMS = [
    "Nix.C16.C16_read_what_written",
    "Nix.C16.C16_frame",
    "Nix.C16.C16_shape_consistent",
    "Nix.C16.C16_refused_unchanged",
    "Nix.C16.C16_welltyped_stored",
    "Nix.C16.C16_index_addresses_itself",
    # every read API is a view of the stored table
    "Nix.C16.C16_read_cell_is_table",
    "Nix.C16.C16_read_rows_is_table",
    "Nix.C16.C16_read_columns_is_table",
    "Nix.C16.C16_cell_write_read_everywhere",
    # every refusal class is refused (frame returned unchanged)
    "Nix.C16.C16_refuses_wrong_length",
    "Nix.C16.C16_refuses_unknown_column",
    "Nix.C16.C16_refuses_out_of_range_row",
    "Nix.C16.C16_refuses_duplicate_column_name",
    "Nix.C16.C16_refuses_unordered_rows",
    "Nix.C16.C16_refuses_unfit_cell",
    "Nix.C16.C16_refuses_out_of_range_number",
    # creation variants, units
    "Nix.C16.C16_creation_schema",
    "Nix.C16.C16_created_reads_back",
    "Nix.C16.C16_columns_units",
    "Nix.C16.C16_schema_frame",
    "Nix.C16.C16_append_column_named",
    # rows / tables handed over as NumPy structured arrays are taken by position (Pure/FrameRec.lean)
    "Nix.C16.C16_record_rows_positional",
    "Nix.C16.C16_record_creation_positional",
    "Nix.C16.C16_record_histories",
    # the table as stored (text as UTF-8 bytes, raw / converted rows as in the code): the machine the driver runs
    "Nix.C16.C16_storage_simulates",
    "Nix.C16.C16_storage_reads",
    "Nix.C16.C16_rollbacks_restore",
    "Nix.C16.C16_text_roundtrip",
    "Nix.C16.C16_getitem_is_table",
    # the frames of a block: creation under a name, copies, independence (Pure/FrameBlock.lean)
    "Nix.C16.C16_block_frames_independent",
    "Nix.C16.C16_block_create",
    "Nix.C16.C16_block_copy",
    # shape of the source (Generated/FrameShape.lean, regenerated on every run)
    "Nix.C16.C16_handles_stateless",
    "Nix.C16.C16_guards_as_modelled",
    "Nix.C16.C16_calls_as_modelled",
    "Nix.C16.C16_read_path_as_modelled",
]
ASSUMPTIONS = [
    "cells are Python int / finite float / bool / str; floats are compared as the exact rationals they denote",
    "a non-string cell offered to a text column by append_rows / append_column / write_column is refused by h5py "
    "only while the data are being stored; the code then rolls back (fixes ad11a3a, e4fbac6, 2f1693f): modelled "
    "effect by effect in Pure/FrameFx.lean and proved to end in the state of the atomic model "
    "(C16_rollbacks_restore); at creation and in write_rows / write_cell the model still refuses such a cell up front "
    "(same observable outcome: error class, table unchanged)",
    "numeric-literal strings offered to numeric columns, integers beyond 2^53 offered to float columns and NaN/inf "
    "are outside the modelled domain (a number an integer column cannot hold is inside it: refused in every spelling "
    "since fix ac50c5b)",
    "write_column takes homogeneous columns (np.array(column) would stringify a mixed one)",
    "unit strings are fixed points of units.sanitizer (C09 covers the sanitizer)",
    "OverflowError is canonicalised to ValueError, DuplicateColumnName to DuplicateName, h5py's OSError for an "
    "out-of-extent selection to IndexError",
    "rows given as a NumPy structured array hold, per field, cells of one kind that the positional conversions "
    "(tuple by tuple and NumPy's structured cast) treat alike: well-typed cells, bool / small int / float cells for "
    "numeric columns, numbers the column cannot hold (refused); np.recarray (np.record rows) is not a "
    "structured-array creation variant for the code (type(data[0]) == np.void)",
    "frames are created under fresh names df<k> / copy<k>; the text of a name (validity, odd characters) is outside "
    "the model; NameError of create_data_frame(copy_from=...) for a name in use is canonicalised to DuplicateName",
    "closing and reopening the file is the identity in the model; tied by reopen operations inside the generated "
    "histories",
    "the model has one table per frame whatever DataFrame object is used: C16_handles_stateless proves from the "
    "regenerated source shape that DataFrame objects carry no state; histories go through up to 4 live objects of "
    "the frame and read through each of them after every write",
]
TRUSTED_EXTRA = []

TYPES = ["text", "i8", "i16", "i32", "i64", "u8", "f64", "bool"]
RANGE = {"i8": (-128, 127), "i16": (-32768, 32767), "i32": (-2 ** 31, 2 ** 31 - 1), "i64": (-2 ** 63, 2 ** 63 - 1),
         "u8": (0, 255)}
NAME_POOL = ["a", "b", "name", "id", "time", "sig1", "x y", " ", "é", "data", "units", "f0", "f1", "f2", "A",
             "a.b", "a/b", "q'\"", "über", "n" * 40, "", "0", "name ", "中", "col\n2"]
STRS = ["", "a", "alpha", "x y", "é", "中文", "q'\"", "line\n2", " lead", "trail ", "A" * 70, "0x", "b"]
BAD_NUM_STRS = ["x", "é", "", "a b", "q7"]
FLOATS = [0.0, 1.5, -2.25, 1e10, 3.0, 0.1, 20.18, -1e-3, 123456.789, 2.0 ** -20, 1e300, -7.0, 5e-324, 0.5]
SMALL_FLOATS = [0.0, 1.5, -2.25, 3.0, 0.1, 20.18, -0.5, 99.99, -7.0, 2.7, -2.7]
UNITS = ["mV", "s", "A", "Hz", "ms", "uV", "kg", "ly", "V/m", "mA"]


def extract(repo):
    return _ex.extract(repo)


def _nix():
    import nixio
    import numpy
    return nixio, numpy


# ---------------------------------------------------------------------------------------
# value encoding


def enc_float(x):
    fr = Fraction(x)
    return ["f", "%d/%d" % (fr.numerator, fr.denominator)]


def py(v):
    tag, x = v
    if tag == "i":
        return int(x)
    if tag == "f":
        n, d = x.split("/")
        return int(n) / int(d) if abs(int(n)) < 2 ** 1000 else float(Fraction(int(n), int(d)))
    if tag == "b":
        return bool(x)
    return str(x)


def np_type(t, variant=0):
    nix, np = _nix()
    table = {
        "text": [str, np.str_, nix.DataType.String, "<U5"],
        "i8": [np.int8, nix.DataType.Int8], "i16": [np.int16, nix.DataType.Int16],
        "i32": [np.int32, nix.DataType.Int32], "i64": [np.int64, int, nix.DataType.Int64],
        "u8": [np.uint8, nix.DataType.UInt8], "f64": [np.float64, float, nix.DataType.Double],
        "bool": [bool, np.bool_, nix.DataType.Bool],
    }[t]
    return table[variant % len(table)]


def type_name(dt):
    nix, np = _nix()
    dt = np.dtype(dt)
    if dt.kind == "O":
        import h5py
        return "text" if h5py.check_string_dtype(dt) is not None or dt == nix.util.vlen_str_dtype else "object"
    return {"int8": "i8", "int16": "i16", "int32": "i32", "int64": "i64", "uint8": "u8", "float64": "f64",
            "bool": "bool"}.get(dt.name, dt.name)


def cell(v, dt=None):
    nix, np = _nix()
    if isinstance(v, (bool, np.bool_)):
        return ["b", bool(v)]
    if isinstance(v, (int, np.integer)):
        return ["i", int(v)]
    if isinstance(v, (float, np.floating)):
        return enc_float(float(v))
    if isinstance(v, str):
        return ["s", str(v)]
    if isinstance(v, bytes):
        return ["bytes", v.decode("latin1")]
    return ["obj", repr(v)]


def row_cells(r):
    return [cell(r[n]) for n in r.dtype.names]


def np_scalar(v, pres):
    """the cell as the NumPy scalar of its kind (every third presentation)"""
    nix, np = _nix()
    if pres % 3 != 2:
        return v
    if isinstance(v, bool):
        return np.bool_(v)
    if isinstance(v, int):
        return np.int64(v) if -2 ** 63 <= v < 2 ** 63 else v
    if isinstance(v, float):
        return np.float64(v)
    return np.str_(v)


def split_form(line):
    """(line without its presentation object, the presentation object or None)"""
    if line and isinstance(line[-1], dict):
        return line[:-1], line[-1]
    return line, None


def err_name(e):
    nix, np = _nix()
    from nixio import exceptions as X
    if isinstance(e, X.OutOfBounds):
        return "OutOfBounds"
    if isinstance(e, X.DuplicateColumnName):
        return "DuplicateName"
    if isinstance(e, X.DuplicateName) or isinstance(e, NameError):
        return "DuplicateName"
    for cls, nm in ((OverflowError, "ValueError"), (IndexError, "IndexError"), (KeyError, "KeyError"),
                    (ValueError, "ValueError"), (TypeError, "TypeError"), (OSError, "IndexError"),
                    (AttributeError, "AttributeError"), (RuntimeError, "RuntimeError")):
        if isinstance(e, cls):
            return nm
    return type(e).__name__


# ---------------------------------------------------------------------------------------
# executing the line protocol on the real nixio


class Session:
    """one HDF5 file, one block, the frame under test"""

    def __init__(self, ctx, k):
        nix, np = _nix()
        self.path = ctx.tmpfile("c16-%s-%d.nix" % (os.getpid(), k))
        self.file = nix.File.open(self.path, nix.FileMode.Overwrite)
        self.block = self.file.create_block("blk", "t")
        self.df = None          # the handle operations go through
        self.handles = []       # live DataFrame objects of the frame under test (kept across operations)
        self.cur = 0
        self.count = 0
        self.nsrc = 0
        self.names = []         # names of the frames created so far (creation order), self.df is one of them

    def close(self):
        try:
            self.file.close()
        except Exception:
            pass
        try:
            os.remove(self.path)
        except OSError:
            pass

    def reopen(self):
        nix, np = _nix()
        name = self.df.name
        self.file.close()
        self.file = nix.File.open(self.path, nix.FileMode.ReadWrite)
        self.block = self.file.blocks[0]
        self.handles = [self.block.data_frames[name], self.block.data_frames[name]]
        self.cur = 0
        self.df = self.handles[0]

    MAX_HANDLES = 4

    def use(self, k):
        """make handle k the one operations go through; an index past the live handles fetches a new object
        (block.data_frames[name] builds one per access); at most MAX_HANDLES are kept, the oldest slot is re-used"""
        if k < 0:
            raise ValueError("handle")
        if k >= len(self.handles):
            fresh = self.block.data_frames[self.df.name]
            if len(self.handles) < self.MAX_HANDLES:
                self.handles.append(fresh)
                k = len(self.handles) - 1
            else:
                k = k % self.MAX_HANDLES
                self.handles[k] = fresh
        self.cur = k
        self.df = self.handles[k]

    # -- observation -------------------------------------------------------------------
    def state(self):
        df = self.df
        return {"names": list(df.column_names), "types": [type_name(d) for d in df.dtype], "nrows": len(df),
                "units": None if df.units is None else [u for u in df.units]}

    def dump(self):
        df = self.df
        data = df[:]
        units = df.units
        return {
            "cols": [[n, type_name(d)] for n, d in zip(df.column_names, df.dtype)],
            "rows": [row_cells(r) for r in data],
            "units": None if units is None else [None if u is None else str(u) for u in units],
            "shape": [int(x) for x in df.df_shape],
            "row_count": int(df.row_count()),
            "columns": [[n, type_name(d), None if u is None else str(u)] for n, d, u in df.columns],
        }

    # -- operations --------------------------------------------------------------------
    def rec(self, rows, form, fields=None):
        """the rows as a NumPy structured array, as the presentation object `form` of the line describes it:
        fields form["rec"] = [[name, type], ...] (dtype.names order; `fields` when absent), laid out in memory in the
        order form["mem"] (rank of each field) with form["pad"] unused bytes; form["how"]: "array" (built by the
        caller), "view" (multi-field selection table[[names]] of a bigger table), "voids" (list of np.void records),
        "frame" (what read_rows / frame[:] of another data frame with those columns returns)"""
        nix, np = _nix()
        fields = form.get("rec") or fields
        k = len(fields)
        names = [str(f[0]) for f in fields]
        tup = [tuple(py(v) for v in r) for r in rows]
        n = len(tup)
        how = form.get("how", "array")
        if how == "matrix":
            # a plain 2-D array (all fields of one type): its rows are sequences of NumPy scalars
            return np.array(tup, dtype=np.dtype(np_type(fields[0][1], 0))).reshape((n, k))
        if how == "frame":
            self.nsrc += 1
            if form.get("read") == "columns" and k > 1:
                # the other frame holds the columns in memory order `mem`; read_columns(name=[...]) returns them in
                # the requested order: a multi-field view (permuted offsets, text as objects)
                mem = list(form.get("mem") or range(k))
                order = sorted(range(k), key=lambda j: mem[j])
                cd = OrderedDict((names[j], np_type(fields[j][1], 0)) for j in order)
                src = self.block.create_data_frame("src%d" % self.nsrc, "c16.src", col_dict=cd,
                                                   data=[tuple(t[j] for j in order) for t in tup] or None)
                return src.read_columns(name=list(names))
            cd = OrderedDict((nm, np_type(t, 0)) for nm, t in fields)
            src = self.block.create_data_frame("src%d" % self.nsrc, "c16.src", col_dict=cd, data=tup or None)
            if n and form.get("read", "rows") == "rows":
                return src.read_rows(list(range(n)))
            return src[:]
        widths = [max([1] + [len(t[j]) for t in tup if isinstance(t[j], str)]) for j in range(k)]
        fmts = [np.dtype("U%d" % w) if f[1] == "text" else np.dtype(np_type(f[1], 0)) for f, w in zip(fields, widths)]
        mem = list(form.get("mem") or range(k))
        pad = int(form.get("pad", 0))
        order = sorted(range(k), key=lambda j: mem[j])
        if how == "view":
            junk = "_"
            while junk in names:
                junk += "_"
            base_dt = []
            for pos, j in enumerate(order):
                if pad and pos == (pad % (k + 1)):
                    base_dt.append((junk, np.int16))
                base_dt.append((names[j], fmts[j]))
            if pad and (pad % (k + 1)) == k:
                base_dt.append((junk, np.int16))
            base = np.zeros(n, dtype=np.dtype(base_dt))
            for j in range(k):
                if n:
                    base[names[j]] = [t[j] for t in tup]
            return base[list(names)]
        if mem == list(range(k)) and not pad:
            dt = np.dtype(list(zip(names, fmts)))
        else:
            off, cur = [0] * k, pad // 2
            for j in order:
                off[j] = cur
                cur += fmts[j].itemsize
            dt = np.dtype({"names": names, "formats": fmts, "offsets": off, "itemsize": cur + pad - pad // 2})
        arr = np.zeros(n, dtype=dt)
        for j in range(k):
            if n:
                arr[names[j]] = [t[j] for t in tup]
        if how == "voids":
            return list(arr)
        return arr

    def _rows(self, rows, pres):
        if rows is None:
            return None
        out = []
        for i, r in enumerate(rows):
            vals = [py(v) for v in r]
            out.append(tuple(vals) if (pres + i) % 3 else list(vals))
        return out

    def _create(self, **kw):
        nix, np = _nix()
        self.count += 1
        if kw.pop("compress", False):
            kw["compression"] = nix.Compression.DeflateNormal
        # a refused creation leaves the block and the selected frame as they were
        df = self.block.create_data_frame("df%d" % self.count, "c16", **kw)
        self._select(df)
        self.names.append(df.name)
        return self.dump()

    def _select(self, df):
        # the object at hand and one built by the container: two live handles from the start
        self.df = df
        self.handles = [df, self.block.data_frames[df.name]]
        self.cur = 0

    def run(self, line, pres=0):
        """returns {'ok': ...} or {'err': name}"""
        try:
            return {"ok": self._run(line, pres)}
        except Exception as e:  # noqa: canonicalised by class
            return {"err": err_name(e)}

    def _run(self, line, pres):
        nix, np = _nix()
        line, form = split_form(line)
        op, a = line[0], line[1:]
        df = self.df
        if op == "create_dict":
            cd = OrderedDict((n, np_type(t, pres + i)) for i, (n, t) in enumerate(a[0]))
            data = self.rec(a[1], form) if form else self._rows(a[1], pres)
            return self._create(col_dict=cd, data=data, compress=(pres % 5 == 4))
        if op == "create_names_types":
            names = a[0] if pres % 3 == 0 else (tuple(a[0]) if pres % 3 == 1 else np.array(a[0], dtype=object))
            tys = [np_type(t, pres + i) for i, t in enumerate(a[1])]
            data = self.rec(a[2], form) if form else self._rows(a[2], pres)
            return self._create(col_names=names, col_dtypes=tys, data=data)
        if op == "create_names_data":
            data = self.rec(a[1], form) if form else self._rows(a[1], pres)
            return self._create(col_names=list(a[0]), data=data)
        if op == "create_struct" and form:
            return self._create(data=self.rec(a[1], form, fields=a[0]))
        if op == "create_struct":
            rows = [tuple(py(v) for v in r) for r in a[1]]
            dts = []
            for i, (n, t) in enumerate(a[0]):
                if t == "text":
                    width = max([1] + [len(r[i]) for r in rows if i < len(r) and isinstance(r[i], str)])
                    dts.append((n, "U%d" % width))
                else:
                    dts.append((n, np.dtype(np_type(t, 0))))
            arr = np.array(rows, dtype=dts)
            return self._create(data=arr)
        if op == "dump":
            return self.dump()
        if op == "frame":
            self._select(self.block.data_frames[self.names[a[0]]])
            return None
        if op == "recreate":
            # create_data_frame with the name of an existing frame: DuplicateName whatever else is passed
            self.block.create_data_frame(self.names[a[0]], "c16", col_dict=OrderedDict([("z", int)]))
            return None
        if op == "copy":
            self.count += 1
            cp = self.block.create_data_frame("copy%d" % self.count, copy_from=df)
            self._select(cp)
            self.names.append(cp.name)
            return self.dump()
        if op == "handle":
            self.use(a[0])
            return None
        if op == "reopen":
            self.reopen()
            return None
        if op == "append_rows":
            df.append_rows(self.rec(a[0], form) if form else self._rows(a[0], pres))
            return None
        if op == "append_column":
            col = [py(v) for v in a[0]]
            dt = None if a[2] is None else np_type(a[2], pres % 3)     # "<U5" is a creation-only spelling
            if pres % 2 and col and len({type(x) for x in col}) == 1 and not isinstance(col[0], str) and \
                    all(isinstance(x, (bool, float)) or -2 ** 63 <= x < 2 ** 63 for x in col):
                # the column as an ndarray (of another width than the requested type, too: fix ac50c5b)
                col = np.array(col)
            if dt is None and pres % 3 == 0:
                df.append_column(col, a[1])
            else:
                df.append_column(col, name=a[1], datatype=dt)
            return None
        if op == "write_rows":
            rows = self.rec(a[0], form) if form else self._rows(a[0], pres)
            df.write_rows(rows, list(a[1]) if pres % 2 else np.array(a[1], dtype=int))
            return None
        if op == "write_row_flat":
            if form:
                # one np.void record
                df.write_rows(self.rec([a[0]], form)[0], list(a[1]))
                return None
            vals = [py(v) for v in a[0]]
            df.write_rows(tuple(vals) if pres % 2 else vals, list(a[1]))
            return None
        if op == "write_column":
            col = [py(v) for v in a[0]]
            kw = {}
            if a[1] is not None:
                kw["index"] = a[1]
            if a[2] is not None:
                kw["name"] = a[2]
            if pres % 4 == 1 and col and len({type(x) for x in col}) == 1:
                # the column as an ndarray (e.g. what read_columns of another frame returns: text as objects)
                col = np.array(col, dtype=object) if isinstance(col[0], str) else np.array(col)
            df.write_column(col, **kw)
            return None
        if op == "write_cell_pos":
            df.write_cell(np_scalar(py(a[0]), pres), position=list(a[1]) if pres % 2 else tuple(a[1]))
            return None
        if op == "write_cell_name":
            df.write_cell(np_scalar(py(a[0]), pres), col_name=a[1], row_idx=a[2] if pres % 2 else [a[2]])
            return None
        if op == "set_units":
            df.units = list(a[0]) if pres % 2 else tuple(a[0])
            return None
        if op == "read_row":
            return row_cells(df.read_rows(a[0]))
        if op == "read_rows":
            idx = list(a[0]) if pres % 2 else np.array(a[0], dtype=int)
            return [row_cells(r) for r in df.read_rows(idx)]
        if op in ("read_columns_idx", "read_columns_name"):
            slc = None if (a[1] is None and a[2] is None and pres % 2) else slice(a[1], a[2])
            if op == "read_columns_idx":
                res = df.read_columns(index=list(a[0]), slc=slc)
            else:
                res = df.read_columns(name=list(a[0]), slc=slc)
            if res.dtype.fields:
                return [row_cells(r) for r in res]
            return [[cell(v)] for v in res]
        if op in ("read_columns_grouped_idx", "read_columns_grouped_name"):
            slc = None if (a[1] is None and a[2] is None and pres % 2) else slice(a[1], a[2])
            kw = {"index": list(a[0])} if op.endswith("idx") else {"name": list(a[0])}
            res = df.read_columns(slc=slc, group_by_cols=True, **kw)
            if res.ndim == 1:
                return [[cell(v)] for v in res]
            return [[cell(v) for v in col] for col in res]
        if op == "getitem_name":
            return [cell(v) for v in df[a[0]]]
        if op == "getitem_slice":
            return [row_cells(r) for r in df[slice(a[0], a[1])]]
        if op == "read_cell_pos":
            return cell(df.read_cell(position=list(a[0])))
        if op == "read_cell_name":
            forms = [(a[0], a[1]), ([a[0]], a[1]), (a[0], [a[1]]), ([a[0]], [a[1]])]
            cn, ri = forms[pres % 4]
            return cell(df.read_cell(col_name=cn, row_idx=ri))
        raise RuntimeError("unknown op %r" % op)


# ---------------------------------------------------------------------------------------
# generators (online: every operation is drawn from the frame's current state)


def gen_typed(rng, t):
    if t == "text":
        return ["s", rng.choice(STRS)]
    if t == "f64":
        x = rng.choice(FLOATS) if rng.random() < 0.6 else rng.randint(-4000, 4000) / 2 ** rng.randint(0, 12)
        return enc_float(x)
    if t == "bool":
        return ["b", rng.random() < 0.5]
    lo, hi = RANGE[t]
    pick = rng.random()
    if pick < 0.15:
        return ["i", lo]
    if pick < 0.3:
        return ["i", hi]
    if pick < 0.45:
        return ["i", rng.choice([0, 1, -1 if lo < 0 else 2])]
    if pick < 0.8:
        return ["i", rng.randint(max(lo, -200), min(hi, 200))]
    return ["i", rng.randint(lo, hi)]


def gen_coerce(rng, t):
    """a cell of another kind that NumPy converts into column type t"""
    if t == "text":
        return gen_typed(rng, t)
    if t == "f64":
        return rng.choice([["i", rng.randint(-10 ** 6, 10 ** 6)], ["b", rng.random() < 0.5], ["i", 2 ** 53],
                           ["i", -(2 ** 40) - 1]])
    if t == "bool":
        return rng.choice([["i", rng.choice([0, 1, -3, 255])], enc_float(rng.choice([0.0, 0.5, -2.0])),
                           ["s", rng.choice(["", "x", "0", "False"])]])
    lo, hi = RANGE[t]
    x = rng.choice(SMALL_FLOATS)
    return rng.choice([["b", rng.random() < 0.5], enc_float(x), enc_float(float(min(hi, 100)) + 0.75)])


def gen_fault(rng, t, allow_text_fault, allow_overflow=True, allow_float_overflow=True):
    """a cell the column type refuses (None when there is none for this type / op)"""
    if t == "text":
        if not allow_text_fault:
            return None
        return rng.choice([["i", 5], enc_float(2.5), ["b", True]])
    if t == "bool":
        return None
    if t == "f64":
        return ["s", rng.choice(BAD_NUM_STRS)]
    lo, hi = RANGE[t]
    opts = [["s", rng.choice(BAD_NUM_STRS)]]
    if allow_overflow:
        opts += [["i", hi + 1], ["i", lo - 1], ["i", hi + 1000]]
        if allow_float_overflow:
            opts.append(enc_float(float(hi) * 4 + 1000.5))
    return rng.choice(opts)


def gen_row(rng, types, mode="typed"):
    return [gen_typed(rng, t) if (mode == "typed" or rng.random() < 0.6) else gen_coerce(rng, t) for t in types]


def gen_rows(rng, types, n, mode="typed"):
    return [gen_row(rng, types, mode) for _ in range(n)]


INT_TYPES = ["i8", "i16", "i32", "i64", "u8"]
FIELD_NAMES = ["n", "value", "flag", "label", "x0", "trial", "amp", "t", "col", "F", "k2", "ü", "f0", "f1", "a", "b"]


def fits(t, v):
    """cell v of a structured array is converted like the Python scalar it stands for (the modelled conversion)"""
    k, x = v
    if t == "text":
        return k == "s"
    if k == "s":
        return False
    if t == "bool":
        return True
    if t == "f64":
        return k != "i" or abs(x) <= 2 ** 53
    # an integer column: every number is converted from the Python scalar it stands for (range-checked), also
    # when it comes as a field of a structured array (fix ac50c5b)
    return True


def field_type(rng, cells, t):
    """a field type a structured array can hold the cells of one column in (None: there is none)"""
    kinds = {c[0] for c in cells}
    if len(kinds) > 1:
        return None
    if not kinds:
        return t or "i64"
    k = kinds.pop()
    if k != "i":
        return {"s": "text", "b": "bool", "f": "f64"}[k]
    cands = [x for x in INT_TYPES if all(RANGE[x][0] <= c[1] <= RANGE[x][1] for c in cells)]
    if not cands:
        return None
    if t in cands and rng.random() < 0.6:
        return t
    return rng.choice(cands)


def field_names(rng, tgt, k):
    """k distinct non-empty field names: the target's column names, some / all of them renamed, or the same names
    at other positions (rotated, two swapped) — what is stored must not depend on them"""
    uniq = []
    for n in tgt:
        if n and n not in uniq:
            uniq.append(n)
    tgt = uniq[:k]
    fresh = [n for n in FIELD_NAMES if n not in tgt]
    rng.shuffle(fresh)
    while len(tgt) < k:
        tgt.append(fresh.pop())
    mode = rng.choice(["same", "renamed", "renamed", "renamed", "rotated", "swapped", "fresh"])
    out = list(tgt)
    if mode == "renamed":
        hit = [j for j in range(k) if rng.random() < 0.5] or [rng.randrange(k)]
        if len(hit) == k and k > 1:
            hit.pop(rng.randrange(k))
        for j in hit:
            out[j] = fresh.pop()
    elif mode == "rotated" and k > 1:
        out = out[1:] + out[:1]
    elif mode == "swapped" and k > 1:
        i, j = rng.sample(range(k), 2)
        out[i], out[j] = out[j], out[i]
    elif mode == "fresh":
        out = [fresh.pop() for _ in range(k)]
    else:
        mode = "same"
    return out, mode


def gen_layout(rng, k, stats=None, allow_frame=True):
    """memory layout and origin of a structured array with k fields"""
    how = rng.choice(["array", "array", "view", "view", "voids"] + (["frame", "frame"] if allow_frame else []))
    form = {"how": how}
    if how == "frame":
        form["read"] = rng.choice(["rows", "all", "columns"])
        if form["read"] == "columns" and k > 1 and rng.random() < 0.7:
            mem = list(range(k))
            while mem == list(range(k)):
                rng.shuffle(mem)
            form["mem"] = mem
    else:
        if k > 1 and rng.random() < 0.6:
            mem = list(range(k))
            while mem == list(range(k)):
                rng.shuffle(mem)
            form["mem"] = mem
        if rng.random() < 0.4:
            form["pad"] = rng.choice([1, 2, 3, 5, 8])
    if stats is not None:
        key = "form." + how + (".permuted" if "mem" in form else "") + (".padded" if "pad" in form else "")
        stats[key] = stats.get(key, 0) + 1
    return form


def gen_form(rng, rows, tgt_names, tgt_types, stats=None, struct=False):
    """a presentation of `rows` as a NumPy structured array (None when they cannot be one: ragged rows, a column of
    mixed kinds, a cell the positional casts treat differently).  struct=True: the fields are the columns."""
    if rows is None or any(len(r) != len(rows[0]) for r in rows):
        return None
    k = len(rows[0]) if rows else len(tgt_types)
    if k == 0:
        return None
    ftypes = []
    for j in range(k):
        t = tgt_types[j] if j < len(tgt_types) else None
        cells = [r[j] for r in rows]
        if t is not None and not all(fits(t, c) for c in cells):
            return None
        ft = t if struct else field_type(rng, cells, t)
        if ft is None:
            return None
        ftypes.append(ft)
    if not struct and len(set(ftypes)) == 1 and ftypes[0] != "text" and rng.random() < 0.5:
        # all fields of one numeric type: also as a plain 2-D array
        kinds = {c[0] for r in rows for c in r}
        if len(kinds) <= 1:
            if stats is not None:
                stats["form.matrix"] = stats.get("form.matrix", 0) + 1
            return {"how": "matrix", "rec": [["f%d" % j, ftypes[0]] for j in range(k)]}
    form = gen_layout(rng, k, stats)
    if not struct:
        names, mode = field_names(rng, list(tgt_names), k)
        form["rec"] = [[n, t] for n, t in zip(names, ftypes)]
        if stats is not None:
            stats["form.names." + mode] = stats.get("form.names." + mode, 0) + 1
    return form


def level(rows, what):
    """give every row the length of the one made too short / too long (a structured array is rectangular)"""
    if what == "short":
        k = min(len(r) for r in rows)
        return [r[:k] for r in rows]
    k = max(len(r) for r in rows)
    return [r + [["i", 1]] * (k - len(r)) for r in rows]


def with_form(line, form):
    return line if form is None else line + [form]


def gen_schema(rng, maxcols=6):
    k = rng.choice([1, 1, 2, 2, 3, 3, 4, 5, 6][:3 + maxcols])
    names = rng.sample(NAME_POOL, k)
    types = [rng.choice(TYPES) for _ in range(k)]
    return names, types


def legal_row(rng, n):
    """a legal row address: first and last included, negative forms too"""
    return rng.choice([0, n - 1, -1, -n, rng.randrange(n), rng.randrange(n) - n])


def bad_row(rng, n):
    return rng.choice([n, n + 3, -n - 1, -n - 4])


def inc_list(rng, n):
    k = rng.randint(1, min(n, 4))
    ks = sorted(rng.sample(range(n), k))
    return [i if rng.random() < 0.7 else i - n for i in ks]


def gen_create(rng, stats):
    """(line, pres)"""
    variant = rng.choice(["dict", "dict", "names_types", "names_types", "names_data", "struct"])
    names, types = gen_schema(rng)
    n = rng.choice([0, 0, 1, 1, 2, 3, 4, 5, 7])
    pres = rng.randrange(1000)
    r = rng.random()
    fault = None
    if r < 0.12:
        fault = rng.choice(["short_row", "long_row", "bad_cell", "dup_name", "len_mismatch", "no_types", "empty_data"])
    mode = "typed" if rng.random() < 0.7 else "mixed"
    rows = gen_rows(rng, types, n, mode)
    if fault == "short_row" and n and len(types) > 0:
        i = rng.randrange(n)
        rows[i] = rows[i][:-1]
    elif fault == "long_row" and n:
        i = rng.randrange(n)
        rows[i] = rows[i] + [["i", 1]]
    elif fault == "bad_cell" and n:
        i, c = rng.randrange(n), rng.randrange(len(types))
        bad = gen_fault(rng, types[c], allow_text_fault=False)
        if bad is not None:
            rows[i][c] = bad
        else:
            fault = None
    stats["create." + variant + ("" if not fault else "." + fault)] = \
        stats.get("create." + variant + ("" if not fault else "." + fault), 0) + 1
    data = rows if (n or rng.random() < 0.5) else None
    as_rec = rng.random() < 0.3
    if as_rec and fault in ("short_row", "long_row") and n:
        # another number of fields than there are columns
        rows = level(rows, "short" if fault == "short_row" else "long")
        data = rows
    if variant == "dict":
        form = gen_form(rng, data, names, types, stats) if as_rec else None
        return with_form(["create_dict", [[a, b] for a, b in zip(names, types)], data], form), pres
    if variant == "names_types":
        if fault == "dup_name" and len(names) > 1:
            names = list(names)
            names[rng.randrange(1, len(names))] = names[0]
        tys = list(types)
        if fault == "len_mismatch":
            tys = tys[:-1] if rng.random() < 0.5 else tys + ["i64"]
        form = gen_form(rng, data, names, types, stats) if as_rec else None
        return with_form(["create_names_types", list(names), tys, data], form), pres
    if variant == "names_data":
        if fault == "no_types":
            return ["create_names_data", list(names), None], pres
        if fault == "empty_data":
            return ["create_names_data", list(names), []], pres
        if as_rec and fault in (None, "dup_name"):
            # a structured array: the column types are its field types (small integer types included)
            rows = gen_rows(rng, types, max(n, 1))
            form = gen_form(rng, rows, names, types, stats)
            if form is not None:
                if fault == "dup_name" and len(names) > 1:
                    names = list(names)
                    names[-1] = names[0]
                return ["create_names_data", list(names), rows, form], pres
        # types are derived from the first row: make every row well-typed for the derived schema
        dtypes = [{"i8": "i64", "i16": "i64", "i32": "i64", "u8": "i64"}.get(t, t) for t in types]
        rows = gen_rows(rng, dtypes, max(n, 1))
        if fault == "dup_name" and len(names) > 1:
            names = list(names)
            names[-1] = names[0]
        if fault == "short_row" and len(rows) > 1:
            rows[-1] = rows[-1][:-1]
        return ["create_names_data", list(names), rows], pres
    # structured array: distinct, non-empty names; well-typed rows
    names = [x for x in names if x != ""] or ["a"]
    types = types[:len(names)]
    rows = gen_rows(rng, types, n)
    if n == 0:
        stats["create.struct.empty"] = stats.get("create.struct.empty", 0) + 1
    form = gen_form(rng, rows, names, types, stats, struct=True) if rng.random() < 0.7 else None
    return with_form(["create_struct", [[a, b] for a, b in zip(names, types)], rows], form), pres


WRITE_OPS = ["append_rows", "append_column", "write_rows", "write_row_flat", "write_column", "write_cell_pos",
             "write_cell_name", "set_units"]
READ_OPS = ["read_row", "read_rows", "read_columns_idx", "read_columns_name", "read_cell_pos", "read_cell_name",
            "read_columns_grouped_idx", "read_columns_grouped_name", "getitem_name", "getitem_slice"]
KIND = {"text": "s", "bool": "b", "f64": "f", "i8": "i", "i16": "i", "i32": "i", "i64": "i", "u8": "i"}


def gen_op(rng, st, stats):
    """draw one operation for the frame state st; returns (line, pres)"""
    names, types, n = st["names"], st["types"], st["nrows"]
    m = len(names)
    pres = rng.randrange(1000)
    r = rng.random()
    if r < 0.06:
        kind = "reopen"
    elif r < 0.30:
        kind = rng.choice(READ_OPS)
    else:
        kind = rng.choice(WRITE_OPS + ["append_rows", "write_rows", "write_column", "write_cell_pos"])
    mode = rng.random()          # < .62 typed, < .8 coerce, else one fault / bad address
    typed, coerce = mode < 0.62, 0.62 <= mode < 0.8
    fault = not typed and not coerce
    tag = kind + (".typed" if typed else ".coerce" if coerce else ".fault")

    def count(extra=""):
        stats[tag + extra] = stats.get(tag + extra, 0) + 1

    def one_cell(t, allow_text_fault):
        if typed:
            return gen_typed(rng, t)
        if coerce:
            return gen_coerce(rng, t)
        return gen_fault(rng, t, allow_text_fault)

    if kind == "reopen":
        stats["reopen"] = stats.get("reopen", 0) + 1
        return ["reopen"], pres
    if kind == "append_rows":
        k = rng.choice([0, 1, 1, 2, 3])
        rows = gen_rows(rng, types, k, "typed" if typed else "mixed")
        if fault and k:
            i = rng.randrange(k)
            what = rng.choice(["short", "long", "cell"])
            if what == "short":
                rows[i] = rows[i][:-1]
            elif what == "long":
                rows[i] = rows[i] + [["b", True]]
            else:
                c = rng.randrange(m)
                bad = gen_fault(rng, types[c], allow_text_fault=True)
                if bad is not None:
                    rows[i][c] = bad
            if what != "cell" and rng.random() < 0.4:
                rows = level(rows, what)
            count("." + what)
        else:
            count()
        form = gen_form(rng, rows, names, types, stats) if rng.random() < 0.35 else None
        return with_form(["append_rows", rows], form), pres
    if kind == "append_column":
        t = rng.choice(TYPES)
        name = rng.choice([x for x in NAME_POOL if x not in names] or ["zz"])
        dt = t if rng.random() < 0.6 else None
        if dt is None:
            t = rng.choice(["text", "i64", "f64", "bool"])
        col = [gen_typed(rng, t) if (typed or dt is None or rng.random() < 0.5) else gen_coerce(rng, t)
               for _ in range(n)]
        if fault:
            what = rng.choice(["short", "long", "dup", "cell"])
            if what == "short" and n:
                col = col[:-1]
            elif what == "long":
                col = col + [gen_typed(rng, t)]
            elif what == "dup":
                name = rng.choice(names)
            elif n and dt is not None:
                bad = gen_fault(rng, t, allow_text_fault=True)
                if bad is not None:
                    col[rng.randrange(n)] = bad
            count("." + what)
        else:
            count()
        return ["append_column", col, name, dt], pres
    if kind in ("write_rows", "write_row_flat"):
        if n == 0:
            count(".empty")
            return ["write_rows", gen_rows(rng, types, 1), [rng.choice([0, -1])]], pres
        if kind == "write_row_flat":
            row = gen_row(rng, types, "typed" if typed else "mixed")
            if row[0][0] == "s":
                kind = "write_rows"
            else:
                idx = [legal_row(rng, n)]
                if fault:
                    idx = rng.choice([[bad_row(rng, n)], [0, 1] if n > 1 else [0, 0]])
                count()
                form = gen_form(rng, [row], names, types, stats) if rng.random() < 0.35 else None
                return with_form(["write_row_flat", row, idx], form), pres
        idx = [legal_row(rng, n)] if rng.random() < 0.5 else inc_list(rng, n)
        rows = gen_rows(rng, types, len(idx), "typed" if typed else "mixed")
        if fault:
            what = rng.choice(["oob", "neg_oob", "order", "count", "short", "cell"])
            if what == "oob":
                idx[-1] = rng.choice([n, n + 3])
            elif what == "neg_oob":
                idx[0] = rng.choice([-n - 1, -n - 4])
            elif what == "order":
                if len(idx) > 1:
                    idx = idx[::-1]
                else:
                    # one row named twice: literally, or once from the front and once from the back
                    k = norm_i(idx[0], n)
                    idx = rng.choice([[idx[0], idx[0]], [k, k - n], [k - n, k]])
                    rows = rows + gen_rows(rng, types, 1)
            elif what == "count":
                rows = rows + gen_rows(rng, types, 1)
            elif what == "short":
                i = rng.randrange(len(rows))
                rows[i] = rows[i][:-1] if rng.random() < 0.5 else rows[i] + [["i", 0]]
            else:
                i, c = rng.randrange(len(rows)), rng.randrange(m)
                bad = gen_fault(rng, types[c], allow_text_fault=True)
                if bad is not None:
                    rows[i][c] = bad
            count("." + what)
        else:
            count(".single" if len(idx) == 1 else ".multi")
        form = gen_form(rng, rows, names, types, stats) if rng.random() < 0.35 else None
        return with_form(["write_rows", rows, idx], form), pres
    if kind == "write_column":
        c = rng.choice([0, m - 1, rng.randrange(m)])
        t = types[c]
        by = rng.choice(["index", "index", "name", "neg_index", "both"])
        index = {"index": c, "neg_index": c - m, "name": None, "both": rng.randrange(m)}[by]
        name = names[c] if by in ("name", "both") else None
        if typed:
            col = [gen_typed(rng, t) for _ in range(n)]
        elif coerce:
            # homogeneous column of one other kind
            if t == "text":
                col = [gen_typed(rng, t) for _ in range(n)]
            elif t == "f64":
                col = [["i", rng.randint(-1000, 1000)] for _ in range(n)] if rng.random() < 0.5 else \
                      [["b", rng.random() < 0.5] for _ in range(n)]
            elif t == "bool":
                col = rng.choice([[["i", rng.choice([0, 1, 7])] for _ in range(n)],
                                  [enc_float(rng.choice([0.0, 2.5])) for _ in range(n)],
                                  [["s", rng.choice(["", "x", "no"])] for _ in range(n)]])
            else:
                col = [["b", rng.random() < 0.5] for _ in range(n)] if rng.random() < 0.5 else \
                      [enc_float(rng.choice([0.0, 1.5, 2.7, 100.25, 0.99])) for _ in range(n)]
        else:
            col = [gen_typed(rng, t) for _ in range(n)]
            what = rng.choice(["short", "long", "unknown", "idx_oob", "none", "kind", "mixed", "overflow", "overflow"])
            if what == "short" and n:
                col = col[:-1]
            elif what == "long":
                col = col + [gen_typed(rng, t)]
            elif what == "unknown":
                index, name = None, rng.choice(["nope", "", names[c] + "_"])
            elif what == "idx_oob":
                index, name = rng.choice([m, m + 2, -m - 1]), None
            elif what == "none":
                index, name = None, None
            elif what == "kind" and n:
                if t == "text":
                    col = [["i", rng.randint(0, 9)] for _ in range(n)]
                elif t != "bool":
                    col = [["s", rng.choice(BAD_NUM_STRS)] for _ in range(n)]
            elif what == "overflow" and n and t in RANGE:
                # a number the column type cannot hold (300 or -1 for uint8 ...): refused, nothing written
                lo, hi = RANGE[t]
                col[rng.randrange(n)] = ["i", rng.choice([hi + 1, lo - 1, hi + 45, lo - 200])]
            elif what == "mixed" and n and t in RANGE or (what == "mixed" and n and t == "f64"):
                lo, hi = RANGE.get(t, (-1000, 1000))
                col = [["i", rng.randint(max(lo, -100), min(hi, 100))] for _ in range(n)]
                col[rng.randrange(n)] = ["s", rng.choice(["x", "q7", "a b"])]
            count("." + what)
            return ["write_column", col, index, name], pres
        count("." + by)
        return ["write_column", col, index, name], pres
    if kind == "write_cell_pos":
        if n == 0:
            count(".empty")
            return ["write_cell_pos", gen_typed(rng, types[0]), [0, 0]], pres
        rr, c = legal_row(rng, n), rng.choice([0, m - 1, rng.randrange(m)])
        ci = c if rng.random() < 0.75 else c - m
        v = one_cell(types[c], True)
        pos = [rr, ci]
        if fault:
            what = rng.choice(["row_oob", "col_oob", "len", "cell"])
            v = gen_typed(rng, types[c])
            if what == "row_oob":
                pos = [bad_row(rng, n), ci]
            elif what == "col_oob":
                pos = [rr, rng.choice([m, m + 2, -m - 1])]
            elif what == "len":
                pos = rng.choice([[rr], [rr, ci, 0]])
            else:
                bad = gen_fault(rng, types[c], True)
                v = bad if bad is not None else v
            count("." + what)
        else:
            count()
        return ["write_cell_pos", v, pos], pres
    if kind == "write_cell_name":
        if n == 0:
            count(".empty")
            return ["write_cell_name", gen_typed(rng, types[0]), names[0], 0], pres
        rr, c = legal_row(rng, n), rng.choice([0, m - 1, rng.randrange(m)])
        v = one_cell(types[c], True)
        nm = names[c]
        if fault:
            what = rng.choice(["row_oob", "unknown", "cell"])
            v = gen_typed(rng, types[c])
            if what == "row_oob":
                rr = bad_row(rng, n)
            elif what == "unknown":
                nm = rng.choice(["nope", names[c] + " "])
            else:
                bad = gen_fault(rng, types[c], True)
                v = bad if bad is not None else v
            count("." + what)
        else:
            count()
        return ["write_cell_name", v, nm, rr], pres
    if kind == "set_units":
        us = [rng.choice(UNITS + [None, None, ""]) for _ in range(m)]
        if fault:
            us = rng.choice([us[:-1], us + ["s"], []])
            count(".len")
        else:
            count()
        return ["set_units", us], pres
    # reads
    stats[kind] = stats.get(kind, 0) + 1
    if kind == "read_row":
        i = legal_row(rng, n) if n and rng.random() < 0.8 else bad_row(rng, n)
        return ["read_row", i], pres
    if kind == "read_rows":
        if n == 0:
            return ["read_rows", rng.choice([[], [0]])], pres
        q = rng.random()
        idx = inc_list(rng, n) if q < 0.7 else rng.choice([[], [bad_row(rng, n)], [n - 1, 0] if n > 1 else [0, 0]])
        return ["read_rows", idx], pres
    if kind in ("read_columns_idx", "read_columns_name"):
        k = rng.randint(1, min(m, 3))
        cs = rng.sample(range(m), k)
        lo = rng.choice([None, None, 0, 1, -2, -n - 3, n])
        hi = rng.choice([None, None, n, n - 1, -1, n + 5, 0])
        if kind == "read_columns_idx":
            idx = [c if rng.random() < 0.7 else c - m for c in cs]
            if rng.random() < 0.12:
                idx[0] = rng.choice([m, -m - 1])
            elif rng.random() < 0.06:
                idx = idx + [idx[0]]
            return ["read_columns_idx", idx, lo, hi], pres
        nms = [names[c] for c in cs]
        if rng.random() < 0.12:
            nms[-1] = "nope"
        return ["read_columns_name", nms, lo, hi], pres
    if kind in ("read_columns_grouped_idx", "read_columns_grouped_name"):
        # any columns: cells of columns of different types are kept as they were read (fix: object array)
        cs = [rng.randrange(m) for _ in range(rng.choice([1, 2, 2, 3]))]
        lo = rng.choice([None, None, 0, 1, -2, -n - 3, n])
        hi = rng.choice([None, None, n, n - 1, -1, n + 5, 0])
        if kind.endswith("idx"):
            idx = [c if rng.random() < 0.7 else c - m for c in cs]
            if rng.random() < 0.1:
                idx[-1] = rng.choice([m, -m - 1])
            return [kind, idx, lo, hi], pres
        nms = [names[c] for c in cs]
        if rng.random() < 0.1:
            nms[-1] = "nope"
        return [kind, nms, lo, hi], pres
    if kind == "getitem_name":
        return ["getitem_name", names[rng.choice([0, m - 1, rng.randrange(m)])] if rng.random() < 0.9 else "nope"], pres
    if kind == "getitem_slice":
        return ["getitem_slice", rng.choice([None, None, 0, 1, -1, -2, -n - 3, n, n + 2]),
                rng.choice([None, None, n, n - 1, -1, 1, n + 5, 0, -n - 1])], pres
    if kind == "read_cell_pos":
        if n == 0:
            return ["read_cell_pos", [0, 0]], pres
        rr, c = legal_row(rng, n), rng.choice([0, m - 1, rng.randrange(m), -1, -m])
        q = rng.random()
        if q < 0.1:
            return ["read_cell_pos", [bad_row(rng, n), c]], pres
        if q < 0.2:
            return ["read_cell_pos", [rr, rng.choice([m, -m - 1])]], pres
        if q < 0.25:
            return ["read_cell_pos", [rr]], pres
        return ["read_cell_pos", [rr, c]], pres
    if n == 0:
        return ["read_cell_name", names[0], 0], pres
    rr, c = legal_row(rng, n), rng.choice([0, m - 1, rng.randrange(m)])
    q = rng.random()
    if q < 0.1:
        return ["read_cell_name", names[c], bad_row(rng, n)], pres
    if q < 0.2:
        return ["read_cell_name", "nope", rr], pres
    return ["read_cell_name", names[c], rr], pres


# ---------------------------------------------------------------------------------------
# correspondence


def play_history(ctx, k, stats, nops):
    """generate one history online; returns [(line, impl_out)]"""
    rng = ctx.rng
    s = Session(ctx, k)
    hist = [(["new_block"], {"ok": None})]
    try:
        line, pres = gen_create(rng, stats)
        out = s.run(line, pres)
        hist.append((line, out))
        if "ok" not in out:
            return hist
        def switch():
            # another live object of the same frame (sometimes a newly fetched one): the model has one table per
            # frame whatever handle is used, so every answer must be the same through each of them
            hl = ["handle", rng.randrange(len(s.handles) + 1)]
            stats["handle"] = stats.get("handle", 0) + 1
            hist.append((hl, s.run(hl)))

        def block_step():
            # another frame of the same block: a new one (possibly refused: nothing changes), a copy of the selected
            # one, an attempt to create one under a name that exists, or back to an earlier frame
            kind = rng.choice(["frame", "frame", "recreate", "copy", "create"] if len(s.names) > 1 else
                              ["recreate", "copy", "create"])
            stats["block." + kind] = stats.get("block." + kind, 0) + 1
            if kind == "create":
                bl, pres = gen_create(rng, stats)
            else:
                bl, pres = ([kind, rng.randrange(len(s.names))] if kind != "copy" else ["copy"]), 0
            hist.append((bl, s.run(bl, pres)))
            if kind == "frame":
                hist.append((["dump"], s.run(["dump"])))

        for _ in range(nops):
            if rng.random() < 0.08:
                block_step()
            if rng.random() < 0.3:
                switch()
            line, pres = gen_op(rng, s.state(), stats)
            hist.append((line, s.run(line, pres)))
            if line[0] not in READ_OPS:
                if line[0] != "reopen" and rng.random() < 0.5:
                    switch()
                hist.append((["dump"], s.run(["dump"])))
        hist.append((["reopen"], s.run(["reopen"])))
        hist.append((["dump"], s.run(["dump"])))
        # every frame of the block still holds its own table
        for i in range(len(s.names) - 1):
            hist.append((["frame", i], s.run(["frame", i])))
            hist.append((["dump"], s.run(["dump"])))
    finally:
        s.close()
    return hist


def play_fixed(ctx, k, lines):
    """replay recorded lines (corpus) on the implementation"""
    s = Session(ctx, k)
    hist = [(["new_block"], {"ok": None})]
    try:
        for line in lines:
            if s.df is None and not line[0].startswith("create"):
                hist.append((line, {"bad": "C16: no frame"}))
                continue
            hist.append((line, s.run(line, 0)))
    finally:
        s.close()
    return hist


def _norm(out):
    return json.loads(json.dumps(out))


def correspondence(ctx):
    stats = {}
    hists = []
    k = 0
    for case in core.load_corpus(PROP):
        hists.append(play_fixed(ctx, k, case))
        k += 1
    ncorp = len(hists)
    for _ in range(ctx.budget(420, 3000)):
        hists.append(play_history(ctx, k, stats, ctx.rng.choice([3, 6, 10, 14])))
        k += 1
    lines = [l for h in hists for (l, _) in h]
    model = core.run_driver(PROP, lines)
    disagreements = []
    seen = set()
    errs = {}
    pos = 0
    nbad = 0
    for h in hists:
        for j, (line, impl) in enumerate(h):
            m = model[pos + j]
            impl = _norm(impl)
            if "bad" in m:
                nbad += 1
            if m != impl:
                prefix = [l for (l, _) in h[:j + 1] if (l[0] != "dump" or l is line) and l[0] != "new_block"]
                disagreements.append(Disagreement(prefix, m, impl))
                break
            if "err" in impl:
                errs[line[0] + ":" + impl["err"]] = errs.get(line[0] + ":" + impl["err"], 0) + 1
            if line[0] not in ("dump", "reopen", "handle", "frame", "new_block"):
                seen.add(core.canon([h[1][0][0], line]))
        pos += len(h)
    disagreements.sort(key=lambda d: len(core.canon(d.case)))
    flat = [(l, o) for h in hists for (l, o) in h if l[0] != "dump"]
    samples = [{"case": flat[i][0], "impl": _norm(flat[i][1])} for i in
               sorted(ctx.rng.sample(range(len(flat)), min(6, len(flat))))]
    stats["model_bad_lines"] = nbad
    return {"evaluations": len(lines), "distinct_nontrivial": len(seen),
            "rule": "histories generated online against real nixio on real HDF5 files: creation by one of the four "
                    "variants (1-6 columns over text/i8/i16/i32/i64/u8/f64/bool, odd names incl. '' and unicode, 0-7 "
                    "rows), then 3-14 operations drawn from the frame's current schema (62%% well-typed, 18%% cross-kind "
                    "cells NumPy converts, 20%% exactly one fault: wrong length, unknown column, out-of-range / "
                    "unordered index, cell the type refuses, duplicate column name), row/column addresses first, last, "
                    "negative and random; a full dump after every write, a reopen inside and at the end of every "
                    "history. %d corpus histories first. distinct_nontrivial = distinct (creation variant, operation "
                    "line) pairs excluding dump/reopen" % ncorp,
            "samples": samples, "distribution": {"ops": stats, "impl_errors": errs, "histories": len(hists)},
            "disagreements": disagreements, "exhaustive": False}


# ---------------------------------------------------------------------------------------
# property oracle on the implementation (shadow table, independent of the Lean model)

DEFAULT_DERIVED = {"text": "text", "i64": "i64", "f64": "f64", "bool": "bool"}


class Shadow:
    def __init__(self, names, types, rows):
        self.names, self.types, self.rows, self.units = list(names), list(types), [list(r) for r in rows], None

    def copy(self):
        s = Shadow(self.names, self.types, self.rows)
        s.units = None if self.units is None else list(self.units)
        return s

    def dump(self):
        n, m = len(self.rows), len(self.names)
        units = self.units
        return {"cols": [[a, b] for a, b in zip(self.names, self.types)], "rows": [list(r) for r in self.rows],
                "units": units, "shape": [n, m], "row_count": n,
                "columns": [[a, b, None if units is None else units[i]]
                            for i, (a, b) in enumerate(zip(self.names, self.types))]}


def norm_i(i, n):
    return i + n if i < 0 else i


def oracle_history(ctx, k, rng, nops, fixed=None):
    """one oracle history; returns (evaluations, Failure | None).  Every write is well-typed; its address is either
    legal (must be accepted, shadow updated) or broken in one of the listed ways (must be refused, table unchanged)."""
    s = Session(ctx, k)
    hist = []
    evals = 0

    def fail(what, observed, required, site):
        return Failure(what, [l for l in hist], observed, required, site)

    def check(sh, site):
        want = _norm(sh.dump())
        cur = s.cur
        # every live DataFrame object of the frame (kept across the operation, whichever object performed it) must
        # describe and return the one stored table
        for hi in range(len(s.handles)):
            s.use(hi)
            try:
                got = _norm(s.dump())
            except Exception as e:  # noqa: a read that fails is an observation, too
                got = {key: "raised %s" % err_name(e) for key in want}
            for key in ("cols", "shape", "row_count", "rows", "units", "columns"):
                if got[key] != want[key]:
                    via = "" if hi == cur else " (read through live handle %d, operation done through handle %d)" % (
                        hi, cur)
                    return fail("after %s the frame's %s do not describe / return the written table%s"
                                % (site, key, via), {key: got[key]}, {key: want[key]}, "nixio/data_frame.py:" + site)
        # the other read paths go through a kept handle other than the one that performed the operation
        s.use((cur + 1) % len(s.handles))
        try:
            return check_reads(sh)
        finally:
            s.use(cur)

    def copy_check(sh):
        """create_data_frame(copy_from=frame): the copy holds the same table (creation variant `copy_from`); a write
        to the copy changes the copy only (the caller re-checks the source afterwards)"""
        s.count += 1
        src, handles, cur = s.df, s.handles, s.cur
        try:
            cp = s.block.create_data_frame("copy%d" % s.count, copy_from=src)
        except Exception as e:  # noqa
            return fail("create_data_frame(copy_from=frame) was refused", {"err": err_name(e)}, "a copy",
                        "nixio/block.py:create_data_frame")
        try:
            s.handles, s.cur, s.df = [cp], 0, cp
            got, want = _norm(s.dump()), _norm(sh.dump())
            for key in ("cols", "shape", "row_count", "rows", "units", "columns"):
                if got[key] != want[key]:
                    return fail("the copy made by create_data_frame(copy_from=frame) differs from the frame in its "
                                + key, {key: got[key]}, {key: want[key]}, "nixio/block.py:create_data_frame")
            if sh.rows:
                c = len(sh.names) - 1
                v = sh.rows[0][c]
                flipped = (["s", v[1] + "~"] if v[0] == "s" else ["b", not v[1]] if v[0] == "b" else
                           ["i", 0 if v[1] else 1] if v[0] == "i" else ["f", "0/1" if v[1] != "0/1" else "1/1"])
                out = s.run(["write_cell_pos", flipped, [0, c]])
                if "ok" not in out:
                    return fail("a legal write_cell on the copy was refused", out, "accepted", "write_cell")
                cps = sh.copy()
                cps.rows[0][c] = flipped
                got = _norm(s.dump())
                if got["rows"] != _norm(cps.dump())["rows"]:
                    return fail("write_cell on the copy is not what the copy returns", {"rows": got["rows"]},
                                {"rows": cps.dump()["rows"]}, "write_cell")
        finally:
            s.handles, s.cur, s.df = handles, cur, src
        return None

    def check_reads(sh):
        df = s.df
        n, m = len(sh.rows), len(sh.names)
        if len(df) != n or tuple(df.shape) != (n,):
            return fail("len/shape disagree with the row count", [len(df), list(df.shape)], [n, [n]], "DataSet.shape")
        # the other read paths on first / last row, column, cell
        for i in sorted({0, n - 1, -1} if n else set()):
            r = s.run(["read_row", i])
            if r != {"ok": sh.rows[norm_i(i, n)]}:
                return fail("read_rows(%d) does not return the written row" % i, r, sh.rows[norm_i(i, n)], "read_rows")
        if n:
            idx = sorted({0, n - 1})
            r = s.run(["read_rows", idx], 1)
            if r != {"ok": [sh.rows[i] for i in idx]}:
                return fail("read_rows(%r) does not return the written rows" % idx, r, [sh.rows[i] for i in idx],
                            "read_rows")
        for c in sorted({0, m - 1}):
            want_col = [[row[c]] for row in sh.rows]
            for line in (["read_columns_idx", [c], None, None], ["read_columns_name", [sh.names[c]], None, None]):
                r = s.run(line, 1)
                if r != {"ok": want_col}:
                    return fail("%s of column %d does not return the written column" % (line[0], c), r, want_col,
                                "read_columns")
            if n:
                for rr in sorted({0, n - 1}):
                    for p in range(4):
                        r = s.run(["read_cell_name", sh.names[c], rr], p)
                        if r != {"ok": sh.rows[rr][c]}:
                            return fail("read_cell(col_name, row_idx) form %d does not return the written cell" % p,
                                        r, sh.rows[rr][c], "read_cell")
                    r = s.run(["read_cell_pos", [rr, c]])
                    if r != {"ok": sh.rows[rr][c]}:
                        return fail("read_cell(position) does not return the written cell", r, sh.rows[rr][c],
                                    "read_cell")
        if m > 1:
            r = s.run(["read_columns_idx", [m - 1, 0], None, None])
            want2 = [[row[m - 1], row[0]] for row in sh.rows]
            if r != {"ok": want2}:
                return fail("read_columns of two columns does not return them in the requested order", r, want2,
                            "read_columns")
        for c in sorted({0, m - 1}):
            r = s.run(["getitem_name", sh.names[c]])
            want_col = [row[c] for row in sh.rows]
            if r != {"ok": want_col}:
                return fail("frame[%r] does not return the written column" % sh.names[c], r, want_col,
                            "DataSet.__getitem__")
        for lo, hi in ((1, None), (None, -1)):
            r = s.run(["getitem_slice", lo, hi])
            want_rows = sh.rows[slice(lo, hi)]
            if r != {"ok": want_rows}:
                return fail("frame[%r:%r] does not return the written rows" % (lo, hi), r, want_rows,
                            "DataSet.__getitem__")
        if m > 1:
            for c, d in sorted({(0, m - 1), (m // 2, m - 1)}):
                if c == d:
                    continue
                r = s.run(["read_columns_grouped_idx", [d, c], None, None])
                want2 = [[row[d] for row in sh.rows], [row[c] for row in sh.rows]]
                if r != {"ok": want2}:
                    return fail("read_columns(group_by_cols=True) of two columns does not return the written columns "
                                "(each cell with its column's type) in the requested order", r, want2, "read_columns")
        return None

    try:
        # ---- creation
        if fixed is not None:
            create, ops = fixed[0], fixed[1:]
        else:
            variant = rng.choice(["dict", "names_types", "names_data", "struct"])
            names, types = gen_schema(rng)
            names = [x for x in names if x != ""] or ["a"]
            types = types[:len(names)]
            n0 = rng.choice([0, 1, 2, 3, 5])
            types0 = list(types)
            if variant == "names_data":
                types = [{"i8": "i64", "i16": "i64", "i32": "i64", "u8": "i64"}.get(t, t) for t in types]
                n0 = max(n0, 1)
            if variant == "struct":
                n0 = max(n0, 1)
            as_rec = rng.random() < 0.45
            if variant == "names_data" and as_rec:
                # rows as a structured array: the columns get its field types
                types = list(types0)
            rows = gen_rows(rng, types, n0)
            data = rows if (n0 or rng.random() < 0.5) else None
            cols = [[a, b] for a, b in zip(names, types)]
            create = {"dict": ["create_dict", cols, data], "names_types": ["create_names_types", names, types, data],
                      "names_data": ["create_names_data", names, rows], "struct": ["create_struct", cols, rows]}[variant]
            if variant == "struct":
                create = with_form(create, gen_form(rng, rows, names, types, struct=True) if rng.random() < 0.8 else None)
            elif as_rec:
                form = gen_form(rng, data, names, types)
                if form is not None and variant == "names_data" and form.get("how") != "matrix":
                    # the derived column types are the field types
                    form["rec"] = [[fl[0], t] for fl, t in zip(form["rec"], types)]
                create = with_form(create, form)
                if form is None and variant == "names_data":
                    create[2] = rows = gen_rows(rng, [{"i8": "i64", "i16": "i64", "i32": "i64", "u8": "i64"}.get(t, t)
                                                      for t in types], n0)
            ops = None
            create = {"line": create, "expect": "accept", "pres": rng.randrange(1000)}
        if isinstance(create, list):
            create = {"line": create, "expect": "accept", "pres": rng.randrange(1000)}
        hist.append(create)
        out = s.run(create["line"], create.get("pres", 0))
        create, cform = split_form(create["line"])
        evals += 1
        if "ok" not in out:
            return evals, fail("a legal creation (%s%s) was refused" % (create[0], describe_form(cform)), out,
                               "frame created", "nixio/block.py:create_data_frame")
        if create[0] == "create_names_types":
            sh = Shadow(create[1], create[2], create[3] or [])
        elif create[0] == "create_names_data":
            if cform:
                sh = Shadow(create[1], [fl[1] for fl in cform["rec"]], create[2])
            else:
                sh = Shadow(create[1], [{"i": "i64", "f": "f64", "b": "bool", "s": "text"}[v[0]] for v in create[2][0]],
                            create[2])
        else:
            sh = Shadow([c[0] for c in create[1]], [c[1] for c in create[1]], create[2] or [])
        f = check(sh, create[0] + describe_form(cform))
        if f:
            return evals, f
        shadows, curi = [sh], 0          # one shadow per frame of the block, the selected one
        # ---- operations
        j = 0
        while True:
            if ops is not None:
                if j >= len(ops):
                    break
                line, expect = ops[j]["line"], ops[j]["expect"]
            else:
                if j >= nops:
                    break
                line, expect = oracle_op(rng, sh, len(shadows))
            pres = ops[j].get("pres") if ops is not None else None
            if pres is None:
                pres = rng.randrange(1000)
            j += 1
            hist.append({"line": line, "expect": expect, "pres": pres})
            evals += 1
            shadows[curi] = sh
            if line[0] == "handle":
                s.use(line[1])
                continue
            if line[0] in ("copy", "recreate", "frame"):
                out = s.run(line, pres)
                if line[0] == "recreate":
                    if "err" not in out:
                        return evals, fail("create_data_frame with the name of an existing frame was accepted", out,
                                           "refused (DuplicateName), block unchanged",
                                           "nixio/block.py:create_data_frame")
                    site = "a refused create_data_frame with the name of frame %d" % line[1]
                else:
                    if "ok" not in out:
                        return evals, fail("%s was refused" % ("create_data_frame(copy_from=frame)" if line[0] == "copy"
                                                               else "block.data_frames[name]"), out, "accepted",
                                           "nixio/block.py")
                    if line[0] == "copy":
                        shadows.append(sh.copy())
                        curi = len(shadows) - 1
                        site = "create_data_frame(copy_from=frame), read from the copy"
                    else:
                        curi = line[1]
                        site = "operations on other frames of the block (back on frame %d)" % curi
                    sh = shadows[curi]
                f = check(sh, site)
                if f:
                    return evals, f
                continue
            if line[0] == "copy_check":
                f = copy_check(sh)
                if f:
                    return evals, f
                f = check(sh, "create_data_frame(copy_from=...) and a write to the copy")
                if f:
                    return evals, f
                continue
            if line[0] == "reopen":
                s.reopen()
                f = check(sh, "reopen")
                if f:
                    return evals, f
                continue
            before = sh.copy()
            out = s.run(line, pres)
            line, form = split_form(line)
            how = describe_form(form)
            if expect == "accept":
                if "ok" not in out:
                    return evals, fail("a legal, well-typed %s%s was refused" % (line[0], how), out, "accepted",
                                       "nixio/data_frame.py:" + line[0])
                shadow_apply(sh, line)
            else:
                if "err" not in out:
                    return evals, fail("%s%s with %s was accepted" % (line[0], how, expect), out, "refused",
                                       "nixio/data_frame.py:" + line[0])
                sh = before
            f = check(sh, line[0] + how + ("" if expect == "accept" else " refused for " + expect))
            if f:
                return evals, f
        s.reopen()
        hist.append({"line": ["reopen"], "expect": "accept"})
        f = check(sh, "reopen")
        if f:
            return evals, f
        shadows[curi] = sh
        # every frame of the block still holds its own table
        for i in range(len(shadows)):
            if i != curi:
                hist.append({"line": ["frame", i], "expect": "accept", "pres": 0})
                s.run(["frame", i])
                f = check(shadows[i], "operations on other frames of the block (frame %d at the end)" % i)
                if f:
                    return evals, f
        return evals, None
    finally:
        s.close()


def describe_form(form):
    if not form:
        return ""
    how = {"array": "a NumPy structured array", "view": "a multi-field view table[[...]] of a structured array",
           "voids": "a list of np.void records", "frame": "the structured array read from another data frame",
           "matrix": "a plain 2-D NumPy array"}[
        form.get("how", "array")]
    extra = []
    if form.get("how") == "frame":
        extra.append({"rows": "read_rows([...])", "all": "frame[:]", "columns": "read_columns(name=[...])"}[
            form.get("read", "rows")])
    if form.get("rec"):
        extra.append("fields %s" % ", ".join("%r:%s" % (f[0], f[1]) for f in form["rec"]))
    if form.get("mem"):
        extra.append("memory order %r" % (form["mem"],))
    if form.get("pad"):
        extra.append("padded")
    return " (rows given as %s%s)" % (how, "; " + "; ".join(extra) if extra else "")


def shadow_apply(sh, line):
    op, a = line[0], line[1:]
    n, m = len(sh.rows), len(sh.names)
    if op == "append_rows":
        sh.rows += [list(r) for r in a[0]]
    elif op == "append_column":
        t = a[2] if a[2] is not None else {"i": "i64", "f": "f64", "b": "bool", "s": "text"}[a[0][0][0]]
        sh.names.append(a[1])
        sh.types.append(t)
        for r, v in zip(sh.rows, a[0]):
            r.append(v)
        if sh.units is not None:
            sh.units.append(None)
    elif op in ("write_rows",):
        for r, i in zip(a[0], a[1]):
            sh.rows[norm_i(i, n)] = list(r)
    elif op == "write_row_flat":
        sh.rows[norm_i(a[1][0], n)] = list(a[0])
    elif op == "write_column":
        c = sh.names.index(a[2]) if a[2] is not None else norm_i(a[1], m)
        for r, v in zip(sh.rows, a[0]):
            r[c] = v
    elif op == "write_cell_pos":
        sh.rows[norm_i(a[1][0], n)][norm_i(a[1][1], m)] = a[0]
    elif op == "write_cell_name":
        sh.rows[norm_i(a[2], n)][sh.names.index(a[1])] = a[0]
    elif op == "set_units":
        sh.units = [None if u in (None, "") else u for u in a[0]]


def oracle_op(rng, sh, nframes=1):
    """(line, 'accept' | <listed refusal cause>) — cells are always well-typed"""
    names, types, n, m = sh.names, sh.types, len(sh.rows), len(sh.names)
    if rng.random() < 0.07:
        # block level: a copy of this frame (selected from now on), another frame of the block, a name that exists
        kind = rng.choice(["copy", "recreate"] + (["frame", "frame"] if nframes > 1 else []))
        if kind == "copy":
            return ["copy"], "accept"
        return [kind, rng.randrange(nframes)], ("accept" if kind == "frame" else "the name of an existing frame")
    kinds = ["append_rows", "append_column", "set_units", "reopen"]
    if n:
        kinds += ["write_rows", "write_rows", "write_row_flat", "write_column", "write_column", "write_cell_pos",
                  "write_cell_name"]
    else:
        kinds += ["write_column", "append_rows"]
    kind = rng.choice(kinds)
    refuse = rng.random() < 0.25
    if kind == "reopen":
        return ["reopen"], "accept"
    if rng.random() < 0.04:
        return ["copy_check"], "accept"
    if rng.random() < 0.2:
        # go on through another live object of the frame (index 4 = one more, fetched now)
        return ["handle", rng.randrange(5)], "accept"
    def too_big(t):
        lo, hi = RANGE[t]
        return ["i", rng.choice([hi + 1, lo - 1, hi + 45, lo - 200])]
    UNFIT = "a number the column type cannot hold"
    if kind == "append_rows":
        rows = gen_rows(rng, types, rng.choice([0, 1, 2, 3]))
        ints = [c for c in range(m) if types[c] in RANGE and types[c] != "i64"]
        if refuse and rows and ints and rng.random() < 0.3:
            c = rng.choice(ints)
            rows[rng.randrange(len(rows))][c] = too_big(types[c])
            return with_form(["append_rows", rows], gen_form(rng, rows, names, types) if rng.random() < 0.4 else None), \
                UNFIT
        if refuse and rows:
            i = rng.randrange(len(rows))
            rows[i] = rows[i][:-1] if rng.random() < 0.5 else rows[i] + [["i", 0]]
            if rng.random() < 0.4:
                rows = level(rows, "short" if len(rows[i]) < len(types) else "long")
            return with_form(["append_rows", rows], gen_form(rng, rows, names, types) if rng.random() < 0.4 else None), \
                "a row of the wrong length"
        return with_form(["append_rows", rows], gen_form(rng, rows, names, types) if rng.random() < 0.4 else None), \
            "accept"
    if kind == "append_column":
        t = rng.choice(TYPES)
        dt = t if (rng.random() < 0.6 or n == 0) else None
        if dt is None:
            t = rng.choice(["text", "i64", "f64", "bool"])
        name = rng.choice([x for x in NAME_POOL if x not in names and x != ""])
        col = [gen_typed(rng, t) for _ in range(n)]
        if refuse:
            what = rng.choice(["short", "long", "dup", "unfit"])
            if what == "unfit" and n and t in RANGE and t != "i64":
                col[rng.randrange(n)] = too_big(t)
                return ["append_column", col, name, t], UNFIT
            if what == "short" and n:
                return ["append_column", col[:-1], name, dt], "a column of the wrong length"
            if what == "long":
                return ["append_column", col + [gen_typed(rng, t)], name, t], "a column of the wrong length"
            return ["append_column", col, rng.choice(names), t], "a duplicate column name"
        return ["append_column", col, name, dt], "accept"
    if kind == "set_units":
        us = [rng.choice(UNITS + [None, ""]) for _ in range(m)]
        if refuse:
            return ["set_units", rng.choice([us[:-1], us + ["s"]])], "the wrong number of units"
        return ["set_units", us], "accept"
    if kind in ("write_rows", "write_row_flat"):
        idx = [legal_row(rng, n)] if rng.random() < 0.5 else inc_list(rng, n)
        rows = gen_rows(rng, types, len(idx))
        if kind == "write_row_flat" and rows[0][0][0] != "s":
            return with_form(["write_row_flat", rows[0], [idx[0]]],
                             gen_form(rng, rows[:1], names, types) if rng.random() < 0.4 else None), "accept"
        form = gen_form(rng, rows, names, types) if rng.random() < 0.4 else None
        if refuse:
            what = rng.choice(["oob", "neg_oob", "count", "short"])
            if what == "oob":
                idx[-1] = rng.choice([n, n + 2])
                return with_form(["write_rows", rows, idx], form), "an out-of-range row"
            if what == "neg_oob":
                idx[0] = -n - 1
                return with_form(["write_rows", rows, idx], form), "an out-of-range row"
            if what == "count":
                return ["write_rows", rows + gen_rows(rng, types, 1), idx], "a wrong number of rows"
            i = rng.randrange(len(rows))
            rows[i] = rows[i][:-1] if rng.random() < 0.5 else rows[i] + [["i", 0]]
            return ["write_rows", rows, idx], "a row of the wrong length"
        return with_form(["write_rows", rows, idx], form), "accept"
    if kind == "write_column":
        c = rng.choice([0, m - 1, rng.randrange(m)])
        col = [gen_typed(rng, types[c]) for _ in range(n)]
        by = rng.choice(["index", "neg", "name"])
        index, name = (c, None) if by == "index" else (c - m, None) if by == "neg" else (None, names[c])
        if refuse:
            what = rng.choice(["short", "long", "unknown", "idx", "unfit", "unfit"])
            if what == "unfit" and n and types[c] in RANGE and types[c] != "i64":
                col[rng.randrange(n)] = too_big(types[c])
                return ["write_column", col, index, name], UNFIT
            if what == "short" and n:
                return ["write_column", col[:-1], index, name], "a column of the wrong length"
            if what == "long":
                return ["write_column", col + [gen_typed(rng, types[c])], index, name], "a column of the wrong length"
            if what == "unknown" and n:
                return ["write_column", col, None, "nope"], "an unknown column"
            return ["write_column", col, rng.choice([m, -m - 1]), None], "an out-of-range column index"
        return ["write_column", col, index, name], "accept"
    rr, c = legal_row(rng, n), rng.choice([0, m - 1, rng.randrange(m)])
    v = gen_typed(rng, types[c])
    if refuse and types[c] in RANGE and types[c] != "i64" and rng.random() < 0.3:
        if kind == "write_cell_pos":
            return ["write_cell_pos", too_big(types[c]), [rr, c]], UNFIT
        return ["write_cell_name", too_big(types[c]), names[c], rr], UNFIT
    if kind == "write_cell_pos":
        if refuse:
            what = rng.choice(["row", "col"])
            if what == "row":
                return ["write_cell_pos", v, [bad_row(rng, n), c]], "an out-of-range row"
            return ["write_cell_pos", v, [rr, rng.choice([m, -m - 1])]], "an out-of-range column"
        return ["write_cell_pos", v, [rr, c if rng.random() < 0.7 else c - m]], "accept"
    if refuse:
        if rng.random() < 0.5:
            return ["write_cell_name", v, names[c], bad_row(rng, n)], "an out-of-range row"
        return ["write_cell_name", v, "nope", rr], "an unknown column"
    return ["write_cell_name", v, names[c], rr], "accept"


def _acc(line):
    return {"line": line, "expect": "accept"}


# minimal inputs of the defects repaired by `fix:` commits — always run, so a regression is a VIOLATION again
FIXED_CASES = [
    # D18 write_column(index=0)
    [["create_dict", [["a", "i64"], ["s", "text"]], [[["i", 1], ["s", "x"]], [["i", 2], ["s", "y"]]]],
     _acc(["write_column", [["i", 7], ["i", 8]], 0, None])],
    # D19 append_rows after append_column (+ reopen after the structural change)
    [["create_dict", [["a", "i64"]], [[["i", 1]]]],
     _acc(["append_column", [["s", "q"]], "s", "text"]), _acc(["reopen"]),
     _acc(["append_rows", [[["i", 2], ["s", "r"]]]]), _acc(["reopen"])],
    # units stay one per column across append_column; wrong lengths are refused
    [["create_dict", [["a", "i64"], ["x", "f64"]], [[["i", 1], ["f", "3/2"]]]],
     _acc(["set_units", ["mV", None]]), _acc(["append_column", [["b", True]], "flag", None]),
     {"line": ["set_units", ["mV"]], "expect": "the wrong number of units"}],
    # read_cell by (name, row) in all four spellings is part of check(); text cell longer than one character
    [["create_dict", [["s", "text"], ["k", "i8"]], [[["s", "alpha"], ["i", -128]], [["s", "beta"], ["i", 127]]]],
     _acc(["write_cell_name", ["s", "gamma"], "s", 1])],
    # two live objects of one frame: structural changes through one, reads and writes to the new last column / last
    # row through the other (check() reads through every live object after each step)
    [["create_dict", [["s", "text"], ["n", "i16"]], [[["s", "a"], ["i", 1]], [["s", "b"], ["i", 2]]]],
     _acc(["set_units", [None, "mV"]]), _acc(["handle", 1]),
     _acc(["append_column", [["f", "1/2"], ["f", "3/2"]], "x", "f64"]), _acc(["handle", 0]),
     _acc(["write_column", [["f", "5/2"], ["f", "7/2"]], 2, None]), _acc(["set_units", [None, "mV", "s"]]),
     _acc(["handle", 1]), _acc(["append_rows", [[["s", "c"], ["i", 3], ["f", "9/2"]]]]), _acc(["handle", 0]),
     _acc(["write_cell_pos", ["f", "11/2"], [2, 2]]), _acc(["handle", 2]),
     _acc(["append_column", [["b", True], ["b", False], ["b", True]], "flag", None]), _acc(["handle", 1]),
     _acc(["write_cell_name", ["b", False], "flag", -1])],
    # write_column is all-or-nothing (fix 2f1693f): a cell the column type refuses in a later row leaves the earlier
    # rows as they were
    [["create_dict", [["a", "i8"], ["s", "text"]], [[["i", 1], ["s", "p"]], [["i", 2], ["s", "q"]], [["i", 3], ["s", "r"]]]],
     {"line": ["write_column", [["i", 5], ["i", 6], ["i", 300]], 0, None], "expect": "a cell the column type refuses"},
     {"line": ["write_column", [["i", 5], ["s", "x"], ["i", 7]], None, "a"], "expect": "a cell the column type refuses"},
     _acc(["write_column", [["i", 7], ["i", 8], ["i", 9]], -2, None])],
    # a number the column cannot hold is refused, however it is spelled (fix ac50c5b: write_column([300, 5]) stored 44
    # in a uint8 column, -1 became 255; NumPy scalars / arrays / structured arrays were cast unchecked)
    [["create_dict", [["k", "u8"], ["s", "text"]], [[["i", 1], ["s", "x"]], [["i", 2], ["s", "y"]]]],
     {"line": ["write_column", [["i", 300], ["i", 5]], 0, None], "expect": "a number the column type cannot hold", "pres": 0},
     {"line": ["write_column", [["i", -1], ["i", 5]], None, "k"], "expect": "a number the column type cannot hold", "pres": 1},
     {"line": ["write_cell_pos", ["i", 256], [0, 0]], "expect": "a number the column type cannot hold", "pres": 2},
     {"line": ["write_cell_name", ["i", -1], "k", -1], "expect": "a number the column type cannot hold", "pres": 5},
     {"line": ["append_column", [["i", 300], ["i", 1]], "n", "u8"], "expect": "a number the column type cannot hold", "pres": 1},
     {"line": ["append_rows", [[["i", 256], ["s", "z"]]], {"how": "array", "rec": [["a", "i64"], ["b", "text"]]}],
      "expect": "a number the column type cannot hold", "pres": 0},
     _acc(["write_column", [["i", 255], ["i", 0]], 0, None])],
    # columns of different types read grouped by columns keep their cells (fix: object array instead of NumPy's common
    # type, which turned numbers into text next to a text column and large integers into floats); check() reads them
    [["create_dict", [["a", "i64"], ["s", "text"], ["x", "f64"]],
      [[["i", 9223372036854775807], ["s", "\u00e9"], ["f", "3/2"]], [["i", -3], ["s", ""], ["f", "1/4"]]]],
     _acc(["append_column", [["b", True], ["b", False]], "flag", "bool"])],
    # a frame holding non-ASCII text: write_column rewrites whole rows read raw from the file (text as bytes);
    # regression of 61e9077 repaired by fix 6332817
    [["create_dict", [["s", "text"], ["k", "i8"]], [[["s", "\u00e9"], ["i", 1]], [["s", "\u4e2d\u6587"], ["i", 2]]]],
     _acc(["write_column", [["i", 7], ["i", 8]], None, "k"]),
     _acc(["write_column", [["s", "\u00fcber"], ["s", "a"]], 0, None]), _acc(["write_cell_pos", ["i", 9], [0, 1]])],
    # creation variant copy_from: same table, independent of the source
    [["create_dict", [["s", "text"], ["k", "u8"]], [[["s", "a"], ["i", 1]], [["s", "b"], ["i", 255]]]],
     _acc(["set_units", [None, "mV"]]), _acc(["copy_check"]),
     _acc(["append_column", [["b", True], ["b", False]], "flag", "bool"]), _acc(["copy_check"])],
    [["create_names_types", ["x"], ["f64"], None], _acc(["copy_check"])],
    # creation with zero rows through data=[]
    [["create_dict", [["a", "i64"], ["s", "text"]], []], _acc(["append_rows", [[["i", 1], ["s", "x"]]]])],
    [["create_names_types", ["a", "s"], ["i64", "text"], []]],
    # rows and creation data as NumPy structured arrays: by position, whatever the field names and the layout
    [["create_dict", [["trial", "i64"], ["amplitude", "f64"], ["label", "text"]], [[["i", 10], ["f", "3/2"], ["s", "first"]]]],
     _acc(["append_rows", [[["i", 1], ["f", "1/4"], ["s", "alpha"]], [["i", 2], ["f", "1/2"], ["s", "g\u00e4mma"]]],
           {"how": "frame", "read": "rows", "rec": [["trial", "i64"], ["amp", "f64"], ["label", "text"]]}]),
     _acc(["append_rows", [[["i", 7], ["f", "5/2"], ["s", "x"]]],
           {"how": "array", "rec": [["label", "i32"], ["trial", "f64"], ["amplitude", "text"]]}]),
     _acc(["write_rows", [[["i", 3], ["f", "3/4"], ["s", "z"]], [["i", 4], ["f", "1/1"], ["s", ""]]], [0, -1],
           {"how": "view", "mem": [2, 0, 1], "pad": 2, "rec": [["amplitude", "i8"], ["trial", "f64"], ["label", "text"]]}]),
     _acc(["write_row_flat", [["i", 5], ["f", "7/4"], ["s", "v"]], [1],
           {"how": "voids", "rec": [["a", "u8"], ["b", "f64"], ["d", "text"]]}]),
     {"line": ["append_rows", [[["i", 1], ["f", "1/4"]]], {"how": "array", "rec": [["trial", "i64"], ["amplitude", "f64"]]}],
      "expect": "a row of the wrong length"}],
    [["create_struct", [["stop", "f64"], ["trial", "i64"], ["ok", "bool"]],
      [[["f", "41/4"], ["i", 1], ["b", True]], [["f", "83/4"], ["i", 2], ["b", False]]], {"how": "view", "mem": [1, 0, 2], "pad": 1}]],
    [["create_struct", [["side", "text"], ["start", "f64"], ["trial", "i16"]],
      [[["s", "left"], ["f", "1/2"], ["i", 1]], [["s", "m\u00efddle"], ["f", "5/2"], ["i", 3]]], {"how": "array", "mem": [2, 1, 0]}]],
    [["create_names_data", ["p", "q"], [[["i", -128], ["s", "x"]], [["i", 127], ["s", "y"]]],
      {"how": "array", "mem": [1, 0], "rec": [["q", "i8"], ["p", "text"]]}]],
    [["create_names_types", ["a", "b"], ["i64", "text"], [[["i", 1], ["s", "x"]], [["i", 2], ["s", "y"]]],
      {"how": "frame", "read": "columns", "mem": [1, 0], "rec": [["b", "i32"], ["a", "text"]]}]],
    # frames of one block are independent; a copy is a frame of its own; an existing name is refused
    [["create_dict", [["a", "i64"], ["s", "text"]], [[["i", 1], ["s", "x"]], [["i", 2], ["s", "y"]]]],
     _acc(["copy"]), _acc(["write_cell_pos", ["s", "changed"], [0, 1]]), _acc(["append_column", [["b", True], ["b", False]], "f", None]),
     _acc(["frame", 0]), _acc(["append_rows", [[["i", 3], ["s", "z"]]]]),
     {"line": ["recreate", 1], "expect": "the name of an existing frame"}, _acc(["frame", 1]),
     _acc(["write_column", [["i", 8], ["i", 9]], 0, None]), _acc(["copy"]), _acc(["set_units", ["mV", None, None]]),
     _acc(["frame", 1]), _acc(["reopen"]), _acc(["frame", 0])],
    # first / last / negative addresses on every write
    [["create_dict", [["a", "u8"], ["b", "bool"], ["c", "f64"]],
      [[["i", 0], ["b", False], ["f", "0/1"]], [["i", 255], ["b", True], ["f", "-9/4"]], [["i", 3], ["b", True], ["f", "1/2"]]]],
     _acc(["write_rows", [[["i", 9], ["b", True], ["f", "1/1"]]], [-3]]),
     _acc(["write_rows", [[["i", 8], ["b", False], ["f", "2/1"]], [["i", 7], ["b", False], ["f", "3/1"]]], [0, -1]]),
     _acc(["write_column", [["f", "5/2"], ["f", "7/2"], ["f", "9/2"]], -1, None]),
     _acc(["write_cell_pos", ["i", 200], [-1, -3]]),
     _acc(["write_cell_name", ["b", True], "b", -3]),
     {"line": ["write_rows", [[["i", 1], ["b", True], ["f", "1/1"]]], [3]], "expect": "an out-of-range row"},
     {"line": ["write_column", [["i", 1], ["i", 2], ["i", 3]], None, "nope"], "expect": "an unknown column"},
     {"line": ["append_column", [["i", 1], ["i", 2], ["i", 3]], "a", "i64"], "expect": "a duplicate column name"}],
]


def _big_case():
    """a table that grows past a few hundred rows (chunk boundaries of the dataset): appended in bulk, addressed at
    its first / last / boundary rows, widened by a column, reopened"""
    def row(i):
        return [["i", i], ["s", "r%d" % i + ("\u00e9" if i % 7 == 0 else "")], enc_float((i * 3 - 100) / 4), ["b", i % 3 == 0]]
    cols = [["n", "i32"], ["label", "text"], ["x", "f64"], ["ok", "bool"]]
    return [["create_dict", cols, [row(i) for i in range(130)]],
            _acc(["append_rows", [row(i) for i in range(130, 300)]]),
            _acc(["write_rows", [row(1000), row(1001), row(1002), row(1003)], [0, 255, 256, -1]]),
            _acc(["append_rows", [row(i) for i in range(300, 530)],
                  {"how": "frame", "read": "all", "rec": [["label", "i32"], ["n", "text"], ["x", "f64"], ["flag", "bool"]]}]),
            _acc(["append_column", [["i", i % 256] for i in range(530)], "k", "u8"]),
            _acc(["write_cell_pos", ["i", 255], [-1, -1]]), _acc(["write_cell_name", ["s", "mid"], "label", 256]),
            _acc(["reopen"]), _acc(["append_rows", [row(9)[:4] + [["i", 7]]]])]


def extra_fixed_checks(ctx):
    """block-level cases outside the single-frame protocol"""
    nix, np = _nix()
    fails = []
    path = ctx.tmpfile("c16-extra-%d.nix" % os.getpid())
    f = nix.File.open(path, nix.FileMode.Overwrite)
    try:
        b = f.create_block("b", "t")
        df = b.create_data_frame("d", "t", col_dict=OrderedDict([("a", int), ("s", str)]), data=[(1, "x"), (2, "y")])
        ident = df.id
        try:
            b.create_data_frame("d", "other", col_dict=OrderedDict([("a", int), ("s", str)]), data=[(5, "q"), (6, "r")])
            accepted = True
        except Exception:
            accepted = False
        now = b.data_frames["d"]
        got = [tuple(r) for r in now[:].tolist()]
        if accepted or now.id != ident or got != [(1, "x"), (2, "y")] or now.type != "t":
            fails.append(Failure("create_data_frame with the name of an existing frame changed that frame",
                                 ["create_data_frame('d', ...) twice"], {"accepted": accepted, "rows": repr(got)},
                                 "DuplicateName, first frame unchanged", "nixio/block.py:create_data_frame"))
        before = len(b.data_frames)
        for kw in ({"col_dict": OrderedDict([("a", int), ("s", str)]), "data": [(1,)]},
                   {"col_dict": OrderedDict([("k", np.int8)]), "data": [(300,)]},
                   {"col_names": ["a", "a"], "col_dtypes": [int, int]}):
            try:
                b.create_data_frame("bad%d" % len(fails), "t", **kw)
                fails.append(Failure("a creation that must be refused was accepted", [repr(kw)], "accepted", "refused",
                                     "nixio/block.py:create_data_frame"))
            except Exception:
                pass
            if len(b.data_frames) != before:
                fails.append(Failure("a refused create_data_frame left a frame behind", [repr(kw)],
                                     repr([d.name for d in b.data_frames]), "no new frame",
                                     "nixio/block.py:create_data_frame"))
                before = len(b.data_frames)
    finally:
        f.close()
        os.remove(path)
    return 4, fails


def _hint_histories(hints):
    """disagreeing correspondence histories, reduced to what the oracle states: well-typed legal writes must be
    accepted and read back — replayed as fixed oracle cases with 'accept' only when the model accepted them"""
    return []


def oracle(ctx, broken, hints):
    rng = ctx.rng
    failures = []
    evals = 0
    k = 100000
    for case in FIXED_CASES + [_big_case()]:
        e, f = oracle_history(ctx, k, rng, 0, fixed=case)
        k += 1
        evals += e
        if f:
            failures.append(f)
    e, fs = extra_fixed_checks(ctx)
    evals += e
    failures += fs
    n = ctx.budget(60, 500)
    if broken:
        n = ctx.budget(600, 4000)
    for _ in range(n):
        if len(failures) >= 8:
            break
        e, f = oracle_history(ctx, k, rng, rng.choice([4, 8, 12, 16]))
        k += 1
        evals += e
        if f:
            failures.append(f)
    failures.sort(key=lambda f: len(core.canon(f.input)))
    return {"evaluations": evals, "failures": failures, "histories": k - 100000, "hints_seen": len(hints)}


def matches_known(entry, failure):
    return False


def replay_failure(ctx, fj):
    """re-run the recorded oracle history (creation line + {"line", "expect"} entries)"""
    hist = fj["input"]
    first = hist[0]["line"] if hist and isinstance(hist[0], dict) and "line" in hist[0] else (hist[0] if hist else None)
    if not isinstance(first, list) or not str(first[0]).startswith("create"):
        fs = extra_fixed_checks(ctx)[1]
        return fs[0] if fs else None
    return oracle_history(ctx, 999999, ctx.rng, 0, fixed=hist)[1]


READY = True
MANIFEST = {
    "level_text": "Kernel-checked theorems over a Lean model of DataFrame (data_frame.py), create_data_frame and the "
                  "read path below it (DataSet.__getitem__, H5DataSet.read_data, _convert_string_cols): for every "
                  "frame reachable from any of the four creation variants by any history of operations, an accepted "
                  "append/overwrite of rows, a column or a cell (by index or name, negative indices included) is what "
                  "read_rows / the cell reads return, converted to the column type (identity on well-typed cells); "
                  "every read API (read_rows by int and list, read_cell by position and name, read_columns by index "
                  "and name with any slice, also grouped by columns, frame[name], frame[lo:hi]) is proved to be a "
                  "view of the one stored table; no operation, accepted or refused, changes a cell it does not "
                  "address; row and column counts, names, types, units and `columns` describe the stored table "
                  "(invariant by induction over the history); every refused write leaves the table unchanged and "
                  "each refusal class of the property is proved to be refused; the schema and the rows each creation "
                  "variant derives are theorems. Rows and creation data handed over as NumPy structured arrays "
                  "(record arrays, multi-field views, np.void lists, rows read from another frame) are proved to be "
                  "taken by position whatever the field names, offsets and padding are, and all history theorems are "
                  "lifted to histories that use them. The frames of a block are modelled, too: an existing name is "
                  "refused before anything else, a refused creation leaves no frame behind, a copy (copy_from) is a "
                  "frame of its own, and an operation on one frame leaves every other frame as it was. append_rows, "
                  "write_column and append_column are also modelled effect by effect (NumPy stage, storage effects, "
                  "h5py stage, roll-back handler) and proved to end in the state of the atomic model. A second, byte-level model keeps text cells as UTF-8 bytes and "
                  "follows the code in using raw rows (append_column, write_column) or rows converted by "
                  "_convert_string_cols (every read, write_cell); it is proved to simulate the abstract model step by "
                  "step for every history and to return the same from every read. The driver runs the byte-level "
                  "machine; it is tied to the code by differential histories generated online against real nixio on "
                  "real HDF5 files (several live DataFrame objects per frame, structured-array spellings of rows, "
                  "reopen inside and at the end of every history) and by Generated/FrameShape.lean (guards, "
                  "helper-call order and per-object state of every modelled method, and the read path statement by "
                  "statement, regenerated from the source by an ast translator; four theorems compare it with the "
                  "shape the model was written against). Three defects found on the way were repaired in nixio "
                  "(unchecked NumPy casts storing 44 for 300, grouped column reads losing the column types).",
    "level_note": "Partial aspects: h5py/libhdf5 storage and NumPy scalar conversion are modelled (conv, enc), not "
                  "verified; the UTF-8 round trip is Lean's own (String is a validated byte array); reopening is the "
                  "identity in the model and carried by the correspondence; floats are exact rationals (no arithmetic "
                  "is done on cells); numeric-literal strings, ints beyond 2^53 for float columns, NaN/inf, frame "
                  "names as text and compression "
                  "are outside the model (numbers an integer column cannot hold are inside: refused in every spelling "
                  "since fix ac50c5b). The positional reading of a structured array is "
                  "the model's definition (what the repaired code does); the theorems state that names and layout "
                  "cannot matter, the differential runs check that the code agrees. The shape theorems are equalities "
                  "between a regenerated and a hand-written table: they detect an edit of the source, they do not "
                  "interpret it.",
    "technique": "Lean 4 proof (induction over operation histories, simulation between a byte-level and an abstract "
                 "model, list lemmas) with differential correspondence and an ast translator for the source shape",
}
