"""C07 — sessions: the conversions of a dimension after its configuration was changed, asked through descriptor
objects that were created (and used) BEFORE the change.

`da.dimensions[i]` builds a new descriptor object on every access.  The property speaks about the dimension, not about
a descriptor object: whatever object is asked, the answer has to be the one for the configuration the dimension has
NOW (offset, interval, ticks, labels, link target, values of the link target).  A session is a history

  ["append_sampled", si] | ["append_range"] | ["append_set"]             dimensions of one fresh DataArray
  ["new_src", src] | ["write_src", k, src]                                 1-D / 2-D arrays and frames that links point to
  ["open", d, {"via": …}]                                                  a new handle (descriptor object), kept alive
  ["set_offset", h, v|null] | ["set_interval", h, v] | ["set_ticks", h, [..]] | ["set_labels", h, n]
  ["link_array", h, k, [i…]] | ["link_frame", h, k, col] | ["unlink", h] | ["set_unit", h, u] | ["set_label", h, l]
  ["index_of", h, pos, mode] | ["range_indices", h, s, e, smode] | ["position_at", h, i] | ["axis", h, count, start, sp]

(the model side is `NixModel/Pure/DimSession.lean`, driver op ["session", [op…]]).  The oracle keeps its own record of
what was written (last successful write wins) and judges every `index_of` / `range_indices` answer with the
order-theoretic definitions of `c07.judge` for THAT configuration; the correspondence compares every answer with the
model's.  Numbers as in c07.py: exact rationals "num/den" of doubles.
"""
import os
from collections import OrderedDict
from fractions import Fraction

from ..lib import core
from ..lib.core import Failure, Disagreement

QUERIES = ("index_of", "range_indices", "position_at", "axis")
MUTATIONS = ("set_offset", "set_interval", "set_ticks", "set_labels", "link_array", "link_frame", "unlink",
             "set_unit", "set_label", "write_src")
VIAS = ["dims", "dims", "fresh-array", "iter", "appended", "negative"]
ERRMAP = {"IncompatibleDimensions": "ValueError", "OutOfBounds": "IndexError"}


def B():
    from . import c07
    return c07


def strip_op(op):
    return op[:-1] if isinstance(op[-1], dict) else op


def strip_session(ops):
    return [strip_op(o) for o in ops]


# ---------------------------------------------------------------------------------------
# the harness's own record of the configuration (independent of the Lean model)


class Truth:
    """what has been written, last successful write wins"""

    def __init__(self):
        self.dims = []       # dicts: kind, off, si | ticks, link | n, link
        self.srcs = []       # ("vec", [..]) | ("mat", rows, nc) | ("frame", rows, nc)
        self.handles = []    # dimension position per handle

    def link_values(self, link):
        """values of the linked vector, or None when the link cannot be read"""
        if link is None:
            return None
        k, idx = link
        src = self.srcs[k]
        if src[0] == "vec":
            return list(src[1]) if idx == [-1] else None
        rows = src[1]
        if src[0] == "frame":
            return [r[idx] for r in rows] if 0 <= idx < src[2] else None
        if len(idx) != 2:
            return None
        if idx[0] == -1:
            return [r[idx[1]] for r in rows] if 0 <= idx[1] < src[2] else None
        return list(rows[idx[0]]) if 0 <= idx[0] < len(rows) else None

    def pure_case(self, op):
        """the conversion a query op asks, as a case of c07.py for the CURRENT configuration (None: not judged)"""
        o = strip_op(op)
        d = self.dims[self.handles[o[1]]]
        if d["kind"] == "sampled":
            off, si = d["off"], d["si"]
            if o[0] == "index_of":
                return ["sampled_index_of", off, si, o[2], o[3]]
            if o[0] == "range_indices":
                return ["sampled_range_indices", off, si, o[2], o[3], o[4]]
            if o[0] == "position_at":
                return ["sampled_position_at", off, si, o[2]]
            return ["sampled_axis", off, si, o[2], o[3], o[4]]
        if d["kind"] == "range":
            ticks = self.link_values(d["link"]) if d["link"] is not None else (d["ticks"] or [])
            if ticks is None:
                return None
            if o[0] == "index_of":
                return ["range_index_of", ticks, o[2], o[3]]
            if o[0] == "range_indices":
                return ["range_range_indices", ticks, o[2], o[3], o[4]]
            if o[0] == "position_at":
                return ["range_tick_at", ticks, o[2]]
            return ["range_axis", ticks, o[2], o[3]]
        if d["link"] is not None:
            v = self.link_values(d["link"])
            if v is None:
                return None
            n = len(v)
        else:
            n = d["n"] or 0
        if o[0] == "index_of":
            return ["set_index_of", n, o[2], o[3]]
        if o[0] == "range_indices":
            return ["set_range_indices", n, o[2], o[3], o[4]]
        return None

    def apply(self, op, out):
        """record a change the implementation accepted"""
        o = strip_op(op)
        k = o[0]
        if k == "append_sampled":
            self.dims.append({"kind": "sampled", "off": None, "si": o[1]})
        elif k == "append_range":
            self.dims.append({"kind": "range", "ticks": None, "link": None})
        elif k == "append_set":
            self.dims.append({"kind": "set", "n": None, "link": None})
        elif k == "new_src":
            self.srcs.append(tuple(o[1]))
        elif k == "open":
            self.handles.append(o[1])
        if "ok" not in out:
            return
        if k == "write_src":
            self.srcs[o[1]] = tuple(o[2])
        elif k in MUTATIONS:
            d = self.dims[self.handles[o[1]]]
            if k == "set_offset":
                d["off"] = o[2]
            elif k == "set_interval":
                d["si"] = o[2]
            elif k == "set_ticks":
                d["ticks"], d["link"] = list(o[2]), None
            elif k == "set_labels":
                d["n"] = o[2]
            elif k == "link_array":
                d["link"] = (o[2], list(o[3]))
                if d["kind"] == "range":
                    d["ticks"] = None
            elif k == "link_frame":
                d["link"] = (o[2], o[3])
                if d["kind"] == "range":
                    d["ticks"] = None
            elif k == "unlink":
                d["link"] = None


# ---------------------------------------------------------------------------------------
# implementation runner


class SessionImpl:
    """sessions on real nixio objects: every session gets a fresh DataArray (and fresh sources) in one real file;
    the descriptor objects handed out by "open" stay alive until the session ends"""

    def __init__(self, ctx, tag="sess"):
        import numpy as np
        import nixio
        self.np, self.nix, self.ctx, self.tag = np, nixio, ctx, tag
        self.nfile = 0
        self.nsess = 0
        self.f = None
        self._newfile()

    def _newfile(self):
        if self.f is not None:
            self.close()
        self.nfile += 1
        self.path = self.ctx.tmpfile("c07-%s-%d-%d.nix" % (self.tag, os.getpid(), self.nfile))
        self.f = self.nix.File.open(self.path, self.nix.FileMode.Overwrite)
        self.blk = self.f.create_block("b", "t")

    def close(self):
        try:
            self.f.close()
        except Exception:
            pass
        self.f = None

    # -- sources
    def _arr(self, src):
        b = B()
        if src[0] == "vec":
            return self.np.array([b.fl(x) for x in src[1]], dtype=float)
        return self.np.array([[b.fl(x) for x in r] for r in src[1]], dtype=float).reshape(len(src[1]), src[2])

    def _new_src(self, src):
        name = "%s-src%d" % (self.sname, len(self.srcs))
        if src[0] == "frame":
            b = B()
            cols = OrderedDict(("c%d" % i, float) for i in range(src[2]))
            obj = self.blk.create_data_frame(name, "t", col_dict=cols,
                                             data=[tuple(b.fl(x) for x in r) for r in src[1]])
        else:
            obj = self.blk.create_data_array(name, "t", data=self._arr(src))
        self.srcs.append(obj)

    def _write_src(self, k, src):
        obj = self.srcs[k]
        b = B()
        if src[0] == "frame":
            rows = [tuple(b.fl(x) for x in r) for r in src[1]]
            n = len(obj)
            if len(rows) < n:
                obj.data_extent = (len(rows),)
                n = len(rows)
            if n:
                obj.write_rows(rows[:n], list(range(n)))
            if len(rows) > n:
                obj.append_rows(rows[n:])
            return
        arr = self._arr(src)
        if tuple(obj.data_extent) != arr.shape:
            obj.data_extent = arr.shape
        obj.write_direct(arr)

    # -- handles
    def _open(self, d, via):
        """a descriptor object for dimension d, obtained in one of the ways the API offers (how it is obtained is
        not the subject: any refusal falls back to the plain `da.dimensions[d]`)"""
        try:
            if via == "fresh-array":
                return self.blk.data_arrays[self.sname].dimensions[d]
            if via == "iter":
                return [x for _, x in self.da.iter_dimensions()][d]
            if via == "appended":
                return self.appended[d]
            if via == "negative":
                return self.da.dimensions[d - len(self.da.dimensions)]
        except Exception:
            pass
        return self.da.dimensions[d]

    def _exec(self, op):
        b = B()
        nix = self.nix
        o = strip_op(op)
        opts = op[-1] if isinstance(op[-1], dict) else {}
        k = o[0]
        if k == "append_sampled":
            self.appended.append(self.da.append_sampled_dimension(b.fl(o[1])))
            return "done"
        if k == "append_range":
            self.appended.append(self.da.append_range_dimension())
            return "done"
        if k == "append_set":
            self.appended.append(self.da.append_set_dimension())
            return "done"
        if k == "new_src":
            self._new_src(o[1])
            return "done"
        if k == "write_src":
            self._write_src(o[1], o[2])
            return "done"
        if k == "open":
            self.handles.append(self._open(o[1], opts.get("via", "dims")))
            return "done"
        h = self.handles[o[1]]
        if k == "set_offset":
            h.offset = None if o[2] is None else b.fl(o[2])
        elif k == "set_interval":
            h.sampling_interval = b.fl(o[2])
        elif k == "set_ticks":
            h.ticks = [b.fl(t) for t in o[2]]
        elif k == "set_labels":
            h.labels = ["l%d" % i for i in range(o[2])]
        elif k == "link_array":
            h.link_data_array(self.srcs[o[2]], list(o[3]))
        elif k == "link_frame":
            h.link_data_frame(self.srcs[o[2]], o[3])
        elif k == "unlink":
            h.remove_link()
        elif k == "set_unit":
            h.unit = o[2]
        elif k == "set_label":
            h.label = o[2]
        elif k == "index_of":
            mode = getattr(nix.IndexMode, o[3])
            return int(h.index_of(b.fl(o[2]), mode))
        elif k == "range_indices":
            r = h.range_indices(b.fl(o[2]), b.fl(o[3]), getattr(nix.SliceMode, o[4]))
            return None if r is None else [int(r[0]), int(r[1])]
        elif k == "position_at":
            if isinstance(h, nix.dimensions.RangeDimension):
                return b.fs(float(h.tick_at(o[2])))
            return b.fs(float(h.position_at(o[2])))
        elif k == "axis":
            if isinstance(h, nix.dimensions.RangeDimension):
                r = h.axis(o[2], o[3])
            else:
                r = h.axis(o[2], o[3], None if o[4] is None else b.fl(o[4]))
            return [b.fs(float(x)) for x in r]
        else:
            raise KeyError("unknown session op %r" % (k,))
        return "done"

    def run(self, ops):
        """answers per op, in the shape the model driver prints them"""
        import warnings
        self.nsess += 1
        if self.nsess % 150 == 0:
            self._newfile()
        self.sname = "s%d" % self.nsess
        self.da = self.blk.create_data_array(self.sname, "t", data=self.np.zeros(3))
        self.handles, self.srcs, self.appended = [], [], []
        outs = []
        for op in ops:
            try:
                with warnings.catch_warnings():
                    warnings.simplefilter("ignore")
                    outs.append({"ok": self._exec(op)})
            except Exception as e:
                for cls, nm in ((IndexError, "IndexError"), (ValueError, "ValueError"), (TypeError, "TypeError"),
                                (KeyError, "KeyError"), (OverflowError, "OverflowError"),
                                (ArithmeticError, "ArithmeticError"), (RuntimeError, "RuntimeError")):
                    if isinstance(e, cls):
                        outs.append({"err": nm})
                        break
                else:
                    outs.append({"err": type(e).__name__})
        self.handles = []
        return outs


def canon_model(outs):
    res = []
    for o in outs:
        if "err" in o:
            o = {"err": ERRMAP.get(o["err"], o["err"])}
        res.append(o)
    return res


# ---------------------------------------------------------------------------------------
# generator


def _sampled_pos(rng, off, si):
    """a position on / beside / between / before the samples of the CURRENT configuration (exact float path)"""
    b = B()
    O, S = b.F(off), b.F(si)
    if S == 0:
        return b.fs(O + rng.choice([Fraction(-1), Fraction(0), Fraction(1, 2), Fraction(3)]))
    for _ in range(12):
        if rng.random() < 0.15:
            r = -rng.choice([Fraction(1, 4), Fraction(1), Fraction(7, 2), Fraction(1, 2 ** 30)])
        else:
            r = rng.choice([0, 0, 1, 2, 3, 5, 8, 17, 100, rng.randint(0, 40)]) + rng.choice(b.DELTAS_EXACT)
        p = O + S * r
        if b.is_double(p):
            return b.fs(p)
    return b.fs(O)


def _asc(xs):
    return all(a <= b_ for a, b_ in zip(xs, xs[1:]))


def _ticks(rng):
    b = B()
    return [b.fs(t) for t in b.gen_ticks(rng)]


def _src(rng, kind):
    b = B()
    if kind == "vec":
        return ["vec", _ticks(rng)]
    nc = rng.choice([1, 2, 3])
    nr = rng.choice([1, 2, 3, 4])
    cols = []
    for _ in range(nc):
        t = b.gen_ticks(rng)
        while len(t) < nr:
            t.append(t[-1] + rng.choice([0.0, 0.5, 1.0]))
        cols.append(t[:nr])
    rows = [[b.fs(cols[c][r]) for c in range(nc)] for r in range(nr)]
    if kind == "mat" and rng.random() < 0.4:
        # rows ascending as well (a row can be linked)
        rows = [[b.fs(b.fl(rows[0][0]) + r + 0.5 * c) for c in range(nc)] for r in range(nr)]
    return [kind, rows, nc]


def gen_session(rng, length=None):
    b = B()
    T = Truth()
    ops = []

    def emit(op):
        ops.append(op)
        # the generator's own bookkeeping assumes acceptance of well-formed changes (refusals it generates on purpose
        # are tracked below); the oracle re-derives the truth from the implementation's actual outcomes
        T.apply(op, {"ok": "done"})

    kinds = [rng.choice(["sampled", "sampled", "range", "range", "set"]) for _ in range(rng.choice([1, 1, 2, 3]))]
    for kd in kinds:
        if kd == "sampled":
            emit(["append_sampled", b.fs(rng.choice(b.SI_EXACT))])
        elif kd == "range":
            emit(["append_range"])
        else:
            emit(["append_set"])
    srckinds = []
    if any(k != "sampled" for k in kinds) and rng.random() < 0.6:
        for _ in range(rng.choice([1, 2])):
            sk = rng.choice(["vec", "vec", "mat", "frame"])
            srckinds.append(sk)
            emit(["new_src", _src(rng, sk)])
    # two handles per dimension to start with, one of them possibly the object returned by append_*
    for d in range(len(kinds)):
        emit(["open", d, {"via": rng.choice(VIAS)}])
        emit(["open", d, {"via": rng.choice(VIAS)}])
    used = {}            # handle -> has answered a query
    last_mut = None      # (dimension, handle) of the latest change

    def handles_of(d):
        return [h for h, dd in enumerate(T.handles) if dd == d]

    def query(h):
        d = T.dims[T.handles[h]]
        r = rng.random()
        if d["kind"] == "sampled":
            off, si = d["off"], d["si"]
            if r < 0.55:
                emit(["index_of", h, _sampled_pos(rng, off, si), rng.choice(b.MODES)])
            elif r < 0.8:
                s, e = _sampled_pos(rng, off, si), _sampled_pos(rng, off, si)
                if b.F(s) > b.F(e) and rng.random() < 0.8:
                    s, e = e, s
                emit(["range_indices", h, s, e, rng.choice(b.SMODES)])
            elif r < 0.9:
                emit(["position_at", h, rng.choice([0, 1, 2, 7, 100, -1])])
            else:
                emit(["axis", h, rng.choice([0, 1, 3, 5]), rng.choice([None, 0, 1, 5]), None])
        elif d["kind"] == "range":
            ticks = T.link_values(d["link"]) if d["link"] is not None else (d["ticks"] or [])
            tf = sorted(b.fl(t) for t in ticks) if ticks else []
            ps = b.tick_positions(rng, tf)
            if r < 0.55:
                emit(["index_of", h, b.fs(rng.choice(ps)), rng.choice(b.MODES)])
            elif r < 0.85:
                s, e = rng.choice(ps), rng.choice(ps)
                if s > e and rng.random() < 0.8:
                    s, e = e, s
                emit(["range_indices", h, b.fs(s), b.fs(e), rng.choice(b.SMODES)])
            elif r < 0.93:
                n = len(tf)
                emit(["position_at", h, rng.choice([0, n - 1, n, -1, rng.randint(-n - 1, n + 1)])])
            else:
                n = len(tf)
                emit(["axis", h, rng.choice([0, 1, 2, n]), rng.choice([0, 0, 1, n - 1, -1]), None])
        else:
            if d["link"] is not None:
                v = T.link_values(d["link"])
                n = len(v) if v is not None else 0
            else:
                n = d["n"] or 0
            if r < 0.6:
                emit(["index_of", h, b.fs(b.set_positions(rng, n)), rng.choice(b.MODES)])
            else:
                s, e = b.set_positions(rng, n), b.set_positions(rng, n)
                if s > e and rng.random() < 0.8:
                    s, e = e, s
                emit(["range_indices", h, b.fs(s), b.fs(e), rng.choice(b.SMODES)])
        used[h] = True

    def link_op(h, d):
        k = rng.randrange(len(srckinds))
        sk = srckinds[k]
        src = T.srcs[k]
        if sk == "vec":
            iv = rng.choice([[-1], [-1], [-1], [0], [-1, 0], [-1, -1]])
            emit(["link_array", h, k, iv])
        elif sk == "mat":
            nc, nr = src[2], len(src[1])
            iv = rng.choice([[-1, rng.randrange(nc)], [-1, rng.randrange(nc)], [rng.randrange(nr), -1],
                             [-1, nc], [nr, -1], [-1], [-1, -1], [0, 0]])
            emit(["link_array", h, k, iv])
        else:
            emit(["link_frame", h, k, rng.choice([0, src[2] - 1, rng.randrange(src[2]), src[2], -1])])
        # refusals leave the configuration alone: redo the bookkeeping by the code's own rule
        o = ops[-1]
        dd = T.dims[d]
        ok = True
        if o[0] == "link_array":
            rank = 1 if sk == "vec" else (2 if sk == "mat" else None)
            ok = rank is not None and len(o[3]) == rank and o[3].count(-1) == 1 and sum(1 for i in o[3] if i < 0) == 1
        else:
            ok = sk == "frame" and 0 <= o[3] < src[2]
        if not ok:
            dd.update(saved)

    def mutate(h):
        nonlocal last_mut, saved
        dpos = T.handles[h]
        d = T.dims[dpos]
        saved = dict(d)
        r = rng.random()
        if d["kind"] == "sampled":
            if r < 0.4:
                emit(["set_offset", h, rng.choice([None] + [b.fs(x) for x in b.OFF_EXACT if x is not None])])
            elif r < 0.8:
                si = rng.choice(b.SI_EXACT)
                if rng.random() < 0.06:
                    si = rng.choice([Fraction(0), -si])
                emit(["set_interval", h, b.fs(si)])
            elif r < 0.9:
                emit(["set_unit", h, rng.choice(["s", "ms", "mV"])])
            else:
                emit(["set_label", h, rng.choice(["time", "x"])])
        elif d["kind"] == "range":
            if r < 0.5 or not srckinds:
                t = _ticks(rng) if rng.random() > 0.05 else []
                if rng.random() < 0.05 and len(t) > 1:
                    t = list(reversed(t))
                    if _asc([b.F(x) for x in t]):
                        emit(["set_ticks", h, t])
                    else:
                        ops.append(["set_ticks", h, t])       # refused: nothing changes
                else:
                    emit(["set_ticks", h, t])
            elif r < 0.75:
                link_op(h, dpos)
            elif r < 0.85 and d["link"] is not None:
                emit(["unlink", h])
            elif r < 0.93 and d["link"] is None:
                emit(["set_unit", h, rng.choice(["s", "ms"])])
            elif d["link"] is None:
                emit(["set_label", h, "t"])
            else:
                emit(["set_ticks", h, _ticks(rng)])
        else:
            if d["link"] is not None:
                if r < 0.5:
                    emit(["unlink", h])
                elif r < 0.8:
                    link_op(h, dpos)
                else:
                    ops.append(["set_labels", h, rng.choice([0, 1, 2, 3, 5])])   # refused while linked
            elif r < 0.6 or not srckinds:
                emit(["set_labels", h, rng.choice([0, 1, 1, 2, 3, 5, 12])])
            elif r < 0.9:
                link_op(h, dpos)
            else:
                emit(["set_label", h, "cat"])
        last_mut = (dpos, h)

    saved = {}
    n = length or rng.choice([8, 12, 16, 24, 32])
    for _ in range(n):
        r = rng.random()
        if last_mut is not None and r < 0.45:
            # ask through ANOTHER handle of the dimension that was just changed, preferably one already used
            d, hm = last_mut
            others = [h for h in handles_of(d) if h != hm]
            warm = [h for h in others if used.get(h)]
            pool = warm if (warm and rng.random() < 0.8) else (others or handles_of(d))
            query(rng.choice(pool))
            if rng.random() < 0.5:
                last_mut = None
        elif r < 0.6:
            query(rng.randrange(len(T.handles)))
        elif r < 0.9:
            if srckinds and rng.random() < 0.15:
                k = rng.randrange(len(srckinds))
                new = _src(rng, srckinds[k])
                old = T.srcs[k]
                if srckinds[k] == "vec" or new[2] == old[2]:
                    emit(["write_src", k, new])
                    linked = [i for i, dd in enumerate(T.dims) if dd.get("link") and dd["link"][0] == k]
                    if linked:
                        last_mut = (rng.choice(linked), None)
                    continue
            mutate(rng.randrange(len(T.handles)))
        else:
            emit(["open", rng.randrange(len(T.dims)), {"via": rng.choice(VIAS)}])
    # close with a question through every handle
    for h in range(len(T.handles)):
        if rng.random() < 0.5:
            query(h)
    return ops


# ---------------------------------------------------------------------------------------
# correspondence and oracle over sessions


def compare_session(ops, model, impl):
    """first op whose answers differ (marginal conversions skipped); None when the session agrees.
    Returns (position, n_compared, n_marginal)"""
    b = B()
    T = Truth()
    compared = marginal = 0
    for k, (op, m, i) in enumerate(zip(ops, model, impl)):
        o = strip_op(op)
        if o[0] in QUERIES:
            pc = T.pure_case(op)
            if pc is not None:
                if b.classify(pc) == "marginal":
                    marginal += 1
                    T.apply(op, i)
                    continue
                compared += 1
                if not b.same(pc, m, i):
                    return k, compared, marginal
                T.apply(op, i)
                continue
        compared += 1
        if m != i:
            return k, compared, marginal
        T.apply(op, i)
    return None, compared, marginal


def judge_session(ops, outs):
    """the property on every index_of / range_indices answer of a session, for the configuration written so far.
    Returns (position, Failure) of the first violation or None"""
    b = B()
    T = Truth()
    for k, (op, out) in enumerate(zip(ops, outs)):
        o = strip_op(op)
        if o[0] in ("index_of", "range_indices"):
            pc = T.pure_case(op)
            if pc is not None:
                f = b.judge(pc, out)
                if f is not None and not b._is_band_failure(pc):
                    # (positions inside the tolerance band of a sample are the open known finding; the pure oracle
                    # keeps representatives of it)
                    return k, f, pc
        elif o[0] == "position_at" and "ok" in out:
            # tick-of-index / position-of-index agree with the conversions: the stored tick, offset + i * interval
            pc = T.pure_case(op)
            if pc is not None and pc[0] == "range_tick_at" and 0 <= o[2] < len(pc[1]) and out["ok"] != pc[1][o[2]] \
                    and b.F(out["ok"]) != b.F(pc[1][o[2]]):
                return k, Failure("tick_at(i) is not the tick of sample i", pc, out["ok"], pc[1][o[2]],
                                  "RangeDimension.tick_at"), pc
            if pc is not None and pc[0] == "sampled_position_at" and o[2] >= 0:
                O, S = b.F(pc[1]), b.F(pc[2])
                want = O + o[2] * S
                if S > 0 and b.is_double(o[2] * S) and b.is_double(want) and b.F(out["ok"]) != want:
                    return k, Failure("position_at(i) is not the position of sample i", pc, out["ok"], b.fs(want),
                                      "SampledDimension.position_at"), pc
        elif o[0] == "axis" and "ok" in out:
            # generated axes agree with position_at / tick_at
            pc = T.pure_case(op)
            want = None
            if pc is not None and pc[0] == "sampled_axis" and o[2] >= 0 and (o[3] is None or o[3] >= 0) and o[4] is None:
                O, S = b.F(pc[1]), b.F(pc[2])
                want = [O + ((o[3] or 0) + j) * S for j in range(o[2])]
                if S <= 0 or not all(b.is_double(w) and b.is_double(w - O) for w in want):
                    want = None
            elif pc is not None and pc[0] == "range_axis" and 0 <= o[3] and o[2] >= 0 and o[3] + o[2] <= len(pc[1]):
                want = [b.F(t) for t in pc[1][o[3]:o[3] + o[2]]]
            if want is not None and [b.F(x) for x in out["ok"]] != want:
                return k, Failure("axis(count, start)[k] is not the position of sample start + k", pc, out["ok"],
                                  [b.fs(w) for w in want], "axis"), pc
        T.apply(op, out)
    return None


def shrink_failure(impl, ops, k):
    """drop earlier queries and changes one at a time while the session still fails at its last op"""
    cur = ops[:k + 1]
    i = len(cur) - 2
    tries = 0
    while i >= 0 and tries < 60:
        o = strip_op(cur[i])
        if o[0] in QUERIES or o[0] in MUTATIONS:
            cand = cur[:i] + cur[i + 1:]
            tries += 1
            r = judge_session(cand, impl.run(cand))
            if r is not None and r[0] == len(cand) - 1:
                cur = cand
        i -= 1
    return cur


def session_failure(impl, ops):
    """Failure (minimised history) if the implementation violates C07 somewhere in this session"""
    outs = impl.run(ops)
    r = judge_session(ops, outs)
    if r is None:
        return None
    k, f, pc = r
    small = shrink_failure(impl, ops, k)
    r2 = judge_session(small, impl.run(small))
    if r2 is None or r2[0] != len(small) - 1:
        small, r2 = ops[:k + 1], (k, f, pc)
    _, f2, pc2 = r2
    return Failure(f2.what + " (asked through a descriptor object after the history below; the required answer is "
                   "the one for the configuration in force at the time of the question)",
                   {"session": small, "question_as_case": pc2}, f2.observed, f2.required, f2.site)


FIXED_SESSIONS = [
    # a descriptor that has answered before, the offset / interval changed through another descriptor
    [["append_sampled", "2/1"], ["open", 0], ["open", 0], ["index_of", 0, "7/1", "LEQ"],
     ["set_offset", 1, "3/1"], ["set_interval", 1, "1/8"], ["index_of", 0, "7/2", "GEQ"],
     ["range_indices", 0, "3/1", "4/1", "Inclusive"], ["position_at", 0, 3], ["axis", 0, 3, 2, None]],
    [["append_sampled", "1/1"], ["open", 0, {"via": "appended"}], ["open", 0, {"via": "fresh-array"}],
     ["range_indices", 0, "0/1", "3/1", "Exclusive"], ["set_interval", 1, "2/1"],
     ["range_indices", 0, "0/1", "3/1", "Exclusive"], ["index_of", 0, "3/1", "Less"]],
    # ticks replaced / link target rewritten under a live descriptor
    [["append_range"], ["open", 0], ["open", 0], ["set_ticks", 0, ["1/1", "2/1", "2/1", "3/1"]],
     ["index_of", 0, "2/1", "LEQ"], ["set_ticks", 1, ["0/1", "1/2", "5/1"]], ["index_of", 0, "2/1", "LEQ"],
     ["range_indices", 0, "0/1", "5/1", "Exclusive"], ["position_at", 0, 2]],
    [["append_range"], ["new_src", ["vec", ["0/1", "1/1", "2/1"]]], ["open", 0], ["open", 0],
     ["link_array", 1, 0, [-1]], ["index_of", 0, "3/2", "GEQ"], ["write_src", 0, ["vec", ["0/1", "1/4", "1/2", "3/4"]]],
     ["index_of", 0, "3/2", "GEQ"], ["index_of", 0, "3/2", "LEQ"], ["unlink", 1], ["index_of", 0, "0/1", "LEQ"]],
    # labels changed under a live descriptor
    [["append_set"], ["open", 0], ["open", 0], ["set_labels", 0, 5], ["index_of", 0, "7/1", "LEQ"],
     ["set_labels", 1, 2], ["index_of", 0, "7/1", "LEQ"], ["set_labels", 1, 0], ["index_of", 0, "7/1", "LEQ"],
     ["range_indices", 0, "1/2", "7/2", "Inclusive"]],
]


def run_correspondence(ctx, n_sessions):
    """(compared evaluations, distinct sessions, disagreements, distribution)"""
    rng = ctx.rng
    sessions = [list(s) for s in FIXED_SESSIONS] + [gen_session(rng) for _ in range(n_sessions)]
    model = core.run_driver(B().PROP, [["session", strip_session(s)] for s in sessions])
    impl = SessionImpl(ctx, "corr")
    dis = []
    dist = {"sessions": len(sessions), "ops": {}, "answers": {}, "marginal_skipped": 0, "cross_handle_queries": 0,
            "via": {}}
    compared = 0
    try:
        for s, m in zip(sessions, model):
            if "ok" not in m:
                dis.append(Disagreement(["session", s], m, "model driver refused the session"))
                continue
            mo = canon_model(m["ok"])
            io = impl.run(s)
            k, c, mg = compare_session(s, mo, io)
            compared += c
            dist["marginal_skipped"] += mg
            last_writer = {}
            T = Truth()
            for op, out in zip(s, io):
                o = strip_op(op)
                dist["ops"][o[0]] = dist["ops"].get(o[0], 0) + 1
                oc = "err:" + out["err"] if "err" in out else ("none" if out.get("ok") is None else "ok")
                if o[0] in QUERIES or o[0] in MUTATIONS:
                    key = o[0] + ":" + oc
                    dist["answers"][key] = dist["answers"].get(key, 0) + 1
                if o[0] == "open" and isinstance(op[-1], dict):
                    dist["via"][op[-1].get("via")] = dist["via"].get(op[-1].get("via"), 0) + 1
                T.apply(op, out)
                if o[0] in MUTATIONS and o[0] != "write_src" and "ok" in out:
                    last_writer[T.handles[o[1]]] = o[1]
                if o[0] in QUERIES:
                    d = T.handles[o[1]]
                    if d in last_writer and last_writer[d] != o[1]:
                        dist["cross_handle_queries"] += 1
            if k is not None:
                dis.append(Disagreement(["session", s[:k + 1]], mo[k], io[k]))
    finally:
        impl.close()
    return compared, len(sessions), dis, dist


def run_oracle(ctx, n_sessions, hints):
    """(evaluations, failures)"""
    sessions = []
    for h in hints:
        if isinstance(h, list) and len(h) == 2 and h[0] == "session":
            sessions.append(h[1])
    sessions += [list(s) for s in FIXED_SESSIONS]
    sessions += [gen_session(ctx.rng) for _ in range(n_sessions)]
    impl = SessionImpl(ctx, "oracle")
    failures = []
    evals = 0
    try:
        for s in sessions:
            evals += sum(1 for op in s if strip_op(op)[0] in QUERIES)
            if len(failures) >= 5:
                break
            f = session_failure(impl, s)
            if f is not None:
                failures.append(f)
    finally:
        impl.close()
    return evals, failures


def replay(ctx, inp):
    impl = SessionImpl(ctx, "replay")
    try:
        ops = inp["session"]
        r = judge_session(ops, impl.run(ops))
        if r is None:
            return None
        _, f, pc = r
        return Failure(f.what, {"session": ops, "question_as_case": pc}, f.observed, f.required, f.site)
    finally:
        impl.close()
